"""Builds /verif/replay against /repo's working tree and runs scenarios natively (real code, ordinary program)."""
import os, subprocess, json, fcntl, shutil, time

VERIF = os.path.dirname(os.path.dirname(os.path.abspath(__file__)))
WORK = os.path.join(VERIF, ".work")
_built = {}


def build(hooks=True):
    if "bin" in _built:
        return _built["bin"]
    os.makedirs(WORK, exist_ok=True)
    crate = os.path.join(WORK, "replay-crate")
    lock = open(os.path.join(WORK, "replay.lock"), "w")
    fcntl.flock(lock, fcntl.LOCK_EX)
    try:
        subprocess.run(["rsync", "-a", "--delete", "--exclude", "target", "--exclude", "Cargo.lock", os.path.join(VERIF, "replay") + "/", crate + "/"], check=True)
        shutil.copyfile("/repo/Cargo.lock", os.path.join(crate, "Cargo.lock"))
        env = dict(os.environ, CARGO_TARGET_DIR=os.path.join(WORK, "replay-target"), CARGO_NET_OFFLINE="true")
        if hooks:
            env["RUSTFLAGS"] = (env.get("RUSTFLAGS", "") + " --cfg jsonrpsee_verif").strip()
        p = subprocess.run(["cargo", "build", "--offline"], cwd=crate, env=env, capture_output=True, text=True)
        if p.returncode != 0:
            raise RuntimeError("replay crate build failed:\n" + p.stderr[-4000:])
    finally:
        fcntl.flock(lock, fcntl.LOCK_UN)
    _built["bin"] = os.path.join(WORK, "replay-target", "debug", "jv-replay")
    return _built["bin"]


def run_scenario(scenario, args, timeout=120):
    """args: dict or list of dicts. returns (list of result dicts, exit code)"""
    b = build()
    try:
        p = subprocess.run([b, scenario, json.dumps(args)], capture_output=True, text=True, timeout=timeout)
    except subprocess.TimeoutExpired:
        # a hanging native run decides nothing (the caller reports the model as not reproduced => inconclusive)
        return [], 2, f"native scenario {scenario} did not finish within {timeout}s"
    outs = []
    for ln in p.stdout.splitlines():
        ln = ln.strip()
        if ln.startswith("{"):
            try:
                outs.append(json.loads(ln))
            except ValueError:
                pass
    return outs, p.returncode, p.stderr[-2000:]


def replay(pid, cand, cexdir):
    rp = cand.get("replay")
    import re as _re
    path = os.path.join(cexdir, f"{pid}-" + _re.sub(r"[^A-Za-z0-9._+=-]", "_", cand["name"])[:150] + ".json")
    rec = {"property": pid, "obligation": cand["name"], "model": cand.get("model"), "replay": rp}
    if not rp:
        rec["result"] = "no native scenario for this model (not replayable)"
        json.dump(rec, open(path, "w"), indent=1)
        return {"reproduced": None, "path": path, "log": "no replay scenario"}
    outs, rc, err = run_scenario(rp["scenario"], rp["args"])
    rec["native"] = outs
    json.dump(rec, open(path, "w"), indent=1)
    return {"reproduced": rc == 1, "path": path, "log": json.dumps(outs)[:2000] + err}


def replay_file(pid, path):
    rec = json.load(open(path))
    rp = rec.get("replay")
    if not rp:
        print("no native scenario recorded")
        return 2
    outs, rc, err = run_scenario(rp["scenario"], rp["args"])
    print(json.dumps(outs))
    if rc == 1:
        print(f"VIOLATION property={pid} replay={path}")
        return 1
    return 0
