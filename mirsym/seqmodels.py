"""Sequence abstraction of a `Vec<u8>` that a JSON text is assembled in (used for C20).

The buffer is a list of segments, kept as children ("seg", i) of the Vec's node:
  lit          one byte written by jsonrpsee's own code (Vec::push / indexed store); child "b" holds the byte (8-bit term)
  ser(tag, ok) what one `serde_json::to_writer(&mut buf, value)` call appended: if `ok` holds, a complete JSON text of the value
               (contract: non-empty, its last byte is not ','); if `ok` is false, an arbitrary - possibly empty - prefix of
               one (the serializer failed midway), and the call returned Err.
Every to_writer call gets a fresh Boolean `ok`: the solver explores success and failure of every insert.
"""
import re
import z3
from .sym import Node, Ptr, Opaque, OBJ, Unsupported, StrConst
from . import models as M

UNIT = Opaque(z3.Const("unit", OBJ))


def vec_node(ex, v):
    n = M._node_of(ex, v)
    if n is None:
        raise Unsupported(f"not a Vec: {v!r}")
    return n


def segs(n):
    out = []
    i = 0
    while ("seg", i) in n.kids:
        out.append(n.kids[("seg", i)])
        i += 1
    return out


def add_seg(ex, n, desc, byte=None):
    i = len(segs(n))
    s = Node(f"{n.name}.seg{i}", "seg")
    s.variant = desc
    if byte is not None:
        b = Node(s.name + ".b", "u8")
        b.val = byte
        s.kids["b"] = b
    n.kids[("seg", i)] = s
    return s


def implied(ex, st, cond):
    return not ex.feasible(st["pc"] + [z3.Not(cond)])


def m_vec_new(ex, st, callee, args, dty, site):
    n = Node(ex.ctx.fresh_name("vec"), "Vec<u8>")
    n.variant = None
    n.kids["isvec"] = Node(n.name + ".isvec", "bool")
    n.kids["isvec"].val = z3.BoolVal(True)
    return n


def m_is_empty(ex, st, callee, args, dty, site):
    n = vec_node(ex, args[0])
    ss = segs(n)
    if not ss:
        return z3.BoolVal(True)
    for s in ss:
        d = s.variant
        if d[0] == "lit":
            return z3.BoolVal(False)
        if d[0] == "ser" and implied(ex, st, d[2]):
            return z3.BoolVal(False)
    # only partial output of failed serialisations: may or may not be empty
    return z3.Bool(ex.ctx.fresh_name("partial_empty"))


def m_reserve(ex, st, callee, args, dty, site):
    return UNIT


def m_push(ex, st, callee, args, dty, site):
    n = vec_node(ex, args[0])
    b = args[1]
    if not isinstance(b, z3.BitVecRef):
        raise Unsupported("push of non-byte")
    add_seg(ex, n, ("lit",), b)
    return UNIT


def _hist(ex):
    if not hasattr(ex.ctx, "len_hist"):
        ex.ctx.len_hist = {}
    return ex.ctx.len_hist


def m_truncate(ex, st, callee, args, dty, site):
    """Vec::truncate(&mut v, n) where n is a value an earlier Vec::len of the same buffer returned: drop the segments added since"""
    n = vec_node(ex, args[0])
    ss = segs(n)
    l = z3.simplify(args[1])
    if z3.is_bv_value(l):
        keep = l.as_long()
        if keep > len(ss) or not all(s.variant[0] == "lit" for s in ss[:keep]):
            raise Unsupported("truncate to a concrete length inside non-literal segments")
    else:
        keep = _hist(ex).get(str(l))
        if keep is None or keep > len(ss):
            raise Unsupported(f"truncate to unknown length {l}")
    i = keep
    while ("seg", i) in n.kids:
        del n.kids[("seg", i)]
        i += 1
    n.kids.pop("lensym", None)
    return UNIT


def m_len(ex, st, callee, args, dty, site):
    n = vec_node(ex, args[0])
    ss = segs(n)
    if all(s.variant[0] == "lit" for s in ss):
        return z3.BitVecVal(len(ss), 64)
    ln = z3.BitVec(ex.ctx.fresh_name("veclen"), 64)
    lower = sum(1 for s in ss if s.variant[0] == "lit" or (s.variant[0] == "ser" and implied(ex, st, s.variant[2])))
    st["pc"].append(z3.And(z3.UGE(ln, lower), z3.ULT(ln, 1 << 62)))
    # remember which symbolic length belongs to this buffer snapshot
    n.kids["lensym"] = Node(n.name + ".lensym", "usize")
    n.kids["lensym"].val = ln
    _hist(ex)[str(ln)] = len(ss)
    return ln


def _last_byte_node(ex, st, n, idx):
    ss = segs(n)
    if not ss:
        raise Unsupported("index into empty buffer")
    # only `len - 1` is supported (that is what the encoded code does)
    ok_idx = False
    if all(s.variant[0] == "lit" for s in ss) and z3.is_bv_value(z3.simplify(idx)) and z3.simplify(idx).as_long() == len(ss) - 1:
        ok_idx = True
    elif "lensym" in n.kids and z3.simplify(idx).eq(z3.simplify(n.kids["lensym"].val - 1)):
        ok_idx = True
    if not ok_idx:
        raise Unsupported(f"index {idx} is not len-1")
    last = ss[-1]
    d = last.variant
    if d[0] == "lit":
        return last.kids["b"]
    b = last.kids.get("b")
    if b is None:
        b = Node(last.name + ".lastbyte", "u8")
        b.val = z3.BitVec(ex.ctx.fresh_name("lastbyte"), 8)
        last.kids["b"] = b
        if d[0] == "ser":
            # contract of a complete JSON text: it does not end with ','
            st["pc"].append(z3.Implies(d[2], b.val != 44))
    return b


def m_index(ex, st, callee, args, dty, site):
    n = vec_node(ex, args[0])
    return Ptr(_last_byte_node(ex, st, n, args[1]))


def m_to_writer(ex, st, callee, args, dty, site):
    n = vec_node(ex, args[0])
    k = len([e for e in st["events"] if e.kind == "call" and e.callee.startswith("to_writer::<")])
    m = re.match(r"^to_writer::<&mut Vec<u8>, (.*)>$", callee)
    what = m.group(1) if m else "?"
    ok = z3.Bool(ex.ctx.fresh_name(f"ser_ok"))
    # serialising a &str cannot fail in serde_json (no custom Serialize involved)
    if what == "str":
        st["pc"].append(ok)
    tagv = args[1]
    from .sym import to_term
    add_seg(ex, n, ("ser", str(to_term(tagv)), ok))
    r = Node(ex.ctx.fresh_name("ser_result"), "Result<(), serde_json::Error>")
    d = Node(r.name + ".discr", "isize")
    d.val = z3.If(ok, z3.BitVecVal(0, 64), z3.BitVecVal(1, 64))
    r.kids["discr"] = d
    return r


def _as_node(ex, v):
    if isinstance(v, Opaque):
        n = Node(ex.ctx.fresh_name("opq"), None)
        n.val = v
        return n
    return v


def m_try_branch(ex, st, callee, args, dty, site):
    r = _as_node(ex, args[0])
    if not isinstance(r, Node):
        return NotImplemented
    out = Node(ex.ctx.fresh_name("cf"), "ControlFlow")
    d = Node(out.name + ".discr", "isize")
    d.val = ex.discr_of(r)
    out.kids["discr"] = d
    out.kids[("Continue", 0)] = ex.child(r, ("Ok", 0), "T").clone()
    res = Node(out.name + ".residual", "Result<Infallible,E>")
    rd = Node(res.name + ".discr", "isize")
    rd.val = z3.BitVecVal(1, 64)
    res.kids["discr"] = rd
    res.kids[("Err", 0)] = ex.child(r, ("Err", 0), "E").clone()
    out.kids[("Break", 0)] = res
    return out


def m_try_branch_option(ex, st, callee, args, dty, site):
    o = _as_node(ex, args[0])
    if not isinstance(o, Node):
        return NotImplemented
    out = Node(ex.ctx.fresh_name("cf"), "ControlFlow")
    d = Node(out.name + ".discr", "isize")
    dv = ex.discr_of(o)
    d.val = z3.If(dv == 1, z3.BitVecVal(0, 64), z3.BitVecVal(1, 64))   # Some -> Continue(0), None -> Break(1)
    out.kids["discr"] = d
    out.kids[("Continue", 0)] = ex.child(o, ("Some", 0), None).clone()
    res = Node(out.name + ".residual", "Option<Infallible>")
    rd = Node(res.name + ".discr", "isize")
    rd.val = z3.BitVecVal(0, 64)
    res.kids["discr"] = rd
    out.kids[("Break", 0)] = res
    return out


def m_from_residual_option(ex, st, callee, args, dty, site):
    out = Node(ex.ctx.fresh_name("residual_none"), "Option")
    d = Node(out.name + ".discr", "isize")
    d.val = z3.BitVecVal(0, 64)
    out.kids["discr"] = d
    return out


def m_from_residual(ex, st, callee, args, dty, site):
    res = args[0]
    out = Node(ex.ctx.fresh_name("residual_result"), "Result")
    d = Node(out.name + ".discr", "isize")
    d.val = z3.BitVecVal(1, 64)
    out.kids["discr"] = d
    if isinstance(res, Node):
        out.kids[("Err", 0)] = ex.child(res, ("Err", 0), None).clone()
    return out


def m_from_string(ex, st, callee, args, dty, site):
    """RawValue::from_string(text): Ok(text) - whether the text is valid JSON is what the obligation decides from the segments"""
    r = Node(ex.ctx.fresh_name("rawvalue_result"), "Result<Box<RawValue>, Error>")
    d = Node(r.name + ".discr", "isize")
    d.val = z3.BitVecVal(0, 64)
    r.kids["discr"] = d
    k = Node(r.name + ".Ok:0", None)
    ex.write(k, args[0])
    r.kids[("Ok", 0)] = k
    return r


def m_expect(ex, st, callee, args, dty, site):
    r = args[0]
    if isinstance(r, Node):
        return ex.read_node(ex.child(r, ("Ok", 0), None))
    return NotImplemented


SEQ_MODELS = [
    (r"^Vec::<u8>::new$", m_vec_new),
    (r"^Vec::<u8>::with_capacity$", m_vec_new),
    (r"^Vec::<u8>::is_empty$", m_is_empty),
    (r"^Vec::<u8>::reserve$", m_reserve),
    (r"^Vec::<u8>::push$", m_push),
    (r"^Vec::<u8>::len$", m_len),
    (r"^Vec::<u8>::truncate$", m_truncate),
    (r"^<Vec<u8> as (std::ops::)?Index<usize>>::index$", m_index),
    (r"^<Vec<u8> as (std::ops::)?IndexMut<usize>>::index_mut$", m_index),
    (r"^to_writer::<&mut Vec<u8>, .*>$", m_to_writer),
    (r"^<Result<.*> as Try>::branch$", m_try_branch),
    (r"^<(std::option::)?Option<.*> as Try>::branch$", m_try_branch_option),
    (r"^<(std::option::)?Option<.*> as FromResidual<(std::option::)?Option<Infallible>>>::from_residual$", m_from_residual_option),
    (r"^<Result<.*> as FromResidual<Result<Infallible, .*>>>::from_residual$", m_from_residual),
    (r"^std::string::String::from_utf8_unchecked$", M.m_identity),
    (r"^RawValue::from_string$", m_from_string),
    (r"^Result::<Box<RawValue>, serde_json::Error>::expect$", m_expect),
]
SEQ_DOC = [
    "Vec<u8> is a list of segments: literal bytes pushed by jsonrpsee, and one segment per serde_json::to_writer call",
    "serde_json::to_writer(&mut buf, v): fresh Boolean ok; ok => appends a complete JSON text (non-empty, not ending in ',') and returns Ok; "
    "not ok => appends an arbitrary, possibly empty, prefix and returns Err; serialising a &str always succeeds",
    "Vec::is_empty / len / index(len-1) / index_mut(len-1) / push / reserve / truncate(to an earlier len) on that list",
    "Try::branch / FromResidual::from_residual for Result (the `?` operator)",
    "String::from_utf8_unchecked is the identity; RawValue::from_string returns Ok(text) and its argument is inspected by the obligation",
]


def on_havoc(ex, st, node, callee):
    """an unmodelled call got `&mut` access to a segment buffer: record an unknown write instead of forgetting the buffer"""
    if "isvec" in node.kids or segs(node):
        add_seg(ex, node, ("unknown", callee[:80]))
        return True
    return False


TRY_MODELS = [
    (r"^<Result<.*> as Try>::branch$", m_try_branch),
    (r"^<(std::option::)?Option<.*> as Try>::branch$", m_try_branch_option),
    (r"^<(std::option::)?Option<.*> as FromResidual<(std::option::)?Option<Infallible>>>::from_residual$", m_from_residual_option),
    (r"^<Result<.*> as FromResidual<Result<Infallible, .*>>>::from_residual$", m_from_residual),
]
