"""Engine A front end: (re)dump MIR from /repo's working tree, parse, run a property's obligations, cross-check with cvc5."""
import os, re, subprocess, time, json, glob, importlib, shutil
import z3
from . import mir as mirp

VERIF = os.path.dirname(os.path.dirname(os.path.abspath(__file__)))
WORK = os.path.join(VERIF, ".work")
REPO = "/repo"

CRATES = {
    "types": dict(dir="types", features=None, art="jsonrpsee_types"),
    "core": dict(dir="core", features="server,client,async-client,http-helpers", art="jsonrpsee_core"),
    "server": dict(dir="server", features=None, art="jsonrpsee_server"),
    "http-client": dict(dir="client/http-client", features=None, art="jsonrpsee_http_client"),
    # a fixture crate under /verif whose only content is `rpc` macro invocations: its MIR is the macro's expansion (C17)
    "fixture17": dict(dir=os.path.join(VERIF, "fixture17"), features=None, art="jv_fixture17", sync=True),
}

_cache = {}


def dump_mir(crate):
    """cargo +nightly rustc --emit=mir (overflow checks on, debug assertions off) -> path of the .mir file.
    cargo's fingerprinting re-runs rustc exactly when the sources under /repo changed."""
    c = CRATES[crate]
    tdir = os.path.join(WORK, "mir-target")
    cmd = ["cargo", "+nightly", "rustc", "--offline", "--lib"]
    if c["features"]:
        cmd += ["--features", c["features"]]
    cmd += ["--", "--emit=mir", "-C", "debug-assertions=off", "-C", "overflow-checks=on"]
    env = dict(os.environ, CARGO_TARGET_DIR=tdir, CARGO_NET_OFFLINE="true")
    t0 = time.time()
    cwd = os.path.join(REPO, c["dir"])
    if c.get("sync"):
        # out-of-tree crate with path dependencies on /repo: build a copy under .work with /repo's lock file
        cwd = os.path.join(WORK, crate)
        os.makedirs(cwd, exist_ok=True)
        subprocess.run(["rsync", "-a", "--delete", "--exclude", "target", "--exclude", "Cargo.lock", c["dir"] + "/", cwd + "/"], check=True)
        shutil.copy(os.path.join(REPO, "Cargo.lock"), os.path.join(cwd, "Cargo.lock"))
    p = subprocess.run(cmd, cwd=cwd, env=env, capture_output=True, text=True)
    if p.returncode != 0:
        raise RuntimeError(f"MIR dump of {crate} failed:\n{p.stderr[-3000:]}")
    files = sorted(glob.glob(os.path.join(tdir, "debug", "deps", c["art"] + "-*.mir")), key=os.path.getmtime)
    if not files:
        raise RuntimeError(f"no .mir produced for {crate}")
    return files[-1], time.time() - t0, " ".join(cmd)


def bodies(crate):
    if crate not in _cache:
        path, secs, cmd = dump_mir(crate)
        txt = open(path).read()
        _cache[crate] = (mirp.parse(txt), secs, cmd, path)
    return _cache[crate][0]


def mir_consts(crate):
    """integer / bool constants defined in the MIR dump itself (e.g. `BRANCHES` of a tokio::select! expansion): {last path segment: (value, type)}"""
    bodies(crate)
    txt = open(_cache[crate][3]).read()
    out, seen = {}, {}
    for m in re.finditer(r"^const ([^\n=]+?): (bool|[iu](?:8|16|32|64|128|size)) = \{\n(.*?)^\}", txt, re.S | re.M):
        mm = re.search(r"_0 = const (-?\d+)_[iu]\w+;|_0 = const (true|false);", m.group(3))
        if not mm:
            continue
        val = int(mm.group(1)) if mm.group(1) is not None else (1 if mm.group(2) == "true" else 0)
        key = m.group(1).strip().split("::")[-1]
        seen.setdefault(key, set()).add(val)
        out[key] = (val, m.group(2))
    for m in re.finditer(r"^const ([^\n=]+?): (bool|[iu](?:8|16|32|64|128|size)) = const (-?\d+|true|false)(?:_[iu]\w+)?;", txt, re.M):
        v = m.group(3)
        val = (1 if v == "true" else 0) if v in ("true", "false") else int(v)
        key = m.group(1).strip().split("::")[-1]
        seen.setdefault(key, set()).add(val)
        out[key] = (val, m.group(2))
    res = {k: v for k, v in out.items() if len(seen[k]) == 1}
    # the full paths as well (two select! expansions both define a `BRANCHES`)
    for m in re.finditer(r"^const ([^\n=]+?): (bool|[iu](?:8|16|32|64|128|size)) = const (-?\d+|true|false)(?:_[iu]\w+)?;", txt, re.M):
        v = m.group(3)
        res[m.group(1).strip()] = ((1 if v == "true" else 0) if v in ("true", "false") else int(v), m.group(2))
    for m in re.finditer(r"^const ([^\n=]+?): (bool|[iu](?:8|16|32|64|128|size)) = \{\n(.*?)^\}", txt, re.S | re.M):
        mm = re.search(r"_0 = const (-?\d+)_[iu]\w+;|_0 = const (true|false);", m.group(3))
        if mm:
            res[m.group(1).strip()] = (int(mm.group(1)) if mm.group(1) is not None else (1 if mm.group(2) == "true" else 0), m.group(2))
    return res


def find_body(bods, pattern, nth=0, all_=False):
    """pattern: regex searched in the body's header line (which holds name and signature). CTFE duplicates (#2) skipped."""
    hits = [b for n, b in bods.items() if re.search(pattern, b.header)]
    if all_:
        return hits
    if not hits:
        raise LookupError(f"no MIR body matches /{pattern}/ - spec needs update")
    return hits[nth]


# ---------------------------------------------------------------- constants / enums / struct fields from the source tree
_src_tables = {}


def source_tables():
    if _src_tables:
        return _src_tables
    consts, enums, structs = {}, {}, {}
    for d in ("types", "core", "server", "client/http-client", "client/transport", "client/ws-client"):
        for root, _, files in os.walk(os.path.join(REPO, d, "src")):
            for fn in files:
                if not fn.endswith(".rs"):
                    continue
                s = open(os.path.join(root, fn), errors="replace").read()
                s_nc = re.sub(r"//[^\n]*", "", s)
                for m in re.finditer(r"\bconst\s+([A-Z][A-Z0-9_]*)\s*:\s*([iu](?:8|16|32|64|128|size)|bool)\s*=\s*(-?[0-9_]+|true|false)\s*;", s_nc):
                    v = m.group(3)
                    val = (1 if v == "true" else 0) if v in ("true", "false") else int(v.replace("_", ""))
                    consts[m.group(1)] = (val, m.group(2))
                for m in re.finditer(r"\benum\s+([A-Za-z_][A-Za-z0-9_]*)\s*(?:<[^{]*>)?\s*(?:where[^{]*)?\{", s_nc):
                    body = _balanced(s_nc, m.end() - 1)
                    vs = []
                    for part in _split_top_commas(body):
                        part = re.sub(r"#\[[^\]]*\]", "", part).strip()
                        mm = re.match(r"([A-Za-z_][A-Za-z0-9_]*)", part)
                        if mm:
                            vs.append(mm.group(1))
                    enums.setdefault(m.group(1), vs)
                for m in re.finditer(r"\bstruct\s+([A-Za-z_][A-Za-z0-9_]*)\s*(?:<[^{;(]*>)?\s*(?:where[^{]*)?\{", s_nc):
                    body = _balanced(s_nc, m.end() - 1)
                    fs = []
                    for part in _split_top_commas(body):
                        part = re.sub(r"#\[[^\]]*\]", "", part).strip()
                        mm = re.match(r"(?:pub(?:\([^)]*\))?\s+)?([a-z_][A-Za-z0-9_]*)\s*:", part)
                        if mm:
                            fs.append(mm.group(1))
                    structs.setdefault(m.group(1), fs)
                    structs[os.path.relpath(os.path.join(root, fn), REPO) + "::" + m.group(1)] = fs     # same name in two modules: ask by file
    enums.setdefault("TrySendError", ["Full", "Closed"])       # tokio::sync::mpsc::error::TrySendError
    _src_tables.update(consts=consts, enums=enums, structs=structs)
    return _src_tables


def dep_enum(user_pkg, dep, relfile, enum):
    """variant names, in declaration order, of an enum of a dependency crate - at the version /repo's Cargo.lock resolves for user_pkg - read from the vendored registry source"""
    import glob
    lock = open(os.path.join(REPO, "Cargo.lock")).read()
    m = re.search(r'\[\[package\]\]\nname = "%s"\nversion = "[^"]+"\n(?:source = [^\n]*\n)?(?:checksum = [^\n]*\n)?dependencies = \[(.*?)\]' % re.escape(user_pkg), lock, re.S)
    deps = re.findall(r'"([^"]+)"', m.group(1)) if m else []
    ver = None
    for d in deps:
        parts = d.split(" ")
        if parts[0] == dep:
            ver = parts[1] if len(parts) > 1 else None
            if ver is None:
                mm = re.search(r'name = "%s"\nversion = "([^"]+)"' % re.escape(dep), lock)
                ver = mm.group(1) if mm else None
    if ver is None:
        raise LookupError(f"{user_pkg} does not depend on {dep} in Cargo.lock - spec needs update")
    cands = glob.glob(os.path.expanduser(f"~/.cargo/registry/src/*/{dep}-{ver}/{relfile}"))
    if not cands:
        raise LookupError(f"source of {dep} {ver} not found in the cargo registry")
    src = re.sub(r"//[^\n]*", "", open(cands[0], errors="replace").read())
    m = re.search(r"\benum\s+%s\s*(?:<[^{]*>)?\s*\{" % re.escape(enum), src)
    if not m:
        raise LookupError(f"enum {enum} not found in {dep} {ver} {relfile}")
    body = _balanced(src, m.end() - 1)
    out = []
    for part in _split_top_commas(body):
        part = re.sub(r"#\[[^\]]*\]", "", part).strip()
        mm = re.match(r"([A-Za-z_][A-Za-z0-9_]*)", part)
        if mm:
            out.append(mm.group(1))
    return out


def _balanced(s, i):
    depth = 0
    for j in range(i, len(s)):
        if s[j] == "{":
            depth += 1
        elif s[j] == "}":
            depth -= 1
            if depth == 0:
                return s[i + 1:j]
    return ""


def _split_top_commas(s):
    out, depth, cur = [], 0, []
    for c in s:
        if c in "([{<":
            depth += 1
        elif c in ")]}>":
            depth -= 1
        if c == "," and depth == 0:
            out.append("".join(cur))
            cur = []
        else:
            cur.append(c)
    if "".join(cur).strip():
        out.append("".join(cur))
    return out


def field_index(struct, field):
    fs = source_tables()["structs"].get(struct)
    if not fs or field not in fs:
        raise LookupError(f"struct {struct} has no field {field} in the source tree - spec needs update")
    return fs.index(field)


# ---------------------------------------------------------------- solver protocol

def _viol_terms(viol):
    out = []
    for v in viol or []:
        if isinstance(v, (tuple, list)) and v:
            v = v[0]
        if isinstance(v, z3.ExprRef):
            out.append(v)
        elif v is True:
            out.append(z3.BoolVal(True))
    return out


def violation_reachable(viol, timeout_s=20):
    qs = _viol_terms(viol)
    if not qs:
        return False
    s = z3.Solver()
    s.set("timeout", int(timeout_s * 1000))
    s.add(z3.Or(*qs))
    return s.check() == z3.sat


def live_reach(viol, reach, bad=None):
    """Vacuity guard that does not hide a violation: the expected cases (reach: dict of lists, or one list) must all be reachable for a *pass*;
    but when a violation is satisfiable it is reported even if the code no longer has one of the expected cases at all (a changed tree may have lost it).
    Returns the list of case lists to hand to decide(); an empty member means 'vacuous'."""
    cases = list(reach.values()) if isinstance(reach, dict) else [reach]
    if bad or all(cases):
        return cases
    if violation_reachable(viol):
        return [c for c in cases if c] or [[z3.BoolVal(True)]]
    return cases

class Result(dict):
    pass


def decide(name, kind, query, reach=None, timeout_s=60, bodies=(), bounds="", desc="", cross=True, extra=None, replay=None, keydetail=""):
    """query: z3 BoolRef whose satisfiability means *violation*. reach: BoolRef that must be satisfiable (vacuity twin)."""
    t0 = time.time()
    s = z3.Solver()
    s.set("timeout", int(timeout_s * 1000))
    s.add(query)
    r = s.check()
    secs = time.time() - t0
    res = Result(engine="mirsym", name=name, kind=kind, seconds=round(secs, 3), bodies=list(bodies), bounds=bounds, desc=desc,
                 query=(query.sexpr()[:600] if hasattr(query, "sexpr") else str(query)[:600]))
    if extra:
        res.update(extra)
    if r == z3.unsat:
        res["status"] = "discharged"
    elif r == z3.sat:
        m = s.model()
        res["status"] = "violated"
        res["model"] = {str(d): str(m[d]) for d in m.decls() if "/" not in str(d)}
        res["keydetail"] = keydetail
        if replay:
            # look for a model inside the natively constructible region and turn it into scenario arguments
            s3 = z3.Solver()
            s3.set("timeout", int(timeout_s * 1000))
            s3.add(query, replay["region"])
            if s3.check() == z3.sat:
                m3 = s3.model()
                args = {}
                for k, e in replay["vars"].items():
                    v = m3.eval(e, model_completion=True)
                    args[k] = str(v.as_long()) if z3.is_bv_value(v) else (bool(v) if z3.is_true(v) or z3.is_false(v) else str(v))
                args.update(replay.get("fixed", {}))
                res["replay"] = {"scenario": replay["scenario"], "args": args}
            else:
                res["replay"] = None
    else:
        res["status"] = "undecided"
        res["detail"] = s.reason_unknown()
    if reach is not None:
        # every reachability witness must be satisfiable, else the obligation is vacuous
        rs = reach if isinstance(reach, (list, tuple)) else [reach]
        verdicts = []
        for rf in rs:
            s2 = z3.Solver()
            s2.set("timeout", int(timeout_s * 1000))
            s2.add(rf)
            rr = s2.check()
            verdicts.append("sat" if rr == z3.sat else ("unsat" if rr == z3.unsat else "unknown"))
        res["reach"] = "sat" if all(v == "sat" for v in verdicts) else ("unsat" if "unsat" in verdicts else "unknown")
        res["reach_witnesses"] = len(rs)
        if res["reach"] != "sat" and res["status"] == "discharged":
            res["status"] = "vacuous"
            res["detail"] = f"reachability twin(s) {verdicts}: the obligation was not reached"
    # cross-check with cvc5 on the SMT-LIB2 text
    if cross and res["status"] in ("discharged", "violated"):
        smt = "(set-logic ALL)\n" + s.to_smt2()
        p = os.path.join(WORK, "smt")
        os.makedirs(p, exist_ok=True)
        fn = os.path.join(p, re.sub(r"[^A-Za-z0-9_.-]", "_", name) + ".smt2")
        open(fn, "w").write(smt)
        try:
            q = subprocess.run(["cvc5", "--lang", "smt2", f"--tlimit={int(timeout_s * 1000)}", fn], capture_output=True, text=True, timeout=timeout_s + 10)
            out = q.stdout.strip().splitlines()
            verdict = out[0].strip() if out else "none"
            if "(error" in q.stdout or "(error" in q.stderr:
                verdict = "error"
        except subprocess.TimeoutExpired:
            verdict = "timeout"
        res["cvc5"] = verdict
        want = "unsat" if res["status"] == "discharged" else "sat"
        if verdict in ("sat", "unsat") and verdict != want:
            res["status"] = "solver-disagreement"
            res["detail"] = f"z3={want} cvc5={verdict}"
        elif verdict == "error":
            res["status"] = "undecided"
            res["detail"] = "cvc5 reported (error"
    return res


def run_property(pid, spec, tier, seed, only=None):
    mod = importlib.import_module(f"mirsym.obl.{spec.MIRSYM}")
    t0 = time.time()
    results = mod.obligations(tier, seed)
    if only:
        results = [r for r in results if only in r["name"]]
    info = {
        "bodies": sorted({b for r in results for b in r.get("bodies", [])}),
        "models": sorted({m for r in results for m in r.get("models", [])}),
        "havoced": sorted({m for r in results for m in r.get("havoced", [])})[:50],
        "dump_s": round(sum(v[1] for v in _cache.values()), 2),
        "cmd": " ; ".join(sorted({v[2] for v in _cache.values()})) + " ; python3-vt mirsym (z3 " + z3.get_version_string() + ", cvc5 cross-check)",
        "validation": getattr(mod, "VALIDATION", {}),
    }
    for r in results:
        r.setdefault("engine", "mirsym")
        if r["status"] == "violated":
            r.setdefault("key", f"mirsym:{r['name']}:{r.get('keydetail','')}".rstrip(":"))
            r.setdefault("detail", json.dumps(r.get("model", {}))[:400])
        print(f"[{pid}]   mirsym {r['name']}: {r['status']} ({r.get('seconds')}s, reach={r.get('reach')}, cvc5={r.get('cvc5')})", flush=True)
    return results, info


def replay(pid, spec, cand, cexdir):
    """native replay of a mirsym model through /verif/replay (real code, ordinary test)."""
    from . import nativereplay
    return nativereplay.replay(pid, cand, cexdir)


def replay_file(pid, spec, path):
    from . import nativereplay
    return nativereplay.replay_file(pid, path)


def validate_encoding(scenario, vectors, predict, keys):
    """Translator validation (not the deciding step): concrete vectors through the real code (native) and through the
    SMT encoding; any disagreement means the encoder or a model is wrong."""
    from . import nativereplay
    outs, rc, err = nativereplay.run_scenario(scenario, vectors)
    n, bad = 0, []
    for vec, o in zip(vectors, outs):
        if o.get("skipped"):
            continue
        pred = predict(vec)
        n += 1
        for k in keys:
            if k in pred and pred[k] is not None and o.get("observed", {}).get(k) != pred[k]:
                bad.append({"vector": vec, "key": k, "native": o.get("observed", {}).get(k), "encoding": pred[k]})
    return {"scenario": scenario, "vectors": n, "disagreements": bad[:5], "native_violations": sum(1 for o in outs if o.get("violation"))}
