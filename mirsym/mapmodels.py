"""Association-list abstraction of std HashMap for the MIR executor (used for the client request table and the method registry).

A map is a node with children ("ent", i) -> entry node {k: key value, v: value}; keys of live entries are pairwise different
(invariant: an entry is only added on the path where the key differs from every live key). A lookup with key k forks:
for every live entry i the alternative `k == key_i`, plus the alternative `k differs from all` - the solver prunes the
infeasible ones, so keys may be fully symbolic (e.g. any u64 request id).
"""
import re
import z3
from .sym import Node, Ptr, Opaque, OBJ, Unsupported, StrConst, Fork, to_term
from . import models as M

UNIT = Opaque(z3.Const("unit", OBJ))


def new_map(ex, name="map"):
    n = Node(ex.ctx.fresh_name(name), "HashMap")
    n.variant = ("map", 0)
    return n


def is_map(n):
    return isinstance(n, Node) and isinstance(n.variant, tuple) and n.variant and n.variant[0] == "map"


def map_node(ex, v):
    n = v.node if isinstance(v, Ptr) else v
    if isinstance(n, Node) and not is_map(n) and isinstance(n.val, Ptr):
        n = n.val.node
    if not is_map(n):
        # a lazily symbolic map (arbitrary pre-state) is not supported: pre-states are built by the driver
        raise Unsupported(f"not a modelled map: {n!r}")
    return n


def entries(n):
    return sorted((k[1], e) for k, e in n.kids.items() if isinstance(k, tuple) and k[0] == "ent")


def add_entry(ex, n, key, val):
    i = n.variant[1]
    n.variant = ("map", i + 1)
    e = Node(f"{n.name}.ent{i}", "entry")
    kn = Node(e.name + ".k", None)
    ex.write(kn, key)
    vn = Node(e.name + ".v", None)
    ex.write(vn, val)
    vn.name = e.name + ".v"
    e.kids["k"], e.kids["v"] = kn, vn
    n.kids[("ent", i)] = e
    return e


def value_of(ex, x):
    """dereference pointers / lazily typed nodes down to the value used as a key"""
    if isinstance(x, Ptr):
        return value_of(ex, ex.read_node(x.node))
    if isinstance(x, Node) and isinstance(x.val, Ptr):
        return value_of(ex, ex.read_node(x.val.node))
    return x


def keq(ex, a, b):
    a, b = value_of(ex, a), value_of(ex, b)
    if isinstance(a, z3.ExprRef) and isinstance(b, z3.ExprRef):
        return a == b if a.sort() == b.sort() else z3.BoolVal(False)
    if isinstance(a, StrConst) and isinstance(b, StrConst):
        return z3.BoolVal(a.s == b.s)
    if isinstance(a, Node) and isinstance(b, Node):
        da, db = a.kids.get("discr"), b.kids.get("discr")
        if da is not None and db is not None:
            va, vb = z3.simplify(ex.read_node(da)), z3.simplify(ex.read_node(db))
            if z3.is_bv_value(va) and z3.is_bv_value(vb):
                if va.as_long() != vb.as_long():
                    return z3.BoolVal(False)
                conds = []
                for k in set(a.kids) | set(b.kids):
                    if isinstance(k, tuple) and k[0] not in ("name",) and k in a.kids and k in b.kids:
                        conds.append(keq(ex, ex.read_node(a.kids[k]), ex.read_node(b.kids[k])))
                return z3.And(*conds) if conds else z3.BoolVal(True)
        elif da is None and db is None and a.kids and b.kids and a.val is None and b.val is None:
            ks = [k for k in a.kids if k in b.kids and not (isinstance(k, tuple) and k[0] == "name")]
            if ks and set(k for k in a.kids if not (isinstance(k, tuple) and k[0] == "name")) == set(k for k in b.kids if not (isinstance(k, tuple) and k[0] == "name")):
                return z3.And(*[keq(ex, ex.read_node(a.kids[k]), ex.read_node(b.kids[k])) for k in ks])
    ta, tb = to_term(a), to_term(b)
    if ta.sort() == tb.sort():
        return ta == tb
    return z3.BoolVal(False)


def option(ex, some, val=None, ty="Option"):
    n = Node(ex.ctx.fresh_name("opt"), ty)
    d = Node(n.name + ".discr", "isize")
    d.val = z3.BitVecVal(1 if some else 0, 64)
    n.kids["discr"] = d
    if some:
        k = Node(n.name + ".Some:0", None)
        ex.write(k, val)
        n.kids[("Some", 0)] = k
    return n


def lookup_fork(ex, st, mnode, key, on_hit, on_miss):
    """Fork over which live entry `key` equals. on_hit(ex, st, map, entry_index) / on_miss(ex, st, map) build the result in
    the (possibly cloned) state."""
    ents = entries(mnode)
    eqs = [(i, keq(ex, key, e.kids["k"])) for i, e in ents]
    alts = []
    for i, c in eqs:
        alts.append((c, (lambda ex_, st_, tr, i=i: on_hit(ex_, st_, tr(mnode), i, tr))))
    miss = z3.And(*[z3.Not(c) for _, c in eqs]) if eqs else z3.BoolVal(True)
    alts.append((miss, (lambda ex_, st_, tr: on_miss(ex_, st_, tr(mnode), tr))))
    return Fork(alts)


# ---------------------------------------------------------------- HashMap API
def m_map_default(ex, st, callee, args, dty, site):
    return new_map(ex)


def _handle(ex, kind, mnode, idx=None, key=None):
    h = Node(ex.ctx.fresh_name("entry_handle"), kind)
    h.variant = (kind, idx)
    mp = Node(h.name + ".map", None)
    mp.val = Ptr(mnode)
    h.kids["map"] = mp
    if key is not None:
        kn = Node(h.name + ".key", None)
        ex.write(kn, key)
        h.kids["key"] = kn
    return h


def m_entry(ex, st, callee, args, dty, site):
    mnode = map_node(ex, args[0])
    key = args[1]

    def hit(ex_, st_, mn, i, tr):
        e = Node(ex_.ctx.fresh_name("entry"), "Entry")
        d = Node(e.name + ".discr", "isize")
        d.val = z3.BitVecVal(0, 64)
        e.kids["discr"] = d
        e.kids[("Occupied", 0)] = _handle(ex_, "occ", mn, i, tr(key) if isinstance(key, (Node, Ptr)) else key)
        return e

    def miss(ex_, st_, mn, tr):
        e = Node(ex_.ctx.fresh_name("entry"), "Entry")
        d = Node(e.name + ".discr", "isize")
        d.val = z3.BitVecVal(1, 64)
        e.kids["discr"] = d
        e.kids[("Vacant", 0)] = _handle(ex_, "vac", mn, None, tr(key) if isinstance(key, (Node, Ptr)) else key)
        return e
    return lookup_fork(ex, st, mnode, key, hit, miss)


def _h(ex, v):
    n = v.node if isinstance(v, Ptr) else v
    if isinstance(n, Node) and isinstance(n.val, Ptr) and not (isinstance(n.variant, tuple) and n.variant and n.variant[0] in ("occ", "vac")):
        n = n.val.node
    if not (isinstance(n, Node) and isinstance(n.variant, tuple) and n.variant and n.variant[0] in ("occ", "vac")):
        raise Unsupported(f"not an entry handle: {n!r}")
    return n, n.kids["map"].val.node


def m_occ_get(ex, st, callee, args, dty, site):
    h, mn = _h(ex, args[0])
    return Ptr(mn.kids[("ent", h.variant[1])].kids["v"])


def m_occ_remove_entry(ex, st, callee, args, dty, site):
    h, mn = _h(ex, args[0])
    e = mn.kids.pop(("ent", h.variant[1]))
    t = Node(ex.ctx.fresh_name("kv"), "(K,V)")
    t.kids[0], t.kids[1] = e.kids["k"], e.kids["v"]
    return t


def m_occ_remove(ex, st, callee, args, dty, site):
    h, mn = _h(ex, args[0])
    e = mn.kids.pop(("ent", h.variant[1]))
    return ex.read_node(e.kids["v"])


def m_occ_insert(ex, st, callee, args, dty, site):
    h, mn = _h(ex, args[0])
    vn = mn.kids[("ent", h.variant[1])].kids["v"]
    old = vn.clone()
    ex.write(vn, args[1])
    return ex.read_node(old)


def m_vac_insert(ex, st, callee, args, dty, site):
    h, mn = _h(ex, args[0])
    e = add_entry(ex, mn, ex.read_node(h.kids["key"]), args[1])
    return Ptr(e.kids["v"])


def m_map_insert(ex, st, callee, args, dty, site):
    mnode = map_node(ex, args[0])
    key, val = args[1], args[2]

    def hit(ex_, st_, mn, i, tr):
        vn = mn.kids[("ent", i)].kids["v"]
        old = vn.clone()
        ex_.write(vn, tr(val) if isinstance(val, (Node, Ptr)) else val)
        return option(ex_, True, ex_.read_node(old))

    def miss(ex_, st_, mn, tr):
        add_entry(ex_, mn, tr(key) if isinstance(key, (Node, Ptr)) else key, tr(val) if isinstance(val, (Node, Ptr)) else val)
        return option(ex_, False)
    return lookup_fork(ex, st, mnode, key, hit, miss)


def m_map_remove(ex, st, callee, args, dty, site):
    mnode = map_node(ex, args[0])

    def hit(ex_, st_, mn, i, tr):
        e = mn.kids.pop(("ent", i))
        return option(ex_, True, ex_.read_node(e.kids["v"]))

    def miss(ex_, st_, mn, tr):
        return option(ex_, False)
    return lookup_fork(ex, st, mnode, args[1], hit, miss)


def m_map_get(ex, st, callee, args, dty, site):
    mnode = map_node(ex, args[0])

    def hit(ex_, st_, mn, i, tr):
        return option(ex_, True, Ptr(mn.kids[("ent", i)].kids["v"]))

    def miss(ex_, st_, mn, tr):
        return option(ex_, False)
    return lookup_fork(ex, st, mnode, args[1], hit, miss)


def m_map_contains(ex, st, callee, args, dty, site):
    mnode = map_node(ex, args[0])
    return lookup_fork(ex, st, mnode, args[1], lambda e, s, mn, i, tr: z3.BoolVal(True), lambda e, s, mn, tr: z3.BoolVal(False))


def m_map_len(ex, st, callee, args, dty, site):
    return z3.BitVecVal(len(entries(map_node(ex, args[0]))), 64)


def m_map_is_empty(ex, st, callee, args, dty, site):
    return z3.BoolVal(len(entries(map_node(ex, args[0]))) == 0)


HM = r"(?:std::collections::)?(?:hash_map::)?HashMap::<.*>"
MAP_MODELS = [
    (r"^<" + r"(?:std::collections::)?HashMap<.*> as Default>::default$", m_map_default),
    (r"^" + HM + r"::(new|default|with_hasher|with_capacity_and_hasher)$", m_map_default),
    (r"^" + HM + r"::entry$", m_entry),
    (r"^" + HM + r"::insert$", m_map_insert),
    (r"^" + HM + r"::remove::<.*>$", m_map_remove),
    (r"^" + HM + r"::remove$", m_map_remove),
    (r"^" + HM + r"::(get|get_mut)(::<.*>)?$", m_map_get),
    (r"^" + HM + r"::contains_key(::<.*>)?$", m_map_contains),
    (r"^" + HM + r"::len$", m_map_len),
    (r"^" + HM + r"::is_empty$", m_map_is_empty),
    (r"^std::collections::hash_map::OccupiedEntry::<.*>::(get|get_mut|into_mut)$", m_occ_get),
    (r"^std::collections::hash_map::OccupiedEntry::<.*>::remove_entry$", m_occ_remove_entry),
    (r"^std::collections::hash_map::OccupiedEntry::<.*>::remove$", m_occ_remove),
    (r"^std::collections::hash_map::OccupiedEntry::<.*>::insert$", m_occ_insert),
    (r"^std::collections::hash_map::VacantEntry::<.*>::insert$", m_vac_insert),
]
MAP_DOC = [
    "HashMap is an association list with pairwise-distinct live keys; entry/get/get_mut/contains_key/insert/remove fork on which live "
    "key the argument equals (or none); OccupiedEntry::{get,get_mut,remove_entry,remove,insert} and VacantEntry::insert act on that entry",
    "key equality is structural on enum/tuple values built by the driver and uninterpreted equality on opaque values",
]


# ---------------------------------------------------------------- Arc<T> with copy-on-write, map iteration
def _arc_box(ex, inner, rc=1):
    b = Node(ex.ctx.fresh_name("arcbox"), "ArcInner")
    b.variant = ("arcbox", rc)
    v = Node(b.name + ".v", None)
    ex.write(v, inner)
    v.name = b.name + ".v"
    b.kids["v"] = v
    return b


def new_arc(ex, inner):
    a = Node(ex.ctx.fresh_name("arc"), "Arc")
    a.variant = ("arc",)
    p = Node(a.name + ".ptr", None)
    p.val = Ptr(_arc_box(ex, inner))
    a.kids["ptr"] = p
    return a


def arc_node(ex, v):
    n = v.node if isinstance(v, Ptr) else v
    if isinstance(n, Node) and not (isinstance(n.variant, tuple) and n.variant and n.variant[0] == "arc") and isinstance(n.val, Ptr):
        n = n.val.node
    if not (isinstance(n, Node) and isinstance(n.variant, tuple) and n.variant and n.variant[0] == "arc"):
        return None
    return n


def m_arc_default_map(ex, st, callee, args, dty, site):
    return new_arc(ex, new_map(ex))


def m_arc_new(ex, st, callee, args, dty, site):
    return new_arc(ex, args[0])


def m_arc_clone(ex, st, callee, args, dty, site):
    a = arc_node(ex, args[0])
    if a is None:
        return NotImplemented
    box = a.kids["ptr"].val.node
    box.variant = ("arcbox", box.variant[1] + 1)
    c = Node(ex.ctx.fresh_name("arc"), "Arc")
    c.variant = ("arc",)
    p = Node(c.name + ".ptr", None)
    p.val = Ptr(box)
    c.kids["ptr"] = p
    return c


def m_arc_make_mut(ex, st, callee, args, dty, site):
    a = arc_node(ex, args[0])
    if a is None:
        return NotImplemented
    box = a.kids["ptr"].val.node
    if box.variant[1] > 1:
        # shared: clone the contents for this handle (copy-on-write)
        box.variant = ("arcbox", box.variant[1] - 1)
        nb = _arc_box(ex, ex.read_node(box.kids["v"]))
        a.kids["ptr"].val = Ptr(nb)
        box = nb
    return Ptr(box.kids["v"])


def m_arc_get_mut(ex, st, callee, args, dty, site):
    """Arc::get_mut(&mut arc): Some(&mut contents) iff this is the only handle"""
    a = arc_node(ex, args[0])
    if a is None:
        return NotImplemented
    box = a.kids["ptr"].val.node
    if box.variant[1] == 1:
        return option(ex, True, Ptr(box.kids["v"]))
    return option(ex, False)


def m_arc_deref(ex, st, callee, args, dty, site):
    a = arc_node(ex, args[0])
    if a is None:
        return NotImplemented
    return Ptr(a.kids["ptr"].val.node.kids["v"])


def _iter_over(ex, items, kind):
    it = Node(ex.ctx.fresh_name(kind), kind)
    it.variant = ("mapiter", 0)
    for i, v in enumerate(items):
        k = Node(f"{it.name}.item{i}", None)
        ex.write(k, v)
        it.kids[("item", i)] = k
    return it


def m_map_keys(ex, st, callee, args, dty, site):
    mn = map_node(ex, args[0])
    return _iter_over(ex, [Ptr(e.kids["k"]) for _, e in entries(mn)], "Keys")


def m_map_drain(ex, st, callee, args, dty, site):
    mn = map_node(ex, args[0])
    items = []
    for i, e in entries(mn):
        t = Node(ex.ctx.fresh_name("kv"), "(K,V)")
        t.kids[0], t.kids[1] = e.kids["k"], e.kids["v"]
        items.append(t)
        del mn.kids[("ent", i)]
    return _iter_over(ex, items, "Drain")


def m_mapiter_next(ex, st, callee, args, dty, site):
    it = args[0].node if isinstance(args[0], Ptr) else args[0]
    if not (isinstance(it, Node) and isinstance(it.variant, tuple) and it.variant and it.variant[0] == "mapiter"):
        return NotImplemented
    pos = it.variant[1]
    k = it.kids.get(("item", pos))
    if k is None:
        return option(ex, False)
    it.variant = ("mapiter", pos + 1)
    return option(ex, True, ex.read_node(k))


def m_get_key_value(ex, st, callee, args, dty, site):
    mnode = map_node(ex, args[0])

    def hit(ex_, st_, mn, i, tr):
        t = Node(ex_.ctx.fresh_name("kvref"), "(&K,&V)")
        a, b = Node(t.name + ".0", None), Node(t.name + ".1", None)
        a.val, b.val = Ptr(mn.kids[("ent", i)].kids["k"]), Ptr(mn.kids[("ent", i)].kids["v"])
        t.kids[0], t.kids[1] = a, b
        return option(ex_, True, t)
    return lookup_fork(ex, st, mnode, args[1], hit, lambda e, s, mn, tr: option(e, False))


def m_str_eq(ex, st, callee, args, dty, site):
    c = keq(ex, args[0], args[1])
    return z3.Not(c) if callee.endswith("::ne") else c


ARC_MODELS = [
    (r"^<Arc<HashMap<.*>> as Default>::default$", m_arc_default_map),
    (r"^Arc::<.*>::new$", m_arc_new),
    (r"^<Arc<.*> as Clone>::clone$", m_arc_clone),
    (r"^Arc::<.*>::make_mut$", m_arc_make_mut),
    (r"^Arc::<.*>::get_mut$", m_arc_get_mut),
    (r"^<Arc<.*> as Deref>::deref$", m_arc_deref),
    (r"^" + HM + r"::keys$", m_map_keys),
    (r"^" + HM + r"::drain$", m_map_drain),
    (r"^" + HM + r"::get_key_value(::<.*>)?$", m_get_key_value),
    (r"^<std::collections::hash_map::(Keys|Drain)<.*> as IntoIterator>::into_iter$", M.m_identity),
    (r"^<std::collections::hash_map::(Keys|Drain)<.*> as Iterator>::next$", m_mapiter_next),
    (r"^<(&)?str as PartialEq(<&?str>)?>::(eq|ne)$", m_str_eq),
    (r"^<&str as PartialEq<&str>>::(eq|ne)$", m_str_eq),
    (r"^core::str::traits::<impl PartialEq for str>::(eq|ne)$", m_str_eq),
]
ARC_DOC = [
    "Arc<T>: shared box with a reference count; Arc::clone shares it, Arc::make_mut clones the contents when shared (copy-on-write), Deref reads it",
    "HashMap::keys / drain / get_key_value iterate / look up the association list; str == str is (solver-decided) equality of the abstract texts",
]


def clone_value(ex, v):
    """derive(Clone) semantics on abstract values: plain data is copied, an Arc is shared (reference count + 1)"""
    if isinstance(v, Ptr):
        return v
    if not isinstance(v, Node):
        return v
    a = arc_node(ex, v)
    if a is not None and a is v:
        return m_arc_clone(ex, None, "", [v], None, None)
    n = Node(v.name, v.ty)
    n.val, n.variant = v.val, v.variant
    for k, kid in v.kids.items():
        c = clone_value(ex, kid)
        if isinstance(c, Node):
            n.kids[k] = c
        else:
            kk = Node(kid.name, kid.ty)
            kk.val = c
            n.kids[k] = kk
    return n


def m_clone_struct(ex, st, callee, args, dty, site):
    v = args[0]
    tgt = v.node if isinstance(v, Ptr) else (ex.pointee(v) if isinstance(v, Node) and v.val is None and not v.kids else v)
    return clone_value(ex, ex.read_node(tgt) if isinstance(tgt, Node) else tgt)


ARC_MODELS.append((r" as Clone>::clone$", m_clone_struct))
