"""Driver for the async client's request table: runs the real MIR of manager.rs / helpers.rs step by step from driver-built
states, with HashMap as an association list (mapmodels) and tokio channels as recorded events."""
import re
import z3
from . import run as R, models as M, mapmodels as MM, prov as P, seqmodels as SQ, listmodels as LM
from .sym import Ctx, Executor, Node, Ptr, Opaque, OBJ, to_term, Unsupported

MGR = r"^fn manager::<impl at core/src/client/async_client/manager\.rs:[\d: ]+>::"


def m_oneshot_send(ex, st, callee, args, dty, site):
    """oneshot::Sender::send(tx, v): recorded; returns Ok(()) if the receiver is still there (fresh Boolean), else Err(v)"""
    alive = z3.Bool(ex.ctx.fresh_name("rx_alive"))
    r = Node(ex.ctx.fresh_name("send_result"), "Result")
    d = Node(r.name + ".discr", "isize")
    d.val = z3.If(alive, z3.BitVecVal(0, 64), z3.BitVecVal(1, 64))
    r.kids["discr"] = d
    k = Node(r.name + ".Err:0", None)
    ex.write(k, args[1])
    r.kids[("Err", 0)] = k
    return r


def m_sink_send(ex, st, callee, args, dty, site):
    """SubscriptionSender::send(&mut sink, item) -> Result<(), TrySubscriptionSendError{Closed, TooSlow(item)}> : outcome chosen by the solver"""
    o = z3.BitVec(ex.ctx.fresh_name("sink_outcome"), 2)
    st["pc"].append(z3.ULE(o, 2))
    r = Node(ex.ctx.fresh_name("sink_result"), "Result<(), TrySubscriptionSendError>")
    d = Node(r.name + ".discr", "isize")
    d.val = z3.If(o == 0, z3.BitVecVal(0, 64), z3.BitVecVal(1, 64))
    r.kids["discr"] = d
    e = Node(r.name + ".Err:0", "TrySubscriptionSendError")
    ed = Node(e.name + ".discr", "isize")
    ed.val = z3.If(o == 1, z3.BitVecVal(0, 64), z3.BitVecVal(1, 64))   # Closed = 0, TooSlow = 1
    e.kids["discr"] = ed
    r.kids[("Err", 0)] = e
    return r


def m_try_send(ex, st, callee, args, dty, site):
    """tokio mpsc::Sender::try_send(&tx, v) -> Ok(()) | Err(Full(v)) | Err(Closed(v)) : outcome chosen by the solver; recorded"""
    o = z3.BitVec(ex.ctx.fresh_name("try_send_outcome"), 2)
    st["pc"].append(z3.ULE(o, 2))
    r = Node(ex.ctx.fresh_name("try_send_result"), "Result<(), TrySendError>")
    d = Node(r.name + ".discr", "isize")
    d.val = z3.If(o == 0, z3.BitVecVal(0, 64), z3.BitVecVal(1, 64))
    r.kids["discr"] = d
    e = Node(r.name + ".Err:0", "TrySendError")
    ed = Node(e.name + ".discr", "isize")
    ed.val = z3.If(o == 1, z3.BitVecVal(0, 64), z3.BitVecVal(1, 64))      # Full = 0, Closed = 1
    e.kids["discr"] = ed
    for vn in ("Full", "Closed"):
        k = Node(f"{e.name}.{vn}:0", None)
        ex.write(k, args[1])
        e.kids[(vn, 0)] = k
    r.kids[("Err", 0)] = e
    return r


def m_subscription_channel(ex, st, callee, args, dty, site):
    k = ex.ctx.fresh_name("chan")
    t = Node(k, "(SubscriptionSender, SubscriptionReceiver)")
    a = Node(k + ".0", "SubscriptionSender")
    inner = Node(k + ".0.0", None)
    inner.val = Opaque(z3.Const("tx:" + k, OBJ))
    a.kids[0] = inner
    b = Node(k + ".1", None)
    b.val = Opaque(z3.Const("rx:" + k, OBJ))
    t.kids[0], t.kids[1] = a, b
    return t


def m_struct_eq(ex, st, callee, args, dty, site):
    c = MM.keq(ex, args[0], args[1])
    return z3.Not(c) if callee.endswith("::ne") else c


def m_to_writer_infallible(ex, st, callee, args, dty, site):
    """in the client table code the only value serialised is a SubscriptionId / a jsonrpsee Request: cannot fail"""
    r = SQ.m_to_writer(ex, st, callee, args, dty, site)
    okv = ex.read_node(r.kids["discr"])
    st["pc"].append(okv == 0)
    return r


def m_to_string_ok(ex, st, callee, args, dty, site):
    r = Node(ex.ctx.fresh_name("to_string_result"), "Result<String, Error>")
    d = Node(r.name + ".discr", "isize")
    d.val = z3.BitVecVal(0, 64)
    r.kids["discr"] = d
    k = Node(r.name + ".Ok:0", "String")
    k.val = Opaque(z3.Const(ex.ctx.fresh_name("json_text"), OBJ))
    r.kids[("Ok", 0)] = k
    return r


def m_response_new(ex, st, callee, args, dty, site):
    """jsonrpsee_types::Response::new(payload, id) -> Response { jsonrpc: Some(2.0), payload, id, extensions }"""
    r = Node(ex.ctx.fresh_name("response"), "Response")
    for f, v in ((R.field_index("Response", "payload"), args[0]), (R.field_index("Response", "id"), args[1])):
        k = Node(f"{r.name}.{f}", None)
        ex.write(k, v)
        r.kids[f] = k
    return r


def m_into_rawresponse(ex, st, callee, args, dty, site):
    r = Node(ex.ctx.fresh_name("rawresponse"), "RawResponse")
    k = Node(r.name + ".0", None)
    ex.write(k, args[0])
    r.kids[0] = k
    return r


def m_try_parse_number(ex, st, callee, args, dty, site):
    """Id::try_parse_inner_as_number: Number(n) -> Ok(n); Null -> Err; Str -> solver-chosen"""
    idn = MM.value_of(ex, args[0])
    if not isinstance(idn, Node) or "discr" not in idn.kids:
        return NotImplemented
    dv = z3.simplify(ex.read_node(idn.kids["discr"]))
    if not z3.is_bv_value(dv):
        return NotImplemented
    which = R.source_tables()["enums"]["Id"][dv.as_long()]
    if which == "Number":
        return ex.mk_variant("Result", 0, "Ok", ex.read_node(idn.kids[("Number", 0)]))
    if which == "Null":
        return ex.mk_variant("Result", 1, "Err", Opaque(z3.Const("InvalidRequestId::Invalid", OBJ)))
    return NotImplemented


def m_str_identity(ex, st, callee, args, dty, site):
    """conversions between str / String / Cow<str> keep the abstract text"""
    return MM.value_of(ex, args[0])


STR_RX = (r"^(<Cow<'_, str> as ToString>::to_string|<str as ToOwned>::to_owned|<Cow<'_, str> as Deref>::deref|<std::string::String as Deref>::deref|"
          r"<std::string::String as Borrow<str>>::borrow|<std::string::String as Into<Cow<'_, str>>>::into|<&str as Into<Cow<'_, str>>>::into|"
          r"<std::string::String as Clone>::clone|std::string::String::as_str|<str as ToString>::to_string|<std::string::String as From<&str>>::from)$")

CLIENT_MODELS = [
    (STR_RX, m_str_identity),
    (r"^jsonrpsee_types::Response::<.*>::new$", m_response_new),
    (r"^<jsonrpsee_types::Response<.*> as Into<RawResponse<'_>>>::into$", m_into_rawresponse),
    (r"^jsonrpsee_types::Id::<'_>::try_parse_inner_as_number$", m_try_parse_number),
    (r"^to_writer::<&mut Vec<u8>, .*>$", m_to_writer_infallible),
    (r"^serde_json::to_string::<jsonrpsee_types::Request<'_>>$", m_to_string_ok),
    (r"^tokio::sync::oneshot::Sender::<.*>::send$", m_oneshot_send),
    (r"^tokio::sync::mpsc::Sender::<.*>::try_send$", m_try_send),
    (r"^SubscriptionLagged::set_lagged$", lambda ex, st, c, a, d, s: Opaque(z3.Const("unit", OBJ))),
    (r"^subscription_channel$", m_subscription_channel),
    (r"::into_owned$", M.m_identity),
    (r"^<jsonrpsee_types::Id<'_> as PartialEq>::(eq|ne)$", m_struct_eq),
    (r"^<SubscriptionId<'_> as PartialEq>::(eq|ne)$", m_struct_eq),
]
CLIENT_DOC = [
    "tokio oneshot::Sender::send: recorded as an event; Ok(()) iff a fresh Boolean 'receiver alive', else Err(value)",
    "tokio mpsc::Sender::try_send: outcome (delivered | Full | Closed) chosen by the solver; recorded (SubscriptionSender::send itself is executed)",
    "subscription_channel(cap): a fresh (sender, receiver) pair",
    "Id/SubscriptionId/Cow::into_owned are identities; Id == Id is structural equality",
    "str / String / Cow<str> conversions (to_string, to_owned, deref, borrow, into, clone) keep the abstract text",
    "Response::new(payload, id) builds the response with that id; Response -> RawResponse wraps it; Id::try_parse_inner_as_number: Number(n) -> Ok(n), Null -> Err",
    "serialising a SubscriptionId (ArrayParams::insert) or a jsonrpsee Request (serde_json::to_string) cannot fail",
]


def make_ctx(core, **kw):
    t = R.source_tables()
    kw.setdefault("max_paths", 4000)
    ctx = Ctx(core, consts=t["consts"], enums=t["enums"],
              models=CLIENT_MODELS + MM.MAP_MODELS + LM.LIST_MODELS + list(M.TRACING_MODELS) + list(M.MEM_MODELS) + list(SQ.SEQ_MODELS) + list(M.STRING_MODELS) + list(M.INT_MODELS) + P.COMMON_MODELS,
              inline=[M.crate_inliner(core)], **kw)
    ctx.on_havoc = SQ.on_havoc
    return ctx


def variant_idx(enum, v):
    return R.source_tables()["enums"][enum].index(v)


def mk_enum(ex, enum, variant, fields=(), name=None):
    n = Node(name or ex.ctx.fresh_name(enum), enum)
    d = Node(n.name + ".discr", "isize")
    d.val = z3.BitVecVal(variant_idx(enum, variant), 64)
    n.kids["discr"] = d
    for i, f in enumerate(fields):
        k = Node(f"{n.name}.{variant}:{i}", None)
        ex.write(k, f)
        n.kids[(variant, i)] = k
    return n


def range_u64(ex, start, end):
    n = Node(ex.ctx.fresh_name("range"), "std::ops::Range<u64>")
    for i, v in ((0, start), (1, end)):
        k = Node(f"{n.name}.{i}", "u64")
        k.val = v
        n.kids[i] = k
    return n


def id_number(ex, bv):
    return mk_enum(ex, "Id", "Number", [bv])


def subid_num(ex, bv):
    return mk_enum(ex, "SubscriptionId", "Num", [bv])


def some(ex, v):
    return MM.option(ex, True, v)


def none(ex):
    return MM.option(ex, False)


def opaque(name):
    return Opaque(z3.Const(name, OBJ))


def response_with_id(ex, idnode, name):
    """RawResponse(Response { jsonrpc, payload, id, extensions }) with a lazily symbolic payload"""
    fi = R.field_index("Response", "id")
    r = Node(name, "RawResponse")
    inner = Node(name + ".0", "Response")
    k = Node(f"{name}.0.{fi}", None)
    ex.write(k, idnode)
    inner.kids[fi] = k
    r.kids[0] = inner
    return r


class Table:
    """a symbolic execution state of the request table: path condition + manager object + log"""

    def __init__(self, pc, mgr, log, events):
        self.pc, self.mgr, self.log, self.events = pc, mgr, log, events


def new_tables(ex, core):
    b = R.find_body(core, MGR + r"new\(\) -> RequestManager")
    out = []
    for p in ex.run(b):
        if p.kind != "return":
            raise RuntimeError(f"RequestManager::new: {p.kind} {p.detail}")
        out.append(Table(list(p.pc), p.ret.clone(), [], []))
    return out


def step(ex, core, tables, body, mkargs, label):
    """run `body(&mut mgr, *mkargs(ex))` from every table; returns list of (Table, Path) for return paths and abnormal list"""
    nxt, abnormal = [], []
    for t in tables:
        mgr = t.mgr.clone()
        args = [Ptr(mgr)] + list(mkargs(ex))
        for p in ex.run(body, args=args, pc0=t.pc, events0=[]):
            if p.kind == "return":
                st = p.frame
                m2 = ex.pointee(st["mem"][(0, body.params[0][0])])
                nxt.append((Table(list(p.pc), m2.clone(), t.log + [(label, p)], t.events + p.events), p))
            elif p.kind in ("panic", "unsupported", "limit", "unwound", "diverge"):
                abnormal.append((t, p, label))
    return nxt, abnormal


def sizes(ex, mgr):
    """(requests, subscriptions, batches, notification_handlers) entry counts"""
    out = []
    for f in ("requests", "subscriptions", "batches", "notification_handlers"):
        n = mgr.kids.get(R.field_index("RequestManager", f))
        out.append(len(MM.entries(n)) if n is not None and MM.is_map(n) else None)
    return tuple(out)


def body(core, name_rx):
    return R.find_body(core, name_rx)


def signature(ex, mgr):
    """structural signature of the four tables: entry keys and the shape of their values (for merging equal states)"""
    def sig(v, depth=0):
        v = ex.read_node(v) if isinstance(v, Node) else v
        if isinstance(v, Ptr):
            return ("ptr", sig(v.node, depth + 1) if depth < 4 else v.node.name)
        if isinstance(v, Node):
            items = []
            for k in sorted(v.kids, key=str):
                if isinstance(k, tuple) and k[0] == "name":
                    continue
                items.append((str(k), sig(v.kids[k], depth + 1) if depth < 6 else "..."))
            return (str(v.val) if v.val is not None else None, tuple(items))
        return str(v)
    out = []
    for f in ("requests", "subscriptions", "batches", "notification_handlers"):
        n = mgr.kids.get(R.field_index("RequestManager", f))
        ents = [(sig(e.kids["k"]), sig(e.kids["v"])) for _, e in MM.entries(n)] if n is not None and MM.is_map(n) else None
        out.append(tuple(sorted(ents, key=str)) if ents is not None else None)
    return tuple(out)


def merge(ex, tables):
    """states with the same table contents are merged (their path conditions are OR-ed)"""
    groups = {}
    for t in tables:
        groups.setdefault(signature(ex, t.mgr), []).append(t)
    out = []
    for sg, ts in groups.items():
        if len(ts) == 1:
            out.append(ts[0])
        else:
            pc = [z3.Or(*[z3.And(*t.pc) if t.pc else z3.BoolVal(True) for t in ts])]
            out.append(Table(pc, ts[0].mgr, ts[0].log, ts[0].events))
    return out


def index_invariant(ex, mgr):
    """reverse index <-> active subscriptions: every requests entry of kind Subscription is the value of exactly one
    subscriptions entry and vice versa (as a z3 condition; kinds are concrete per path, key equalities symbolic)"""
    kinds = R.source_tables()["enums"]["Kind"]
    reqs = mgr.kids.get(R.field_index("RequestManager", "requests"))
    subs = mgr.kids.get(R.field_index("RequestManager", "subscriptions"))
    active = []
    for _, e in MM.entries(reqs):
        v = ex.read_node(e.kids["v"])
        if isinstance(v, Node) and "discr" in v.kids:
            dv = z3.simplify(ex.read_node(v.kids["discr"]))
            if z3.is_bv_value(dv) and kinds[dv.as_long()] == "Subscription":
                active.append(e.kids["k"])
    sub_vals = [e.kids["v"] for _, e in MM.entries(subs)]
    if len(active) != len(sub_vals):
        return z3.BoolVal(False)
    conds = []
    for a in active:
        conds.append(z3.Or(*[MM.keq(ex, a, v) for v in sub_vals]) if sub_vals else z3.BoolVal(False))
    for v in sub_vals:
        conds.append(z3.Or(*[MM.keq(ex, a, v) for a in active]) if active else z3.BoolVal(False))
    return z3.And(*conds) if conds else z3.BoolVal(True)
