"""Contracts for library calls that the MIR executor does not enter (each is part of the claim; listed in evidence).

Abstract view of strings / byte buffers: a `String`, `Vec<u8>`, `str`, `[u8]`, `RawValue` is an object with one abstract
attribute `len: usize`; lengths are assumed < 2^63 (Rust allocations never exceed isize::MAX bytes).
"""
import re
import z3
from .sym import Node, Ptr, Opaque, OBJ, StrConst, to_term, Unsupported


def _node_of(ex, v):
    if isinstance(v, Ptr):
        return v.node
    if isinstance(v, Node):
        if isinstance(v.val, Ptr):
            return v.val.node
        from .sym import is_pointer_type
        if v.val is None and v.ty and is_pointer_type(v.ty) and "len" not in v.kids:
            return ex.pointee(v)
        return v
    return None


def length_of(ex, v):
    if isinstance(v, StrConst):
        return z3.BitVecVal(len(v.s.encode()), 64)
    n = _node_of(ex, v)
    if n is None:
        raise Unsupported(f"len of {v!r}")
    return ex.read_node(ex.child(n, "len", "usize"))


def m_len(ex, st, callee, args, dty, site):
    return length_of(ex, args[0])


def m_identity(ex, st, callee, args, dty, site):
    return args[0]


def m_push_str(ex, st, callee, args, dty, site):
    n = _node_of(ex, args[0])
    k = ex.child(n, "len", "usize")
    k.val = ex.read_node(k) + length_of(ex, args[1])
    return Opaque(z3.Const("unit", OBJ))


def m_push_char(ex, st, callee, args, dty, site):
    n = _node_of(ex, args[0])
    k = ex.child(n, "len", "usize")
    c = args[1]
    if not isinstance(c, z3.BitVecRef):
        raise Unsupported("push of non-char")
    w = z3.If(z3.ULT(c, 0x80), z3.BitVecVal(1, 64), z3.If(z3.ULT(c, 0x800), z3.BitVecVal(2, 64), z3.If(z3.ULT(c, 0x10000), z3.BitVecVal(3, 64), z3.BitVecVal(4, 64))))
    k.val = ex.read_node(k) + w
    return Opaque(z3.Const("unit", OBJ))


def m_pop_char(ex, st, callee, args, dty, site):
    """String::pop: only used on buffers whose last char is ASCII in the encoded code (',')"""
    n = _node_of(ex, args[0])
    k = ex.child(n, "len", "usize")
    k.val = ex.read_node(k) - z3.BitVecVal(1, 64)
    return Opaque(z3.Const("popped", OBJ))


def m_extend_from_slice(ex, st, callee, args, dty, site):
    n = _node_of(ex, args[0])
    k = ex.child(n, "len", "usize")
    k.val = ex.read_node(k) + length_of(ex, args[1])
    return Opaque(z3.Const("unit", OBJ))


def m_unit_noeffect(ex, st, callee, args, dty, site):
    return Opaque(z3.Const("unit", OBJ))


def m_deref_mut(ex, st, callee, args, dty, site):
    # <&mut T as DerefMut>::deref_mut(&mut &mut T) -> &mut T ; Deref for String/Vec -> the same buffer (len is shared)
    n = _node_of(ex, args[0])
    v = ex.read_node(n)
    if isinstance(v, Ptr):
        return v
    return Ptr(n)


STRING_MODELS = [
    (r"^core::str::<impl str>::len$", m_len),
    (r"^std::string::String::len$", m_len),
    (r"^Vec::<u8>::len$", m_len),
    (r"^core::slice::<impl \[u8\]>::len$", m_len),
    (r"^RawValue::get$", m_identity),
    (r"^std::string::String::as_str$", m_identity),
    (r"^std::string::String::push_str$", m_push_str),
    (r"^std::string::String::push$", m_push_char),
    (r"^std::string::String::pop$", m_pop_char),
    (r"^Vec::<u8>::extend_from_slice$", m_extend_from_slice),
    (r"^Extensions::extend$", m_unit_noeffect),
]

MODEL_DOC = {
    r"^core::str::<impl str>::len$": "str::len reads the abstract length",
    r"^std::string::String::len$": "String::len reads the abstract length",
    r"^Vec::<u8>::len$": "Vec<u8>::len reads the abstract length",
    r"^core::slice::<impl \[u8\]>::len$": "[u8]::len reads the abstract length",
    r"^RawValue::get$": "RawValue::get returns the same text (same length)",
    r"^std::string::String::as_str$": "String::as_str is the same text",
    r"^std::string::String::push_str$": "String::push_str adds the operand's length",
    r"^std::string::String::push$": "String::push adds the char's UTF-8 width",
    r"^std::string::String::pop$": "String::pop removes one byte (callers pop an ASCII ',')",
    r"^Vec::<u8>::extend_from_slice$": "Vec::extend_from_slice adds the slice length",
    r"^Extensions::extend$": "http::Extensions::extend has no effect on lengths",
}


def m_string_new(ex, st, callee, args, dty, site):
    n = Node(ex.ctx.fresh_name("string"), "std::string::String")
    k = ex.child(n, "len", "usize")
    k.val = z3.BitVecVal(0, 64)
    return n


STRING_MODELS += [
    (r"^std::string::String::with_capacity$", m_string_new),
    (r"^std::string::String::new$", m_string_new),
    (r"^Vec::<u8>::with_capacity$", m_string_new),
]
MODEL_DOC[r"^std::string::String::with_capacity$"] = "String::with_capacity/new and Vec::<u8>::with_capacity return an empty buffer (len 0)"


def m_int_from(ex, st, callee, args, dty, site):
    """<uN as From<uM|bool>>::from / Into: widening conversions"""
    m = re.match(r"^<([iu](?:8|16|32|64|128|size)) as (?:From|std::convert::From)<([a-z0-9]+)>>::from$", callee)
    if not m:
        return NotImplemented
    from .sym import INT_TYPES
    w, _ = INT_TYPES[m.group(1)]
    v = args[0]
    if isinstance(v, z3.BoolRef):
        return z3.If(v, z3.BitVecVal(1, w), z3.BitVecVal(0, w))
    if isinstance(v, z3.BitVecRef):
        src_signed = m.group(2).startswith("i")
        if v.size() == w:
            return v
        return z3.SignExt(w - v.size(), v) if src_signed else z3.ZeroExt(w - v.size(), v)
    return NotImplemented


INT_MODELS = [(r"^<[iu](?:8|16|32|64|128|size) as (?:std::convert::)?From<[a-z0-9]+>>::from$", m_int_from)]
MODEL_DOC[INT_MODELS[0][0]] = "<int as From<smaller int | bool>>::from widens (zero/sign extension)"


def strip_generics(path):
    """remove every `::<...>` group (balanced angle brackets; `->` inside fn types is not a bracket)"""
    out, i, n = [], 0, len(path)
    while i < n:
        if path.startswith("::<", i):
            depth, j = 0, i + 2
            while j < n:
                c = path[j]
                if c == "<":
                    depth += 1
                elif c == ">" and path[j - 1] != "-":
                    depth -= 1
                    if depth == 0:
                        break
                j += 1
            i = j + 1
        else:
            out.append(path[i])
            i += 1
    return "".join(out)


def crate_inliner(bods):
    """resolve a callee path to a unique body of the same MIR dump: match on fn name and on the qualifying type name
    appearing in the candidate's signature. Ambiguous or foreign callees stay uninterpreted."""
    by_last = {}
    for name, b in bods.items():
        if "{closure" in name.rsplit("::", 1)[-1]:
            continue
        by_last.setdefault(re.sub(r"#\d+$", "", name).rsplit("::", 1)[-1], []).append(b)

    def resolve(callee, argvals):
        mi = re.match(r"^<(.+) as Into<(.+)>>::into$", callee)
        if mi:
            src, dst = mi.group(1).strip(), mi.group(2).strip().split("::")[-1]
            cands = [b for b in by_last.get("from", []) if len(b.params) == 1 and b.params[0][1].strip() == src and re.search(r"-> (\w+::)*" + re.escape(dst) + r"\b", b.header)]
            if len(cands) == 1:
                return cands[0]
        c = strip_generics(callee)
        m = re.match(r"^(?:<(.+?) as .+?>|(.+?))::([A-Za-z_][A-Za-z0-9_]*)$", c)
        if m:
            qual, fn = (m.group(1) or m.group(2)), m.group(3)
        else:
            qual, fn = None, c if re.fullmatch(r"[A-Za-z_][A-Za-z0-9_]*", c) else None
        if fn is None:
            return None
        cands = by_last.get(fn, [])
        if qual:
            q = re.sub(r"<.*", "", qual).split("::")[-1].strip("&' ")
            cands = [b for b in cands if re.search(r"\b" + re.escape(q) + r"\b", b.header)]
        else:
            cands = [b for b in cands if b.name == fn or b.name.endswith("::" + fn) and "<impl" not in b.name]
        cands = [b for b in cands if len(b.params) == len(argvals)]
        if len(cands) == 1:
            return cands[0]
        return None
    return resolve


def _opt(ex, some_cond, val, ty):
    """Option<int> as a node: discr = ite(cond,1,0), Some.0 = val"""
    n = Node(ex.ctx.fresh_name("opt"), f"Option<{ty}>")
    d = Node(n.name + ".discr", "isize")
    d.val = z3.If(some_cond, z3.BitVecVal(1, 64), z3.BitVecVal(0, 64))
    n.kids["discr"] = d
    k = Node(n.name + ".Some:0", ty)
    k.val = val
    n.kids[("Some", 0)] = k
    return n


def m_int_ops(ex, st, callee, args, dty, site):
    from .sym import INT_TYPES
    m = re.match(r"^(?:core::num::<impl ([iu](?:8|16|32|64|128|size))>::(\w+)|<([iu](?:8|16|32|64|128|size)) as Ord>::(min|max)|std::cmp::(min|max)::<([iu](?:8|16|32|64|128|size))>|core::cmp::(min|max)::<([iu](?:8|16|32|64|128|size))>)$", callee)
    if not m:
        return NotImplemented
    ty = m.group(1) or m.group(3) or m.group(6) or m.group(8)
    op = m.group(2) or m.group(4) or m.group(5) or m.group(7)
    w, sg = INT_TYPES[ty]
    a = args[0]
    b = args[1] if len(args) > 1 else None
    if not isinstance(a, z3.BitVecRef) or (b is not None and not isinstance(b, z3.BitVecRef)):
        return NotImplemented
    lt = (lambda x, y: x < y) if sg else z3.ULT
    if op == "min":
        return z3.If(lt(b, a), b, a)
    if op == "max":
        return z3.If(lt(a, b), b, a)
    if op == "wrapping_add":
        return a + b
    if op == "wrapping_sub":
        return a - b
    if op == "checked_sub" and not sg:
        return _opt(ex, z3.UGE(a, b), a - b, ty)
    if op == "checked_add" and not sg:
        return _opt(ex, z3.BVAddNoOverflow(a, b, False), a + b, ty)
    if op == "saturating_sub" and not sg:
        return z3.If(z3.UGE(a, b), a - b, z3.BitVecVal(0, w))
    if op == "saturating_add" and not sg:
        return z3.If(z3.BVAddNoOverflow(a, b, False), a + b, z3.BitVecVal((1 << w) - 1, w))
    if op == "is_ascii_whitespace" and ty == "u8":
        return None
    return NotImplemented


def m_is_ascii_ws(ex, st, callee, args, dty, site):
    v = args[0]
    if isinstance(v, Ptr):
        v = ex.read_node(v.node)
    if isinstance(v, Node):
        v = ex.read_node(ex.pointee(v)) if v.val is None and not v.kids else ex.read_node(v)
    if not isinstance(v, z3.BitVecRef):
        return NotImplemented
    return z3.Or(v == 0x20, v == 0x09, v == 0x0A, v == 0x0C, v == 0x0D)


INT_MODELS += [
    (r"^core::num::<impl u8>::is_ascii_whitespace$", m_is_ascii_ws),
    (r"^(core::num::<impl [iu](8|16|32|64|128|size)>::(min|max|wrapping_add|wrapping_sub|checked_sub|checked_add|saturating_sub|saturating_add)|<[iu](8|16|32|64|128|size) as Ord>::(min|max)|(std|core)::cmp::(min|max)::<[iu](8|16|32|64|128|size)>)$", m_int_ops),
]
def m_int_default(ex, st, callee, args, dty, site):
    from .sym import INT_TYPES
    m = re.match(r"^<(bool|[iu](?:8|16|32|64|128|size)) as Default>::default$", callee)
    if not m:
        return NotImplemented
    if m.group(1) == "bool":
        return z3.BoolVal(False)
    return z3.BitVecVal(0, INT_TYPES[m.group(1)][0])


MODEL_DOC[INT_MODELS[-1][0]] = "integer min/max/wrapping/checked/saturating add & sub: their std definitions as bit-vector terms"
MODEL_DOC[INT_MODELS[-2][0]] = "u8::is_ascii_whitespace: byte in {0x20,0x09,0x0A,0x0C,0x0D}"
INT_MODELS += [(r"^<(bool|[iu](8|16|32|64|128|size)) as Default>::default$", m_int_default)]
MODEL_DOC[INT_MODELS[-1][0]] = "<int as Default>::default() is 0, <bool as Default>::default() is false"


def m_mem_replace(ex, st, callee, args, dty, site):
    """std::mem::replace(&mut dest, src) -> old value of dest"""
    d = args[0]
    if not isinstance(d, Ptr):
        return NotImplemented
    old = d.node.clone()
    ex.write(d.node, args[1])
    return ex.read_node(old)


def m_mem_swap(ex, st, callee, args, dty, site):
    """std::mem::swap(&mut a, &mut b)"""
    a, b = args[0], args[1]
    if not (isinstance(a, Ptr) and isinstance(b, Ptr)):
        return NotImplemented
    ca, cb_ = a.node.clone(), b.node.clone()
    ex.write(a.node, cb_)
    ex.write(b.node, ca)
    return Opaque(z3.Const("unit", OBJ))


MEM_MODELS = [(r"^(std|core)::mem::replace::<.*>$", m_mem_replace), (r"^(std|core)::mem::swap::<.*>$", m_mem_swap)]
MODEL_DOC[MEM_MODELS[0][0]] = "mem::replace(&mut dest, src): stores src, returns the previous value"
MODEL_DOC[MEM_MODELS[1][0]] = "mem::swap(&mut a, &mut b): exchanges the two values"


TRACING_MODELS = [(r"^<Level as PartialOrd<LevelFilter>>::le$", lambda ex, st, c, a, d, s: z3.BoolVal(False))]
MODEL_DOC[TRACING_MODELS[0][0]] = "tracing: Level <= LevelFilter is false (logging off; log statements are not the subject)"


# ---- format!("..{}..", s): length = literal bytes + lengths of the displayed strings (rustc's compact template encoding)
def _decode_template(term_text):
    """byte string constant of `Arguments::new::<N, K>`: <n:u8 < 0x80><n literal bytes> ... | 0xC0 = next argument, default format | 0x00 = end.
    returns (literal byte count, number of placeholders) or None"""
    m = re.search(r'const:b"((?:[^"\\]|\\.)*)"', term_text)
    if not m:
        return None
    raw = m.group(1).encode().decode("unicode_escape").encode("latin-1")
    i, lit, holes = 0, 0, 0
    while i < len(raw):
        b = raw[i]
        if b == 0:
            return (lit, holes) if i == len(raw) - 1 else None
        if b == 0xC0:
            holes += 1
            i += 1
        elif b < 0x80:
            lit += b
            i += 1 + b
        else:
            return None          # formatting options etc.: not modelled
    return None


def m_fmt_argument(ex, st, callee, args, dty, site):
    n = Node(ex.ctx.fresh_name("fmtarg"), "Argument")
    k = Node(n.name + ".value", None)
    k.val = args[0] if not isinstance(args[0], Node) else None
    if isinstance(args[0], Node):
        ex.write(k, args[0])
    n.kids["value"] = k
    return n


def m_fmt_arguments_new(ex, st, callee, args, dty, site):
    dec = _decode_template(str(to_term(args[0])))
    if dec is None:
        return NotImplemented
    n = Node(ex.ctx.fresh_name("fmtargs"), "Arguments")
    n.variant = ("fmtargs", dec[0], dec[1])
    k = Node(n.name + ".args", None)
    k.val = args[1] if not isinstance(args[1], Node) else None
    if isinstance(args[1], Node):
        ex.write(k, args[1])
    n.kids["args"] = k
    return n


def m_format(ex, st, callee, args, dty, site):
    a = args[0]
    if not (isinstance(a, Node) and isinstance(a.variant, tuple) and a.variant and a.variant[0] == "fmtargs"):
        return NotImplemented
    arr = ex.read_node(a.kids["args"])
    arr = arr.node if isinstance(arr, Ptr) else arr
    arr = ex.read_node(arr) if isinstance(arr, Node) else arr
    if isinstance(arr, Ptr):
        arr = arr.node
    total = z3.BitVecVal(a.variant[1], 64)
    i = 0
    while isinstance(arr, Node) and i in arr.kids:
        el = ex.read_node(arr.kids[i])
        if not (isinstance(el, Node) and "value" in el.kids):
            return NotImplemented
        total = total + length_of(ex, ex.read_node(el.kids["value"]))
        i += 1
    if i != a.variant[2]:
        return NotImplemented
    out = Node(ex.ctx.fresh_name("formatted"), "std::string::String")
    ex.child(out, "len", "usize").val = total
    return out


STRING_MODELS += [(r"^core::fmt::rt::Argument::<'_>::new_display::<(std::string::String|&?str|&std::string::String)>$", m_fmt_argument),
                  (r"^Arguments::<'_>::new::<\d+, \d+>$", m_fmt_arguments_new), (r"^format$", m_format), (r"^must_use::<std::string::String>$", m_identity)]
MODEL_DOC[r"^format$"] = "format!(template, strings..): length = literal bytes of the template + lengths of the displayed strings (templates with plain {} of String/str only)"


def m_vec_u8_is_empty(ex, st, callee, args, dty, site):
    return length_of(ex, args[0]) == 0


STRING_MODELS += [(r"^Vec::<u8>::is_empty$", m_vec_u8_is_empty)]
MODEL_DOC[r"^Vec::<u8>::is_empty$"] = "Vec<u8>::is_empty <=> abstract length == 0"
