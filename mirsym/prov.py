"""Provenance / order obligations on (possibly async) bodies: which value reaches which call.

A coroutine body `f::{closure#0}(_1: Pin<&mut State>, _2: &mut Context)` is entered with a lazily symbolic State: the state
discriminant is left unconstrained, so every resume point is explored in one run; captured variables are the non-variant
fields of State (their names come from the body's `debug name => ((*_N).k: T)` lines).
"""
import re
import z3
from . import run as R, models as M
from .sym import Ctx, Executor, Node, Ptr, Opaque, to_term


def m_clone(ex, st, callee, args, dty, site):
    """<T as Clone>::clone(&x): the clone is observationally the original (abstract value identity)"""
    v = args[0]
    if isinstance(v, Ptr):
        return ex.read_node(v.node)
    if isinstance(v, Node):
        return ex.read_node(ex.pointee(v))
    return NotImplemented


def m_into_identity(ex, st, callee, args, dty, site):
    return args[0]


COMMON_MODELS = [
    (r" as Clone>::clone$", m_clone),
    (r"^<.* as std::future::IntoFuture>::into_future$", m_into_identity),
    (r"^Pin::<.*>::new_unchecked$", lambda ex, st, c, a, d, s: _pin_new(ex, a)),
    (r"^Pin::<.*>::new$", lambda ex, st, c, a, d, s: _pin_new(ex, a)),
]
M.MODEL_DOC[r" as Clone>::clone$"] = "Clone::clone returns a value equal to the original (abstract identity)"
M.MODEL_DOC[r"^<.* as std::future::IntoFuture>::into_future$"] = "IntoFuture::into_future on a future is the identity"
M.MODEL_DOC[r"^Pin::<.*>::new_unchecked$"] = "Pin::new_unchecked wraps the pointer (field 0)"
M.MODEL_DOC[r"^Pin::<.*>::new$"] = "Pin::new wraps the pointer (field 0)"


def _pin_new(ex, args):
    n = Node(ex.ctx.fresh_name("pin"), "Pin")
    k = Node(n.name + ".0", None)
    ex.write(k, args[0])
    n.kids[0] = k
    return n


def make_ctx(bods, extra_models=(), **kw):
    t = R.source_tables()
    kw.setdefault("max_paths", 3000)
    return Ctx(bods, consts=t["consts"], enums=t["enums"],
               models=list(extra_models) + list(M.STRING_MODELS) + list(M.INT_MODELS) + COMMON_MODELS,
               inline=[], **kw)


def capture_index(body, name):
    """index of captured variable `name` in a closure/coroutine body, from its debug lines"""
    names = name if isinstance(name, (list, tuple)) else [name]
    d = None
    for nm in names:
        d = body.debug.get(nm)
        if d:
            break
    if not d:
        raise LookupError(f"{body.name}: no captured variable named {name} - spec needs update")
    m = re.match(r"^\(\(\*_\d+\)\.(\d+): ", d) or re.match(r"^\(\*\(\(\*_\d+\)\.(\d+): ", d) or re.match(r"^\(_1\.(\d+): ", d) or re.match(r"^\(\(\*_1\)\.(\d+): ", d)
    if not m:
        raise LookupError(f"{body.name}: debug {name} => {d} is not a capture - spec needs update")
    return int(m.group(1))


def syntactic_sites(body, callee_rx):
    out = []
    for bn in body.order:
        blk = body.blocks[bn]
        if blk.cleanup:
            continue
        t = blk.term
        if t and t[0] == "call" and re.search(callee_rx, t[2]):
            out.append(bn)
    return out


def explore(bods, body, extra_models=(), inline=None, max_visits=2, max_paths=3000):
    ctx = make_ctx(bods, extra_models, max_visits=max_visits, max_paths=max_paths)
    if inline:
        ctx.inline = inline
    ex = Executor(ctx)
    is_coroutine = bool(body.params) and re.match(r"^Pin<&mut \{(async|coroutine)", body.params[0][1] or "") is not None
    paths = ex.run_coroutine(body) if is_coroutine else ex.run(body)
    return ex, ctx, paths


def events_at(paths, callee_rx):
    """distinct call events matching callee_rx: keyed by (body, block, argument terms, path condition)"""
    seen, out = set(), []
    for p in paths:
        for e in p.events:
            if e.kind in ("call", "inline") and re.search(callee_rx, e.callee):
                key = (e.body, e.block, tuple(str(to_term(a)) for a in e.args), str(e.pc))
                if key not in seen:
                    seen.add(key)
                    out.append(e)
    return out


def coroutine_capture(idx, field=None, ty_bits=32, is_closure_ref=False):
    """z3 symbol the executor uses for capture `idx` (optionally its struct field) of the coroutine state behind _1: Pin<&mut S>"""
    base = f"arg1.0.*.{idx}"
    if field is not None:
        base += f".{field}"
    return z3.BitVec(base, ty_bits)


def fn_param(i, field=None, bits=32):
    base = f"arg{i}"
    if field is not None:
        base += f".{field}"
    return z3.BitVec(base, bits)


def site_obligation(name, bods, body, callee_rx, arg_index, expected, desc, extra_models=(), bounds="", keydetail="", replay=None, widen=True, max_paths=3000):
    """every call matching callee_rx inside `body` passes `expected` (a z3 term over the body's symbolic inputs) as argument
    `arg_index`, on every path; vacuity: every syntactic call site must have been reached."""
    ex, ctx, paths = explore(bods, body, extra_models, max_paths=max_paths)
    sites = syntactic_sites(body, callee_rx)
    evs = [e for e in events_at(paths, callee_rx) if e.body == body.name]
    reached = {e.block for e in evs}
    common = dict(bodies=[body.name], extra={"models": [M.MODEL_DOC.get(rx, rx) for rx in ctx.used_models], "havoced": ctx.havoced[:20],
                                             "sites": sites, "paths": len(paths)})
    if not sites:
        return R.Result(engine="mirsym", name=name, kind="provenance", status="site-missing", detail=f"no call matching /{callee_rx}/ in {body.name} - spec needs update", bodies=[body.name])
    missing = [s for s in sites if s not in reached]
    if missing:
        why = [p.detail for p in paths if p.kind in ("unsupported", "limit", "unwound")][:3]
        return R.Result(engine="mirsym", name=name, kind="provenance", status="site-unreached", detail=f"call site(s) {missing} not reached by the executor: {why}", bodies=[body.name])
    viol, reach, regions = [], [], []
    for e in evs:
        a = e.args[arg_index]
        if not isinstance(a, z3.ExprRef):
            a = to_term(a)
        exp = expected
        if a.sort() != exp.sort():
            return R.Result(engine="mirsym", name=name, kind="provenance", status="sort-mismatch", detail=f"{a.sort()} vs {exp.sort()} at {e.block}", bodies=[body.name])
        pc = z3.And(*e.pc) if e.pc else z3.BoolVal(True)
        viol.append(z3.And(pc, a != exp))
        reach.append(pc)
        if replay and replay.get("region_fn"):
            regions.append(z3.And(pc, replay["region_fn"](a)))
    if replay and replay.get("region_fn"):
        replay = dict(replay, region=z3.And(replay["region"], z3.Or(*regions)))
    return R.decide(name, "provenance", z3.Or(*viol), [z3.Or(*reach)], desc=desc, bounds=bounds, keydetail=keydetail, replay=replay, **common)
