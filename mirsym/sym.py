"""Bounded forward symbolic executor over parsed MIR bodies (see mir.py), producing z3 terms.

Memory is a forest of Nodes. A Node is either a scalar (z3 BitVec / Bool), a pointer (Ptr -> Node) or an aggregate with
lazily materialised children: a child that was never written is created on first read as a fresh symbolic value named after
its path from a root (`arg1.*.1`), typed by the type annotation MIR carries on every field projection. So a function can
be run from an arbitrary (symbolic) pre-state without describing its data types up front.

Paths are enumerated depth-first; `switchInt` forks (infeasible arms pruned by the solver), unwind edges are not followed:
a failing `assert` terminator (overflow, bounds) and a call into a known panic function end the path as a *panic path*.
Loops are unrolled by bounding the number of visits of a block per path; a path that exceeds the bound is returned with
kind 'unwound' and the caller must treat it as an unwinding-assertion failure.
"""
import re, time, os, copy, itertools
import z3

INT_TYPES = {"u8": (8, False), "u16": (16, False), "u32": (32, False), "u64": (64, False), "u128": (128, False), "usize": (64, False),
             "i8": (8, True), "i16": (16, True), "i32": (32, True), "i64": (64, True), "i128": (128, True), "isize": (64, True)}

STD_VARIANTS = {
    "Option": ["None", "Some"], "Result": ["Ok", "Err"], "Poll": ["Ready", "Pending"], "Cow": ["Borrowed", "Owned"],
    "Either": ["Left", "Right"], "ControlFlow": ["Continue", "Break"], "Entry": ["Occupied", "Vacant"],
}


def scalar_kind(ty):
    ty = ty.strip()
    if ty in INT_TYPES:
        return ("int",) + INT_TYPES[ty]
    if ty == "bool":
        return ("bool",)
    if ty == "char":
        return ("int", 32, False)
    return None


def is_pointer_type(ty):
    ty = ty.strip()
    return ty.startswith(("&", "*const ", "*mut ", "Box<", "std::boxed::Box<", "Pin<&", "std::pin::Pin<&", "NonNull<", "Unique<"))


def pointee_type(ty):
    if not ty:
        return None
    t = ty.strip()
    m = re.match(r"^&(?:'[A-Za-z_]+ )?(?:mut )?(.*)$", t) or re.match(r"^\*(?:const|mut) (.*)$", t)
    if m:
        return m.group(1).strip()
    return None


class Ptr:
    __slots__ = ("node",)

    def __init__(self, node):
        self.node = node

    def __repr__(self):
        return f"Ptr({self.node.name})"


class Opaque:
    """an abstract non-scalar value produced by an uninterpreted call / constant; identified by its term"""
    __slots__ = ("term",)

    def __init__(self, term):
        self.term = term

    def __repr__(self):
        return f"Opaque({self.term})"


class Node:
    __slots__ = ("name", "ty", "val", "kids", "variant")

    def __init__(self, name, ty=None):
        self.name, self.ty, self.val, self.kids, self.variant = name, ty, None, {}, None

    def clone(self, memo=None):
        n = Node(self.name, self.ty)
        n.val = self.val
        n.variant = self.variant
        n.kids = {k: v.clone() for k, v in self.kids.items()}
        return n

    def __repr__(self):
        return f"Node({self.name}:{self.ty} val={self.val} kids={list(self.kids)})"


class Event:
    __slots__ = ("kind", "callee", "args", "pc", "site", "ret", "body", "block")

    def __init__(self, kind, callee, args, pc, site, ret, body, block):
        self.kind, self.callee, self.args, self.pc, self.site, self.ret, self.body, self.block = kind, callee, args, pc, site, ret, body, block

    def __repr__(self):
        return f"Event({self.kind} {self.callee[:60]} @{self.body}:{self.block})"


class Path:
    def __init__(self, kind, pc, ret, events, detail="", frame=None):
        self.kind, self.pc, self.ret, self.events, self.detail, self.frame = kind, pc, ret, events, detail, frame
        self.state = None

    def cond(self):
        return z3.And(*self.pc) if self.pc else z3.BoolVal(True)


# model values whose identity is their structure, not the name of the place they were last stored in (set by obligations)
STRUCTURAL_TAGS = {"fut"}


def _same(a, b):
    if isinstance(a, z3.ExprRef) and isinstance(b, z3.ExprRef):
        return a.sort() == b.sort() and z3.simplify(a).eq(z3.simplify(b))
    if isinstance(a, Ptr) and isinstance(b, Ptr):
        return a.node.name == b.node.name
    if isinstance(a, Node) and isinstance(b, Node):
        structural = isinstance(a.variant, tuple) and a.variant and a.variant[0] in STRUCTURAL_TAGS and a.variant == b.variant
        return (structural or a.name == b.name) and set(a.kids) == set(b.kids) and all(_same(a.kids[k].val if a.kids[k].val is not None else a.kids[k], b.kids[k].val if b.kids[k].val is not None else b.kids[k]) for k in a.kids)
    if isinstance(a, Opaque) and isinstance(b, Opaque):
        return a.term.eq(b.term)
    return a is b


class Fork:
    """returned by a model that needs case analysis: alts = [(cond, thunk)], thunk(ex, st, tr) -> value, where `tr` maps a
    node of the pre-fork state to its copy in `st`"""

    def __init__(self, alts):
        self.alts = alts


class Inline:
    """returned by a model: run `body` with `args` as the call's implementation"""

    def __init__(self, body, args, callee):
        self.body, self.args, self.callee = body, args, callee


class CallByName:
    """returned by a model / combinator: perform a call to the function named `callee` with these argument values"""

    def __init__(self, callee, args, post=None):
        self.callee, self.args, self.post = callee, args, post


class Wrap(Inline):
    """inline call whose result must be post-processed (e.g. wrapped in Some) - implemented by a synthetic continuation"""

    def __init__(self, inl, post):
        Inline.__init__(self, inl.body, inl.args, inl.callee)
        self.post = post


def strip_generics_simple(path):
    out, depth = [], 0
    i = 0
    while i < len(path):
        c = path[i]
        if path.startswith("::<", i):
            depth += 1
            i += 3
            continue
        if depth:
            if c == "<":
                depth += 1
            elif c == ">" and path[i - 1] != "-":
                depth -= 1
            i += 1
            continue
        out.append(c)
        i += 1
    return "".join(out)


class Unsupported(Exception):
    pass


class Ctx:
    """shared across one obligation: bodies, constants, enum tables, models, statistics"""

    def __init__(self, bodies, consts=None, enums=None, models=None, inline=None, max_visits=2, max_paths=4000, solver_prune=True):
        self.bodies = bodies
        self.consts = consts or {}
        self.enums = dict(STD_VARIANTS)
        self.enums.update(enums or {})
        self.models = models or []        # list of (regex, fn(ex, frame, callee, argvals, dest_ty) -> value or NotImplemented)
        self.inline = inline or []        # list of regex on callee text -> body name resolver fn(callee)->Body|None
        self.max_visits, self.max_paths = max_visits, max_paths
        self.steps = 0
        self.visit_overrides = []       # [(regex on the body header, visits per block)] e.g. small fixed-trip loops of macro-generated closures
        self.budget_s = float(os.environ.get("VERIF_CTX_BUDGET_S", "900"))
        self.deadline = time.time() + self.budget_s
        self.fresh = itertools.count()
        self.havoced = []
        self.used_models = set()
        self.uninterpreted = set()
        self.funcs = {}
        self.solver_prune = solver_prune
        self.solver = z3.Solver()
        self.solver.set("timeout", 20000)
        self.queries = 0
        self.encoded_bodies = set()

    def fresh_name(self, base):
        return f"{base}!{next(self.fresh)}"

    def variant_index(self, enum_head, vname):
        """enum_head: text before ::Variant (may include generics)"""
        base = re.sub(r"<.*$", "", enum_head).split("::")[-1].strip()
        if not base:
            # `<T as Trait>::path::Enum`: the last path segment outside angle brackets
            depth, last = 0, 0
            for i, ch in enumerate(enum_head):
                if ch == "<":
                    depth += 1
                elif ch == ">" and (i == 0 or enum_head[i - 1] != "-"):
                    depth -= 1
                elif ch == ":" and depth == 0 and enum_head[i:i + 2] == "::":
                    last = i + 2
            base = re.sub(r"<.*$", "", enum_head[last:]).strip()
        for key in (enum_head, base):
            if key in self.enums and vname in self.enums[key]:
                return self.enums[key].index(vname)
        return None

    def variant_index_any(self, vname, ty=None):
        cands = set()
        if ty:
            base = re.sub(r"<.*$", "", ty.strip().lstrip("&").replace("mut ", "")).split("::")[-1].strip()
            if base in self.enums and vname in self.enums[base]:
                return self.enums[base].index(vname)
        for k, vs in self.enums.items():
            if vname in vs:
                cands.add(vs.index(vname))
        if len(cands) == 1:
            return cands.pop()
        return None


def mk_scalar(name, ty):
    k = scalar_kind(ty)
    if k is None:
        return None
    if k[0] == "bool":
        return z3.Bool(name)
    return z3.BitVec(name, k[1])


def parse_const(ctx, txt, want_ty=None):
    """returns python value: z3 scalar, or Opaque"""
    t = txt.strip()
    if t == "true":
        return z3.BoolVal(True)
    if t == "false":
        return z3.BoolVal(False)
    if t == "()":
        return Opaque(z3.Const("unit", OBJ))
    m = re.fullmatch(r"(-?[0-9_]+)_?([iu](?:8|16|32|64|128|size))", t)
    if m:
        w, _ = INT_TYPES[m.group(2)]
        return z3.BitVecVal(int(m.group(1).replace("_", "")), w)
    m = re.fullmatch(r"(?:core::num::<impl )?([iu](?:8|16|32|64|128|size))>?::(MAX|MIN)", t)
    if m:
        w, sg = INT_TYPES[m.group(1)]
        if m.group(2) == "MAX":
            v = (1 << (w - 1)) - 1 if sg else (1 << w) - 1
        else:
            v = -(1 << (w - 1)) if sg else 0
        return z3.BitVecVal(v, w)
    m = re.fullmatch(r"'(\\?.+)'", t)
    if m:
        ch = m.group(1)
        esc = {"\\n": "\n", "\\t": "\t", "\\r": "\r", "\\\\": "\\", "\\'": "'", '\\"': '"', "\\0": "\0"}
        ch = esc.get(ch, ch)
        if len(ch) == 1:
            return z3.BitVecVal(ord(ch), 32)
    m = re.fullmatch(r'"(.*)"', t, re.S)
    if m:
        return StrConst(m.group(1))
    # named constant
    key = t.split("::")[-1]
    if t not in ctx.consts and "::" in t:
        # a path printed with more (or fewer) leading segments than at its definition: the longest definition path that is a suffix of it
        suf = [k for k in ctx.consts if "::" in k and (t.endswith("::" + k) or k.endswith("::" + t))]
        if suf:
            t = max(suf, key=len)
    if t in ctx.consts or key in ctx.consts:
        v, ty = ctx.consts.get(t) or ctx.consts.get(key)
        k = scalar_kind(ty)
        if k and k[0] == "int":
            return z3.BitVecVal(v, k[1])
        if k and k[0] == "bool":
            return z3.BoolVal(bool(v))
    if want_ty:
        sc = mk_scalar("const:" + t, want_ty)
        if sc is not None:
            return sc
    return Opaque(z3.Const("const:" + t, OBJ))


class StrConst:
    __slots__ = ("s",)

    def __init__(self, s):
        self.s = s

    def __repr__(self):
        return f"StrConst({self.s!r})"


OBJ = z3.DeclareSort("Obj")


def to_term(v):
    """any value -> z3 term usable as an argument of an uninterpreted function"""
    if isinstance(v, (z3.ExprRef,)):
        return v
    if isinstance(v, Opaque):
        return v.term
    if isinstance(v, StrConst):
        return z3.Const("str:" + v.s, OBJ)
    if isinstance(v, Ptr):
        if isinstance(v.node.val, Opaque):
            return z3.Const("ptrto:" + str(v.node.val.term), OBJ)
        return z3.Const("ptr:" + str(v.node.name), OBJ)
    if isinstance(v, Node):
        if v.val is not None:
            return to_term(v.val)
        return z3.Const("obj:" + str(v.name), OBJ)
    return z3.Const("val:" + repr(v), OBJ)


class Frame:
    def __init__(self, body, depth=0):
        self.body = body
        self.locals = {}
        self.depth = depth

    def clone(self):
        # deep copy of locals; heap nodes reachable through Ptr are shared by reference unless copied by the executor
        raise NotImplementedError


class Executor:
    def __init__(self, ctx):
        self.ctx = ctx

    def deep_clone(self, node):
        """copy of a value including everything reachable through pointers (sharing preserved)"""
        memo = {}

        def cl(n):
            if id(n) in memo:
                return memo[id(n)]
            c = Node(n.name, n.ty)
            memo[id(n)] = c
            c.variant = n.variant
            c.val = n.val
            c.kids = {k: cl(v) for k, v in n.kids.items()}
            if isinstance(n.val, Ptr):
                c.val = Ptr(cl(n.val.node))
            return c
        return cl(node)

    def lookup(self, st, local, path, fid=0, ty=None):
        """walk from a local of frame `fid` along path items: '*' (deref), int / str keys (children). Returns the value."""
        node = st["mem"][(fid, local)]
        for i, p in enumerate(path):
            if p == "*":
                node = self.pointee(node)
            else:
                node = self.child(node, p, ty if i == len(path) - 1 else None)
        return self.read_node(node)

    # ---------------------------------------------------------------- memory
    def local_node(self, st, frame_id, body, idx):
        key = (frame_id, idx)
        n = st["mem"].get(key)
        if n is None:
            ty = body.locals.get(idx)
            n = Node(f"{st['names'][frame_id]}_{idx}", ty)
            st["mem"][key] = n
        return n

    def child(self, node, key, ty):
        k = node.kids.get(key)
        if k is None:
            k = Node(f"{node.name}.{key if not isinstance(key, tuple) else ':'.join(map(str, key))}", ty)
            node.kids[key] = k
            # an aggregate that came out of an uninterpreted call: its fields are functions of the call result
            if isinstance(node.val, Opaque) and ty is not None:
                k.val = self.project_opaque(node.val, key, ty)
        elif k.ty is None and ty is not None:
            k.ty = ty
        return k

    def project_opaque(self, op, key, ty):
        kname = key if not isinstance(key, tuple) else ":".join(map(str, key))
        sk = scalar_kind(ty)
        if sk is None:
            f = self.func(f"proj.{kname}", [OBJ], OBJ)
            return Opaque(f(op.term))
        rs = z3.BoolSort() if sk[0] == "bool" else z3.BitVecSort(sk[1])
        f = self.func(f"proj.{kname}:{ty}", [OBJ], rs)
        return f(op.term)

    def func(self, name, arg_sorts, ret_sort):
        key = (name, tuple(str(s) for s in arg_sorts), str(ret_sort))
        f = self.ctx.funcs.get(key)
        if f is None:
            f = z3.Function(name + "/" + str(len(self.ctx.funcs)), *arg_sorts, ret_sort)
            self.ctx.funcs[key] = f
        return f

    def resolve(self, st, fid, body, place, create=True):
        node = self.local_node(st, fid, body, place[0])
        for pr in place[1]:
            if pr[0] == "deref":
                node = self.pointee(node)
            elif pr[0] == "field":
                if isinstance(node.val, Ptr) and False:
                    pass
                node = self.child(node, pr[1] if node.variant is None else (node.variant, pr[1]), pr[2])
            elif pr[0] == "downcast":
                # fields of a variant live under (variant, idx); keep the node, remember the variant for the next field
                v = Node(node.name, node.ty)
                v.kids = node.kids
                v.val = node.val
                v.variant = pr[1]
                node = v
            elif pr[0] in ("index", "constindex"):
                key = ("idx", str(pr[1]))
                if pr[0] == "index":
                    iv = self.read_node(self.local_node(st, fid, body, pr[1]))
                    key = ("idx", str(z3.simplify(iv)) if isinstance(iv, z3.ExprRef) else str(iv))
                ety = None
                mt = re.match(r"^\[(.+?)(?:; [^\]]+)?\]$", (node.ty or "").strip())
                if mt:
                    ety = mt.group(1)          # element type of a slice / array place
                node = self.child(node, key, ety)
            else:
                raise Unsupported(str(pr))
        return node

    def pointee(self, node):
        if isinstance(node.val, Ptr):
            return node.val.node
        if node.val is not None and not isinstance(node.val, Opaque):
            raise Unsupported(f"deref of non-pointer {node}")
        tgt = Node(node.name + ".*", pointee_type(node.ty))
        if isinstance(node.val, Opaque):
            tgt.val = Opaque(self.func("deref", [OBJ], OBJ)(node.val.term))
        # wrappers (Pin, Box, NonNull...) reached through lazily created fields keep their kids; the pointer itself is the value
        node.val = Ptr(tgt)
        return tgt

    def read_node(self, node):
        if node.val is None and not node.kids and node.ty is not None and is_pointer_type(node.ty) and not node.ty.strip().startswith(("Pin<", "std::pin::Pin<", "Box<", "std::boxed::Box<", "NonNull<", "Unique<")):
            self.pointee(node)
        """value of a node: scalar z3 / Ptr / the Node itself for aggregates"""
        if node.val is not None and not node.kids:
            return node.val
        if node.val is not None and isinstance(node.val, (z3.ExprRef, Ptr, StrConst)):
            return node.val
        if node.ty is not None and not node.kids:
            sc = mk_scalar(node.name, node.ty)
            if sc is not None:
                node.val = sc
                return sc
        return node

    def write(self, node, val):
        if isinstance(val, Node):
            c = val.clone()
            node.val, node.kids = c.val, c.kids
            node.variant = c.variant
            if node.ty is None:
                node.ty = c.ty
            # lazily materialised children of the copy must keep the *source* names
            self._rename(node, val.name)
        else:
            node.val, node.kids = val, {}
            node.variant = None

    def _rename(self, node, name):
        node.name = name

    def discr_of(self, node):
        if isinstance(node, Opaque):
            return self.func("discr", [OBJ], z3.BitVecSort(64))(node.term)
        d = node.kids.get("discr")
        if d is None:
            d = Node(node.name + ".discr", "isize")
            if isinstance(node.val, Opaque):
                d.val = self.func("discr", [OBJ], z3.BitVecSort(64))(node.val.term)
            node.kids["discr"] = d
        return self.read_node(d)

    # ---------------------------------------------------------------- operands / rvalues
    def operand(self, st, fid, body, op, want_ty=None):
        if op[0] in ("copy", "move"):
            node = self.resolve(st, fid, body, op[1])
            return self.read_node(node)
        return parse_const(self.ctx, op[1], want_ty)

    def as_bv(self, v, like=None):
        if isinstance(v, z3.BitVecRef):
            return v
        if isinstance(v, z3.BoolRef):
            return z3.If(v, z3.BitVecVal(1, 8), z3.BitVecVal(0, 8))
        if isinstance(v, Node):
            v = self.read_node(v)
            if isinstance(v, z3.BitVecRef):
                return v
        raise Unsupported(f"not a bit-vector: {v!r}")

    def place_type(self, body, place):
        if place[1]:
            last = place[1][-1]
            if last[0] == "field":
                return last[2]
            return None
        return body.locals.get(place[0])

    def operand_type(self, body, op):
        if op[0] in ("copy", "move"):
            return self.place_type(body, op[1])
        m = re.search(r"_([iu](?:8|16|32|64|128|size))$", op[1])
        if m:
            return m.group(1)
        return None

    def signed(self, body, op):
        t = self.operand_type(body, op)
        return bool(t and t.strip() in INT_TYPES and INT_TYPES[t.strip()][1])

    def binop(self, st, fid, body, opn, a, b):
        ta = self.operand_type(body, a) or self.operand_type(body, b)
        va = self.operand(st, fid, body, a, ta)
        vb = self.operand(st, fid, body, b, ta)
        sg = self.signed(body, a) or self.signed(body, b)
        if isinstance(va, z3.BoolRef) or isinstance(vb, z3.BoolRef):
            if opn == "Eq":
                return va == vb
            if opn == "Ne":
                return va != vb
            if opn == "BitAnd":
                return z3.And(va, vb)
            if opn == "BitOr":
                return z3.Or(va, vb)
            if opn == "BitXor":
                return z3.Xor(va, vb)
            raise Unsupported("bool binop " + opn)
        if not (isinstance(va, z3.BitVecRef) and isinstance(vb, z3.BitVecRef)):
            # comparison of opaque things: uninterpreted
            ta_, tb_ = to_term(va), to_term(vb)
            if opn in ("Eq", "Ne") and ta_.sort() == tb_.sort():
                return (ta_ == tb_) if opn == "Eq" else (ta_ != tb_)
            raise Unsupported(f"binop {opn} on {va!r},{vb!r}")
        if va.size() != vb.size():
            if opn in ("Shl", "Shr", "ShlUnchecked", "ShrUnchecked"):
                vb = z3.ZeroExt(va.size() - vb.size(), vb) if vb.size() < va.size() else z3.Extract(va.size() - 1, 0, vb)
            else:
                raise Unsupported(f"width mismatch {opn} {va.size()} {vb.size()}")
        w = va.size()
        if opn in ("Add", "AddUnchecked"):
            return va + vb
        if opn in ("Sub", "SubUnchecked"):
            return va - vb
        if opn in ("Mul", "MulUnchecked"):
            return va * vb
        if opn == "Div":
            return (va / vb) if sg else z3.UDiv(va, vb)
        if opn == "Rem":
            return z3.SRem(va, vb) if sg else z3.URem(va, vb)
        if opn == "BitAnd":
            return va & vb
        if opn == "BitOr":
            return va | vb
        if opn == "BitXor":
            return va ^ vb
        if opn in ("Shl", "ShlUnchecked"):
            return va << vb
        if opn in ("Shr", "ShrUnchecked"):
            return (va >> vb) if sg else z3.LShR(va, vb)
        if opn == "Eq":
            return va == vb
        if opn == "Ne":
            return va != vb
        if opn == "Lt":
            return (va < vb) if sg else z3.ULT(va, vb)
        if opn == "Le":
            return (va <= vb) if sg else z3.ULE(va, vb)
        if opn == "Gt":
            return (va > vb) if sg else z3.UGT(va, vb)
        if opn == "Ge":
            return (va >= vb) if sg else z3.UGE(va, vb)
        if opn in ("AddWithOverflow", "SubWithOverflow", "MulWithOverflow"):
            n = Node(self.ctx.fresh_name("ovf"), "(T,bool)")
            if opn == "AddWithOverflow":
                r = va + vb
                ov = z3.Not(z3.BVAddNoOverflow(va, vb, sg)) if not sg else z3.Or(z3.Not(z3.BVAddNoOverflow(va, vb, True)), z3.Not(z3.BVAddNoUnderflow(va, vb)))
            elif opn == "SubWithOverflow":
                r = va - vb
                ov = z3.Not(z3.BVSubNoUnderflow(va, vb, sg)) if not sg else z3.Or(z3.Not(z3.BVSubNoOverflow(va, vb)), z3.Not(z3.BVSubNoUnderflow(va, vb, True)))
            else:
                r = va * vb
                # portable encoding (cvc5 has no bvumul_noovfl): widen to 2w and compare
                if sg:
                    wide = z3.SignExt(w, va) * z3.SignExt(w, vb)
                    ov = wide != z3.SignExt(w, r)
                else:
                    wide = z3.ZeroExt(w, va) * z3.ZeroExt(w, vb)
                    ov = z3.Extract(2 * w - 1, w, wide) != z3.BitVecVal(0, w)
            k0 = Node(n.name + ".0", None)
            k0.val = r
            k1 = Node(n.name + ".1", "bool")
            k1.val = ov
            n.kids = {0: k0, 1: k1}
            return n
        raise Unsupported("binop " + opn)

    def cast(self, st, fid, body, op, ty, kind):
        v = self.operand(st, fid, body, op, self.operand_type(body, op))
        sk = scalar_kind(ty)
        if kind == "IntToInt" and sk and sk[0] == "int":
            if isinstance(v, z3.BoolRef):
                v = z3.If(v, z3.BitVecVal(1, 8), z3.BitVecVal(0, 8))
            if not isinstance(v, z3.BitVecRef):
                raise Unsupported(f"IntToInt of {v!r}")
            w = sk[1]
            if v.size() == w:
                return v
            if v.size() > w:
                return z3.Extract(w - 1, 0, v)
            return z3.SignExt(w - v.size(), v) if self.signed(body, op) else z3.ZeroExt(w - v.size(), v)
        if kind.startswith(("Transmute", "PtrToPtr", "PointerCoercion", "FnPtrToPtr", "PointerExposeProvenance", "PointerWithExposedProvenance", "Subtype")):
            return v  # representation-preserving for our abstract values
        raise Unsupported(f"cast {kind} to {ty}")

    def aggregate(self, st, fid, body, head, fields, dest_ty):
        n = Node(self.ctx.fresh_name("agg"), dest_ty)
        vals = [(fname, self.operand(st, fid, body, op, None)) for fname, op in fields]
        m = re.match(r"^(.*)::([A-Za-z_][A-Za-z0-9_]*)$", head)
        variant = None
        if not m and re.fullmatch(r"[A-Z][A-Za-z0-9_]*", head) and dest_ty:
            # unit variant printed without its path, e.g. `_7 = ParseError;`
            vi0 = self.ctx.variant_index_any(head, dest_ty)
            if vi0 is not None:
                m = re.match(r"^(.*)::([A-Za-z_][A-Za-z0-9_]*)$", dest_ty.strip() + "::" + head)
        if head not in ("()", "[]") and not head.startswith(("{closure", "{coroutine", "{async")) and m:
            vi = self.ctx.variant_index(m.group(1), m.group(2))
            if vi is None:
                vi = self.ctx.variant_index_any(m.group(2), dest_ty)
            if vi is not None:
                variant = m.group(2)
                d = Node(n.name + ".discr", "isize")
                d.val = z3.BitVecVal(vi, 64)
                n.kids["discr"] = d
        for i, (fname, v) in enumerate(vals):
            key = i if variant is None else (variant, i)
            k = Node(f"{n.name}.{i}", None)
            self.write(k, v)
            n.kids[key] = k
            if fname is not None:
                n.kids[("name", fname)] = k
        n.val = None
        if not vals and variant is None:
            n.val = Opaque(z3.Const("unitlike:" + head, OBJ))
        return n

    def rvalue(self, st, fid, body, rv, dest_ty):
        k = rv[0]
        if k == "use":
            return self.operand(st, fid, body, rv[1], dest_ty)
        if k in ("ref", "addr"):
            return Ptr(self.resolve(st, fid, body, rv[2] if k == "ref" else rv[1]))
        if k == "bin":
            return self.binop(st, fid, body, rv[1], rv[2], rv[3])
        if k == "un":
            v = self.operand(st, fid, body, rv[2], self.operand_type(body, rv[2]))
            if rv[1] == "Not":
                return z3.Not(v) if isinstance(v, z3.BoolRef) else ~self.as_bv(v)
            if rv[1] == "Neg":
                return -self.as_bv(v)
            if rv[1] == "PtrMetadata":
                # slice / str length: abstract attribute `len` of the pointee
                n = v.node if isinstance(v, Ptr) else (self.pointee(v) if isinstance(v, Node) else None)
                if n is None:
                    raise Unsupported("PtrMetadata of " + repr(v))
                return self.read_node(self.child(n, "len", "usize"))
            raise Unsupported("unop " + rv[1])
        if k == "cast":
            return self.cast(st, fid, body, rv[1], rv[2], rv[3])
        if k == "discr":
            return self.discr_of(self.resolve(st, fid, body, rv[1]))
        if k == "agg":
            return self.aggregate(st, fid, body, rv[1], rv[2], dest_ty)
        raise Unsupported("rvalue " + k)

    # ---------------------------------------------------------------- driver
    def run(self, body, args=None, pre=None, frame_name="f", pc0=None, events0=None, extra_roots=None):
        """args: list of values for params (None -> lazily symbolic named arg<i>). Returns list[Path]."""
        self.ctx.encoded_bodies.add(body.name)
        st = {"mem": {}, "names": {0: frame_name}, "events": list(events0 or []), "pc": list(pc0 or []), "nframes": 1}
        for i, (idx, ty) in enumerate(body.params):
            n = Node(f"arg{i + 1}", ty)
            if args and i < len(args) and args[i] is not None:
                self.write(n, args[i])
                n.name = f"arg{i + 1}"
            st["mem"][(0, idx)] = n
        for i, n in enumerate(extra_roots or []):
            st["mem"][("extra", i)] = n       # travels with the state (forked consistently); read back from path.frame
        if pre:
            pre(self, st, body)
        out = []
        self._explore(st, 0, body, body.order[0], {}, out, None)
        return out

    def run_coroutine(self, body, max_states=12):
        """Explore a coroutine body state by state. State 0 (unresumed) starts from lazily symbolic captures; for every
        suspension `discriminant = k` reached, the values saved in the variant#k fields are recorded, and state k is then
        explored from exactly those saved values (fields on which predecessors disagree stay unconstrained).
        Returns list[Path]; each path carries .state (the resume state it started from)."""
        self.ctx.encoded_bodies.add(body.name)
        all_paths = []
        snapshots = {}      # k -> {key: value} | None (conflict -> havoc)
        done = set()
        queue = [0]
        while queue and len(done) < max_states:
            k = queue.pop(0)
            if k in done:
                continue
            done.add(k)
            snap = snapshots.get(k) or {}

            def pre(ex, st, b, k=k, snap=snap):
                pin = st["mem"][(0, b.params[0][0])]
                p0 = ex.child(pin, 0, b.params[0][1] and "&mut S")
                state = ex.pointee(p0)
                d = Node(state.name + ".discr", "isize")
                d.val = z3.BitVecVal(k, 64)
                state.kids["discr"] = d
                for key, val in snap.items():
                    kn = Node(f"{state.name}.{':'.join(map(str, key))}", None)
                    ex.write(kn, val)
                    kn.name = f"{state.name}.{':'.join(map(str, key))}"
                    state.kids[key] = kn
            paths = self.run(body, pre=pre)
            for p in paths:
                p.state = k
                all_paths.append(p)
                if p.kind != "return" or p.frame is None:
                    continue
                st = p.frame
                pin = st["mem"][(0, body.params[0][0])]
                state = self.pointee(self.child(pin, 0, None))
                dn = state.kids.get("discr")
                if dn is None or not z3.is_bv_value(z3.simplify(dn.val)):
                    continue
                k2 = z3.simplify(dn.val).as_long()
                if k2 in (1, 2):
                    continue  # returned / panicked
                vname = f"variant#{k2}"
                cur = {key: self.read_node(n) for key, n in state.kids.items() if isinstance(key, tuple) and key[0] == vname}
                if k2 == k:
                    # re-suspension in the same state: saved fields must be unchanged, else drop the knowledge
                    prev = snapshots.get(k2)
                    if prev is not None:
                        for key in list(prev):
                            if key in cur and not _same(cur[key], prev[key]):
                                del prev[key]
                    continue
                if k2 not in snapshots:
                    snapshots[k2] = cur
                else:
                    prev = snapshots[k2]
                    weakened = False
                    for key in list(prev):
                        if key not in cur or not _same(cur[key], prev[key]):
                            del prev[key]
                            weakened = True
                    if weakened and k2 in done:
                        done.discard(k2)   # knowledge weakened: explore again
                if k2 not in queue and k2 not in done:
                    queue.append(k2)
        return all_paths

    def feasible(self, pc):
        if not self.ctx.solver_prune:
            return True
        self.ctx.queries += 1
        s = self.ctx.solver
        s.push()
        s.add(*pc)
        r = s.check()
        s.pop()
        return r != z3.unsat

    def _fork_state(self, st, want_tr=False):
        memo = {}
        new_mem = {}

        def cl(node):
            if id(node) in memo:
                return memo[id(node)]
            n = Node(node.name, node.ty)
            memo[id(node)] = n
            n.variant = node.variant
            n.val = node.val
            n.kids = {k: cl(v) for k, v in node.kids.items()}
            if isinstance(node.val, Ptr):
                n.val = Ptr(cl(node.val.node))
            return n
        for k, v in st["mem"].items():
            new_mem[k] = cl(v)
        st2 = {"mem": new_mem, "names": dict(st["names"]), "events": list(st["events"]), "pc": list(st["pc"]), "nframes": st["nframes"]}
        if want_tr:
            def tr(x):
                if isinstance(x, Node):
                    return cl(x)
                if isinstance(x, Ptr):
                    return Ptr(cl(x.node))
                return x
            return st2, tr
        return st2

    def _explore(self, st, fid, body, bb, visits, out, cont):
        """cont: continuation for inlined calls: (caller_fid, caller_body, dest_place, return_bb, caller_visits, outer_cont)"""
        ctx = self.ctx
        while True:
            if len(out) >= ctx.max_paths:
                out.append(Path("limit", list(st["pc"]), None, list(st["events"]), "path limit"))
                return
            ctx.steps += 1
            if ctx.steps & 0xFF == 0 and time.time() > ctx.deadline:
                # a time budget per context: an exploration that does not end decides nothing (reported as `limit`, never as a pass)
                out.append(Path("limit", list(st["pc"]), None, list(st["events"]), f"time budget of {ctx.budget_s}s exhausted"))
                ctx.max_paths = 0
                return
            v = visits.get((fid, bb), 0)
            lim = ctx.max_visits
            for rx_, n_ in ctx.visit_overrides:
                if re.search(rx_, body.header):
                    lim = n_
                    break
            if v >= lim:
                out.append(Path("unwound", list(st["pc"]), None, list(st["events"]), f"{body.name}:{bb} visited {v} times"))
                return
            visits = dict(visits)
            visits[(fid, bb)] = v + 1
            blk = body.blocks[bb]
            try:
                for s in blk.stmts:
                    if s[0] == "assign":
                        dest = self.resolve(st, fid, body, s[1])
                        dty = self.place_type(body, s[1]) or dest.ty
                        val = self.rvalue(st, fid, body, s[2], dty)
                        self.write(dest, val)
                    elif s[0] == "setdiscr":
                        node = self.resolve(st, fid, body, s[1])
                        d = Node(node.name + ".discr", "isize")
                        d.val = z3.BitVecVal(s[2], 64)
                        node.kids["discr"] = d
                    elif s[0] == "unknown":
                        raise Unsupported("stmt " + s[1][:80])
                t = blk.term
                if t[0] == "goto":
                    bb = t[1]
                    continue
                if t[0] == "return":
                    retnode = self.local_node(st, fid, body, 0)
                    if cont is None:
                        out.append(Path("return", list(st["pc"]), retnode, list(st["events"]), frame=st))
                        return
                    cfid, cbody, cdest, cret, cvis, ccont, cpost = cont
                    rv = self.read_node(retnode)
                    if cpost is not None:
                        rv = cpost(self, rv)
                    if cdest is not None:
                        self.write(self.resolve(st, cfid, cbody, cdest), rv)
                    if cret is None:
                        out.append(Path("diverge", list(st["pc"]), None, list(st["events"]), "inlined callee has no return target"))
                        return
                    fid, body, bb, visits, cont = cfid, cbody, cret, cvis, ccont
                    continue
                if t[0] == "unreachable":
                    out.append(Path("unreachable", list(st["pc"]), None, list(st["events"]), f"{body.name}:{bb}"))
                    return
                if t[0] == "resume":
                    out.append(Path("panic", list(st["pc"]), None, list(st["events"]), "resume"))
                    return
                if t[0] == "drop":
                    dn = self.resolve(st, fid, body, t[1])
                    st["events"].append(Event("drop", "drop", [dn], list(st["pc"]), (body.name, bb), None, body.name, bb))
                    hook = getattr(self.ctx, "on_drop", None)
                    if hook is not None:
                        # drop glue of the value in that place (drop elaboration has already made the drop flags explicit)
                        hook(self, st, dn, self.place_type(body, t[1]))
                    bb = t[2]
                    if bb is None:
                        out.append(Path("diverge", list(st["pc"]), None, list(st["events"]), "drop without return"))
                        return
                    continue
                if t[0] == "assert":
                    c = self.operand(st, fid, body, t[1], "bool")
                    ok = c if t[2] else z3.Not(c)
                    bad = z3.Not(ok)
                    if self.feasible(st["pc"] + [bad]):
                        out.append(Path("panic", list(st["pc"]) + [bad], None, list(st["events"]), f"assert {t[3][:60]} @ {body.name}:{bb}"))
                    st["pc"].append(ok)
                    if not self.feasible(st["pc"]):
                        return
                    bb = t[4]
                    continue
                if t[0] == "switch":
                    v = self.operand(st, fid, body, t[1], self.operand_type(body, t[1]))
                    if isinstance(v, z3.BoolRef):
                        v = z3.If(v, z3.BitVecVal(1, 8), z3.BitVecVal(0, 8))
                    v = self.as_bv(v)
                    arms = []
                    neg = []
                    for val, tgt in t[2]:
                        c = v == z3.BitVecVal(val, v.size())
                        arms.append((c, tgt))
                        neg.append(z3.Not(c))
                    if t[3] is not None:
                        arms.append((z3.And(*neg) if neg else z3.BoolVal(True), t[3]))
                    feas = [(c, tgt) for c, tgt in arms if self.feasible(st["pc"] + [c])]
                    if not feas:
                        return
                    for c, tgt in feas[1:]:
                        st2 = self._fork_state(st)
                        st2["pc"].append(c)
                        self._explore(st2, fid, body, tgt, visits, out, self._fork_cont(cont))
                    st["pc"].append(feas[0][0])
                    bb = feas[0][1]
                    continue
                if t[0] == "call":
                    res = self.call(st, fid, body, bb, t, visits, out, cont)
                    if res == "handled":
                        return
                    bb = res
                    if bb is None:
                        out.append(Path("diverge", list(st["pc"]), None, list(st["events"]), f"diverging call {t[2][:80]}"))
                        return
                    continue
                raise Unsupported("terminator " + str(t)[:100])
            except Unsupported as e:
                out.append(Path("unsupported", list(st["pc"]), None, list(st["events"]), f"{e} @ {body.name}:{bb}"))
                return

    def _fork_cont(self, cont):
        return cont  # continuation data is immutable (visits dicts are copied on use)

    def _inline(self, st, fid, body, bb, t, callee, cb, argvals, visits, out, cont, post=None):
        ctx = self.ctx
        _, dest, _c, args, ret_bb, raw = t
        nf = st["nframes"]
        st["nframes"] += 1
        st["names"][nf] = f"{st['names'][fid]}>{cb.name.split('::')[-1]}{nf}"
        ctx.encoded_bodies.add(cb.name)
        params = cb.params
        vals = argvals
        if len(params) != len(vals) and len(params) == 2 and re.search(r"as Fn(Once|Mut)?<", callee):
            # closure call: (closure, (args...)) -> spread the tuple
            tup = vals[1]
            spread = []
            if isinstance(tup, Node):
                i = 0
                while i in tup.kids:
                    spread.append(self.read_node(tup.kids[i]))
                    i += 1
            vals = [vals[0]] + spread
        for (pidx, pty), v in zip(params, vals):
            n = Node(f"{st['names'][nf]}_{pidx}", pty)
            self.write(n, v)
            st["mem"][(nf, pidx)] = n
        st["events"].append(Event("inline", callee, argvals, list(st["pc"]), (body.name, bb), None, body.name, bb))
        self._explore(st, nf, cb, cb.order[0], visits, out, (fid, body, dest, ret_bb, visits, cont, post))
        return "handled"

    def _finish(self, st, fid, body, bb, t, callee, argvals, r, visits, out, cont):
        """complete a modelled call whose result is a value, a Fork of alternatives, or an Inline request"""
        _, dest, _c, args, ret_bb, raw = t
        if isinstance(r, Fork):
            feas = [(c, th) for c, th in r.alts if self.feasible(st["pc"] + [c])]
            if not feas:
                return "handled"
            for c, th in feas[1:]:
                st2, tr = self._fork_state(st, want_tr=True)
                st2["pc"].append(c)
                try:
                    v2 = th(self, st2, tr)
                except Unsupported as e:
                    out.append(Path("unsupported", list(st2["pc"]), None, list(st2["events"]), f"{e} @ {body.name}:{bb}"))
                    continue
                res = self._finish(st2, fid, body, bb, t, callee, [tr(a) for a in argvals], v2, visits, out, cont)
                if res == "handled":
                    continue
                if res is None:
                    out.append(Path("diverge", list(st2["pc"]), None, list(st2["events"]), "diverging modelled call"))
                else:
                    self._explore(st2, fid, body, res, visits, out, cont)
            c, th = feas[0]
            st["pc"].append(c)
            r = th(self, st, lambda x: x)
            return self._finish(st, fid, body, bb, t, callee, argvals, r, visits, out, cont)
        if isinstance(r, Inline):
            return self._inline(st, fid, body, bb, t, r.callee, r.body, r.args, visits, out, cont, post=getattr(r, "post", None))
        st["events"].append(Event("call", callee, argvals, list(st["pc"]), (body.name, bb), r, body.name, bb))
        if isinstance(r, tuple) and r and r[0] == "panic":
            if self.feasible(st["pc"] + [r[1]]):
                out.append(Path("panic", list(st["pc"]) + [r[1]], None, list(st["events"]), f"modelled panic in {callee[:60]}"))
            st["pc"].append(z3.Not(r[1]))
            if not self.feasible(st["pc"]):
                return "handled"
            r = r[2]
        if dest is not None and r is not None:
            self.write(self.resolve(st, fid, body, dest), r)
        return ret_bb

    # ---------------------------------------------------------------- Option / Result combinators
    def closure_body(self, f, near=None):
        """body of a closure value (an aggregate whose type is `{closure@file:line:col: line:col}`), or None. Closures written by a macro share their
        location: `near` (the name of the body that made the closure) then picks the one nested in it."""
        ty = None
        if isinstance(f, Node):
            ty = f.ty
        if isinstance(f, Ptr):
            ty = f.node.ty
        if isinstance(f, Opaque):
            ty = str(f.term)      # zero-sized closure passed as a constant: `const ZeroSized: {closure@..}`
        if not ty:
            return None
        m = re.search(r"\{closure@[^}]*\}", ty)
        if not m:
            return None
        key = m.group(0)
        idx = getattr(self.ctx, "_closure_idx", None)
        if idx is None:
            idx = {}
            for b in self.ctx.bodies.values():
                if b.params:
                    mm = re.search(r"\{closure@[^}]*\}", b.params[0][1] or "")
                    if mm and "{closure#" in b.name.rsplit("::", 1)[-1]:
                        idx.setdefault(mm.group(0), []).append(b)
            self.ctx._closure_idx = idx
        cands = idx.get(key) or []
        if near and len(cands) > 1:
            nested = [b for b in cands if b.name.startswith(near + "::")]
            if nested:
                return nested[0]
        return cands[0] if cands else None

    def mk_variant(self, ty, vidx, vname, payload=None):
        n = Node(self.ctx.fresh_name(ty.lower()), ty)
        d = Node(n.name + ".discr", "isize")
        d.val = z3.BitVecVal(vidx, 64)
        n.kids["discr"] = d
        if payload is not None:
            k = Node(f"{n.name}.{vname}:0", None)
            self.write(k, payload)
            n.kids[(vname, 0)] = k
        return n

    def apply(self, f, args, callee):
        """call a function value: closures are inlined, anything else is an uninterpreted application"""
        cb = self.closure_body(f)
        if cb is not None:
            return Inline(cb, [f] + list(args), callee)
        if isinstance(f, Opaque) and str(f.term).startswith("const:"):
            # a function item used as a value (e.g. `.map(Authority::try_from)`, `.map_err(HttpError::Stream)`)
            path = str(f.term)[len("const:"):]
            for rx, fn in self.ctx.models:
                if re.search(rx, path):
                    r = fn(self, self._cur_st, path, list(args), None, None)
                    if r is not NotImplemented and not isinstance(r, (Fork, Inline)):
                        self.ctx.used_models.add(rx)
                        return r
            m = re.match(r"^(.*)::([A-Z][A-Za-z0-9_]*)$", strip_generics_simple(path))
            if m and len(args) == 1:
                vi = self.ctx.variant_index(m.group(1), m.group(2))
                if vi is not None:
                    return self.mk_variant(m.group(1).split("::")[-1], vi, m.group(2), args[0])
        terms = [to_term(f)] + [to_term(a) for a in args]
        fn = self.func("apply", [x.sort() for x in terms], OBJ)
        return Opaque(fn(*terms))

    def combinator(self, st, callee, argvals, dest_ty):
        self._cur_st = st
        c = callee
        # strip trailing generic arguments of the method
        base = c
        if base.endswith(">"):
            # strip one trailing `::<...>` group (method generics), balanced
            depth, j = 0, len(base) - 1
            while j >= 0:
                if base[j] == ">" and (j == 0 or base[j - 1] != "-"):
                    depth += 1
                elif base[j] == "<":
                    depth -= 1
                    if depth == 0:
                        break
                j -= 1
            if j >= 2 and base[j - 2:j] == "::":
                base = base[:j - 2]
        mb = re.match(r"^(?:core::|std::)?bool::(?:<impl bool>::)?(then_some|then)$", base)
        if mb and len(argvals) == 2:
            c0 = argvals[0]
            if isinstance(c0, Ptr):
                c0 = self.read_node(c0.node)
            if isinstance(c0, Node):
                c0 = self.read_node(c0)
            cb = c0 if isinstance(c0, z3.BoolRef) else self.as_bv(c0) != 0
            if mb.group(1) == "then_some":
                yes = lambda ex, st_, tr: ex.mk_variant("Option", 1, "Some", tr(argvals[1]))
            else:
                def yes(ex, st_, tr):
                    r = ex.apply(tr(argvals[1]), [], callee)
                    return Wrap(r, lambda ex2, v: ex2.mk_variant("Option", 1, "Some", v)) if isinstance(r, Inline) else ex.mk_variant("Option", 1, "Some", r)
            return Fork([(cb, yes), (z3.Not(cb), lambda ex, st_, tr: ex.mk_variant("Option", 0, "None"))])
        m = re.match(r"^(?:std::option::|core::option::)?Option::<.*>::(\w+)$", base)
        kind = "Option" if m else None
        if not m:
            m = re.match(r"^(?:std::result::|core::result::)?Result::<.*>::(\w+)$", base)
            kind = "Result" if m else None
        if not m or not argvals:
            return NotImplemented
        meth = m.group(1)
        x = argvals[0]
        byref = False
        if isinstance(x, Ptr):
            x = self.read_node(x.node)
            byref = True
        if not isinstance(x, Node):
            return NotImplemented
        d = self.discr_of(x)
        if kind == "Option":
            is_some, is_none = d == 1, d == 0
            pay = lambda ex, xx: ex.read_node(ex.child(xx, ("Some", 0), None))
            some = lambda ex, v: ex.mk_variant("Option", 1, "Some", v)
            none = lambda ex: ex.mk_variant("Option", 0, "None")
            if meth in ("is_some", "is_none"):
                return is_some if meth == "is_some" else is_none
            if meth in ("unwrap", "expect"):
                return ("panic", is_none, pay(self, x))
            if meth in ("unwrap_or",):
                return Fork([(is_some, lambda ex, st_, tr: pay(ex, tr(x))), (is_none, lambda ex, st_, tr: tr(argvals[1]))])
            if meth == "map":
                def sm(ex, st_, tr):
                    r = ex.apply(tr(argvals[1]), [pay(ex, tr(x))], callee)
                    return Wrap(r, lambda ex2, v: some(ex2, v)) if isinstance(r, Inline) else some(ex, r)
                return Fork([(is_some, sm), (is_none, lambda ex, st_, tr: none(ex))])
            if meth == "and_then":
                return Fork([(is_some, lambda ex, st_, tr: ex.apply(tr(argvals[1]), [pay(ex, tr(x))], callee)), (is_none, lambda ex, st_, tr: none(ex))])
            if meth == "map_or":
                return Fork([(is_some, lambda ex, st_, tr: ex.apply(tr(argvals[2]), [pay(ex, tr(x))], callee)), (is_none, lambda ex, st_, tr: tr(argvals[1]))])
            if meth == "is_some_and":
                return Fork([(is_some, lambda ex, st_, tr: ex.apply(tr(argvals[1]), [pay(ex, tr(x))], callee)), (is_none, lambda ex, st_, tr: z3.BoolVal(False))])
            if meth == "is_none_or":
                return Fork([(is_some, lambda ex, st_, tr: ex.apply(tr(argvals[1]), [pay(ex, tr(x))], callee)), (is_none, lambda ex, st_, tr: z3.BoolVal(True))])
            if meth == "map_or_else":
                return Fork([(is_some, lambda ex, st_, tr: ex.apply(tr(argvals[2]), [pay(ex, tr(x))], callee)), (is_none, lambda ex, st_, tr: ex.apply(tr(argvals[1]), [], callee))])
            if meth == "ok_or_else":
                def ooe(ex, st_, tr):
                    r = ex.apply(tr(argvals[1]), [], callee)
                    return Wrap(r, lambda ex2, v: ex2.mk_variant("Result", 1, "Err", v)) if isinstance(r, Inline) else ex.mk_variant("Result", 1, "Err", r)
                return Fork([(is_some, lambda ex, st_, tr: ex.mk_variant("Result", 0, "Ok", pay(ex, tr(x)))), (is_none, ooe)])
            if meth == "unwrap_or_else":
                return Fork([(is_some, lambda ex, st_, tr: pay(ex, tr(x))), (is_none, lambda ex, st_, tr: ex.apply(tr(argvals[1]), [], callee))])
            if meth == "ok_or":
                return Fork([(is_some, lambda ex, st_, tr: ex.mk_variant("Result", 0, "Ok", pay(ex, tr(x)))),
                             (is_none, lambda ex, st_, tr: ex.mk_variant("Result", 1, "Err", tr(argvals[1])))])
            if meth in ("as_ref", "as_mut", "as_deref", "as_deref_mut"):
                def ar(ex, st_, tr):
                    xx = tr(x)
                    return some(ex, Ptr(ex.child(xx, ("Some", 0), None)))
                return Fork([(is_some, ar), (is_none, lambda ex, st_, tr: none(ex))])
            if meth == "take" and byref:
                def tk(ex, st_, tr):
                    xx = tr(x)
                    v = xx.clone()
                    nn = none(ex)
                    xx.val, xx.kids, xx.variant = nn.val, nn.kids, nn.variant
                    return v
                return tk(self, st, lambda q: q)
            return NotImplemented
        # Result
        is_ok, is_err = d == 0, d == 1
        okp = lambda ex, xx: ex.read_node(ex.child(xx, ("Ok", 0), None))
        errp = lambda ex, xx: ex.read_node(ex.child(xx, ("Err", 0), None))
        if meth in ("is_ok", "is_err"):
            return is_ok if meth == "is_ok" else is_err
        if meth in ("unwrap", "expect"):
            return ("panic", is_err, okp(self, x))
        if meth == "is_ok_and":
            return Fork([(is_ok, lambda ex, st_, tr: ex.apply(tr(argvals[1]), [okp(ex, tr(x))], callee)), (is_err, lambda ex, st_, tr: z3.BoolVal(False))])
        if meth == "is_err_and":
            return Fork([(is_err, lambda ex, st_, tr: ex.apply(tr(argvals[1]), [errp(ex, tr(x))], callee)), (is_ok, lambda ex, st_, tr: z3.BoolVal(False))])
        if meth == "unwrap_or":
            return Fork([(is_ok, lambda ex, st_, tr: okp(ex, tr(x))), (is_err, lambda ex, st_, tr: tr(argvals[1]))])
        if meth == "ok":
            return Fork([(is_ok, lambda ex, st_, tr: ex.mk_variant("Option", 1, "Some", okp(ex, tr(x)))), (is_err, lambda ex, st_, tr: ex.mk_variant("Option", 0, "None"))])
        if meth == "err":
            return Fork([(is_err, lambda ex, st_, tr: ex.mk_variant("Option", 1, "Some", errp(ex, tr(x)))), (is_ok, lambda ex, st_, tr: ex.mk_variant("Option", 0, "None"))])
        if meth == "map_err":
            def me(ex, st_, tr):
                r = ex.apply(tr(argvals[1]), [errp(ex, tr(x))], callee)
                return Wrap(r, lambda ex2, v: ex2.mk_variant("Result", 1, "Err", v)) if isinstance(r, Inline) else ex.mk_variant("Result", 1, "Err", r)
            return Fork([(is_ok, lambda ex, st_, tr: ex.mk_variant("Result", 0, "Ok", okp(ex, tr(x)))), (is_err, me)])
        if meth == "map":
            def mo(ex, st_, tr):
                r = ex.apply(tr(argvals[1]), [okp(ex, tr(x))], callee)
                return Wrap(r, lambda ex2, v: ex2.mk_variant("Result", 0, "Ok", v)) if isinstance(r, Inline) else ex.mk_variant("Result", 0, "Ok", r)
            return Fork([(is_ok, mo), (is_err, lambda ex, st_, tr: ex.mk_variant("Result", 1, "Err", errp(ex, tr(x))))])
        if meth == "and_then":
            return Fork([(is_ok, lambda ex, st_, tr: ex.apply(tr(argvals[1]), [okp(ex, tr(x))], callee)),
                         (is_err, lambda ex, st_, tr: ex.mk_variant("Result", 1, "Err", errp(ex, tr(x))))])
        return NotImplemented

    # ---------------------------------------------------------------- calls
    def call(self, st, fid, body, bb, t, visits, out, cont):
        _, dest, callee, args, ret_bb, raw = t
        argvals = [self.operand(st, fid, body, a, None) for a in args]
        return self.call_values(st, fid, body, bb, t, callee, argvals, visits, out, cont)

    def call_values(self, st, fid, body, bb, t, callee, argvals, visits, out, cont, post=None):
        ctx = self.ctx
        _, dest, _callee0, args, ret_bb, raw = t
        dest_ty = self.place_type(body, dest) if dest is not None else None
        # panics
        if re.search(r"(^|::)(panic|panic_fmt|panic_display|unwrap_failed|expect_failed|panic_const\w*|begin_panic|unreachable_display|slice_index_\w+|panic_bounds_check|panic_cold\w*|panic_explicit)(::<.*>)?$", callee.split("(")[0]) or callee.startswith(("core::panicking::", "std::rt::panic", "std::panicking::")):
            ev = Event("panic", callee, argvals, list(st["pc"]), (body.name, bb), None, body.name, bb)
            st["events"].append(ev)
            out.append(Path("panic", list(st["pc"]), None, list(st["events"]), f"call {callee[:80]} @ {body.name}:{bb}"))
            return "handled"
        # generic Option / Result combinators (closures are inlined)
        r = self.combinator(st, callee, argvals, dest_ty)
        if r is not NotImplemented:
            return self._finish(st, fid, body, bb, t, callee, argvals, r, visits, out, cont)
        # models
        for rx, fn in ctx.models:
            if re.search(rx, callee):
                r = fn(self, st, callee, argvals, dest_ty, (fid, body, bb))
                if r is NotImplemented:
                    continue
                ctx.used_models.add(rx)
                return self._finish(st, fid, body, bb, t, callee, argvals, r, visits, out, cont)
        # inline
        for resolver in ctx.inline:
            cb = resolver(callee, argvals)
            if cb is not None:
                # no recursive / unboundedly deep inlining: such calls stay uninterpreted
                chain, c2 = [body.name], cont
                while c2 is not None:
                    chain.append(c2[1].name)
                    c2 = c2[5]
                if cb.name in chain or len(chain) >= 14:
                    break
                return self._inline(st, fid, body, bb, t, callee, cb, argvals, visits, out, cont)
        # uninterpreted: result is a function of the argument terms; &mut arguments' targets are havocked
        ctx.uninterpreted.add(re.sub(r"::<.*", "", callee)[:120])
        terms = [to_term(v) for v in argvals]
        sk = scalar_kind(dest_ty) if dest_ty else None
        fname = "call:" + re.sub(r"\s+", " ", callee)[:160]
        site = f"{body.name}:{bb}"
        # pure-function assumption would be unsound for stateful callees; make the result depend on the call site ordinal too
        ordn = z3.BitVecVal(len([e for e in st["events"] if e.kind == "call" and e.callee == callee]), 16)
        if sk is None:
            f = self.func(fname, [x.sort() for x in terms] + [z3.BitVecSort(16)], OBJ)
            r = Opaque(f(*terms, ordn))
        else:
            rs = z3.BoolSort() if sk[0] == "bool" else z3.BitVecSort(sk[1])
            f = self.func(fname, [x.sort() for x in terms] + [z3.BitVecSort(16)], rs)
            r = f(*terms, ordn)
        for a, v in zip(args, argvals):
            if isinstance(v, Ptr):
                aty = self.operand_type(body, a) or ""
                if aty.strip().startswith("&mut") or aty.strip().startswith("*mut"):
                    hv = Opaque(z3.Const(ctx.fresh_name("havoc:" + v.node.name), OBJ))
                    hook = getattr(ctx, "on_havoc", None)
                    if hook and hook(self, st, v.node, callee):
                        ctx.havoced.append(f"{v.node.name} by {callee[:60]} (recorded as an unknown write)")
                        continue
                    v.node.val, v.node.kids = hv, {}
                    ctx.havoced.append(f"{v.node.name} by {callee[:60]}")
        st["events"].append(Event("call", callee, argvals, list(st["pc"]), (body.name, bb), r, body.name, bb))
        if dest is not None:
            self.write(self.resolve(st, fid, body, dest), r)
        return ret_bb
