"""C20 - params builders: symbolic execution of the real ParamsBuilder MIR over scripts of inserts whose serialisation
succeeds or fails (solver-chosen), with the byte buffer abstracted to a segment list (seqmodels.py)."""
import re, json
import z3
from .. import run as R, prov as P, models as M, seqmodels as S
from ..sym import Ctx, Executor, Node, Ptr, Opaque, OBJ

VALIDATION = {}


def _ctx(core):
    t = R.source_tables()
    return Ctx(core, consts=t["consts"], enums=t["enums"], models=list(S.SEQ_MODELS) + list(M.INT_MODELS) + P.COMMON_MODELS,
               inline=[M.crate_inliner(core)], max_paths=5000)


def _hooked(ctx):
    ctx.on_havoc = S.on_havoc
    return ctx


def _builder_after(ex, path, body):
    """the builder object behind `_1: &mut Builder` at the end of a path"""
    st = path.frame
    n = st["mem"][(0, body.params[0][0])]
    return ex.pointee(n)


def run_script(core, kind, k):
    """returns (ex, ctx, finals) ; finals: list of dict(pc, oks=[z3 Bool per insert... as (kind, cond)], out_segs | None, events)"""
    pfx = r"^fn params::<impl at core/src/params\.rs:[\d: ]+>::"
    ty = "ArrayParams" if kind == "array" else "ObjectParams"
    b_default = R.find_body(core, pfx + r"default\(\) -> " + ty)
    b_insert = R.find_body(core, pfx + r"insert\(_1: &mut " + ty)
    b_build = R.find_body(core, pfx + r"to_rpc_params\(_1: " + ty + r"\)")
    ctx = _hooked(_ctx(core))
    ex = Executor(ctx)
    states = []
    for p in ex.run(b_default):
        if p.kind != "return":
            raise RuntimeError(f"default(): {p.kind} {p.detail}")
        states.append((list(p.pc), p.ret.clone(), []))
    for i in range(k):
        nxt = []
        for pc, builder, results in states:
            if builder is None:
                nxt.append((pc, None, results))
                continue
            bnode = builder.clone()
            args = [Ptr(bnode)]
            if kind == "object":
                args.append(Opaque(z3.Const(f"key{i}", OBJ)))
            args.append(Opaque(z3.Const(f"val{i}", OBJ)))
            for p in ex.run(b_insert, args=args, pc0=pc):
                if p.kind != "return":
                    nxt.append((list(p.pc), None, results + [("abnormal", p.kind, p.detail)]))
                    continue
                d = ex.discr_of(p.ret)
                nxt.append((list(p.pc), _builder_after(ex, p, b_insert).clone(), results + [("result", d)]))
        states = nxt
    finals = []
    for pc, builder, results in states:
        if builder is None:
            finals.append(dict(pc=pc, results=results, kind="abnormal", detail=str(results[-1])))
            continue
        for p in ex.run(b_build, args=[builder.clone()], pc0=pc):
            if p.kind != "return":
                finals.append(dict(pc=list(p.pc), results=results, kind=p.kind, detail=p.detail))
                continue
            fs = [e for e in p.events if e.kind == "call" and e.callee == "RawValue::from_string"]
            out = None
            if fs:
                vn = M._node_of(ex, fs[-1].args[0])
                out = [(s.variant, s.kids.get("b")) for s in S.segs(vn)]
            finals.append(dict(pc=list(p.pc), results=results, kind="return", out=out, ret=p.ret))
    return ex, ctx, finals


def _check_script(core, kind, k, tier):
    ex, ctx, finals = run_script(core, kind, k)
    open_c, close_c = (91, 93) if kind == "array" else (123, 125)
    viol = {"partial-output-kept": [], "structure": [], "bytes": [], "panic": [], "result-flag": [], "unmodelled-write": []}
    reach_all_ok, reach_mixed, reach_any = [], [], []
    samples = []
    for f in finals:
        pc = z3.And(*f["pc"]) if f["pc"] else z3.BoolVal(True)
        if f["kind"] != "return":
            viol["panic"].append((pc, f))
            continue
        # which inserts succeeded on this path (decided by the path condition)
        succ = []
        for i, r in enumerate(f["results"]):
            d = r[1]
            is_ok = not ex.feasible(f["pc"] + [d != 0])
            is_err = not ex.feasible(f["pc"] + [d == 0])
            if not (is_ok or is_err):
                viol["result-flag"].append((pc, f))
            succ.append(is_ok)
        exp = []
        for i, ok in enumerate(succ):
            if ok:
                exp.append(("lit", 44 if exp else open_c))
                if kind == "object":
                    exp.append(("ser", f"key{i}"))
                    exp.append(("lit", 58))
                exp.append(("ser", f"ptrto:val{i}"))
        out = f["out"]
        reach_any.append(pc)
        if out is not None and any(d[0] == "unknown" for d, _ in out):
            viol["unmodelled-write"].append((pc, f))
            continue
        if all(succ) and k > 0:
            reach_all_ok.append(pc)
        if any(succ) and not all(succ):
            reach_mixed.append(pc)
        if not exp:
            # nothing inserted successfully: None, or an empty container
            if out is None:
                continue
            kinds = [d[0] for d, _ in out]
            if kinds == ["lit", "lit"]:
                viol["bytes"].append((z3.And(pc, z3.Not(z3.And(out[0][1].val == open_c, out[1][1].val == close_c))), f))
            else:
                viol["partial-output-kept"].append((pc, f))
            continue
        exp.append(("lit", close_c))
        if out is None:
            viol["structure"].append((pc, f))
            continue
        # a segment written by a failed serialisation must not survive
        partial = False
        for d, _ in out:
            if d[0] == "ser" and ex.feasible(f["pc"] + [z3.Not(d[2])]):
                partial = True
        if partial:
            viol["partial-output-kept"].append((pc, f))
            continue
        if len(out) != len(exp) or any(d[0] != e[0] for (d, _), e in zip(out, exp)):
            viol["structure"].append((pc, f))
            continue
        conds = []
        for (d, b), e in zip(out, exp):
            if e[0] == "lit":
                conds.append(b.val == e[1])
            elif d[1] != e[1]:
                conds.append(z3.BoolVal(False))
        viol["bytes"].append((z3.And(pc, z3.Not(z3.And(*conds))), f))
        if len(samples) < 2:
            samples.append({"succeeded": succ, "segments": [d[0] if d[0] == "lit" else f"ser({d[1]})" for d, _ in out]})
    res = []
    common = dict(bodies=sorted(ctx.encoded_bodies), extra={"models": S.SEQ_DOC, "paths": len(finals), "script_samples": samples})
    for cls, items in viol.items():
        name = f"script:{kind}:{k}-inserts:{cls}"
        q = z3.Or(*[c for c, _ in items]) if items else z3.BoolVal(False)
        reach = [z3.Or(*reach_any)]
        if cls == "bytes" and k > 0:
            reach.append(z3.Or(*reach_all_ok))
            if k > 1:
                reach.append(z3.Or(*reach_mixed))
        r = R.decide(name, "kernel", q, reach, desc=_DESC[cls], keydetail="",
                     bounds=f"{k} insert(s) into {'ArrayParams' if kind == 'array' else 'ObjectParams'}, each serialisation succeeding or failing (with empty or non-empty partial output) as the solver chooses",
                     **common)
        if r["status"] == "violated":
            # concrete script for native replay: per insert ok / fail-mid / fail-first
            s3 = z3.Solver()
            s3.add(q)
            s3.check()
            m = s3.model()
            wit = None
            for c, f in items:
                if z3.is_true(m.eval(c, model_completion=True)):
                    wit = f
                    break
            if wit is not None:
                script = []
                for r_ in wit["results"]:
                    ok = z3.is_true(m.eval(r_[1] == 0, model_completion=True)) if r_[0] == "result" else False
                    script.append("ok" if ok else "fail_mid")
                r["replay"] = {"scenario": "c20_script", "args": {"kind": kind, "script": script, "widen": True}}
                r["model"] = {"script": script}
            r["key"] = f"mirsym:c20:{kind}:{cls}"
        res.append(r)
    return res


_DESC = {
    "partial-output-kept": "no bytes written by a failed serialisation survive into the built text",
    "structure": "built text = open + successfully inserted values in order, ',' separated (named: key ':' value) + close; None iff nothing was inserted",
    "bytes": "the literal bytes jsonrpsee writes are exactly the opening bracket, ',' (and ':' for named), and the closing bracket",
    "panic": "no panic / arithmetic overflow while inserting or building",
    "result-flag": "insert returns Err exactly when the value's serialisation failed",
    "unmodelled-write": "every write into the buffer is one of the modelled operations (push of a literal byte, serde_json::to_writer, truncate); anything else is replayed natively with awkward keys/values",
}


def obligations(tier, seed):
    core = R.bodies("core")
    out = []
    ks = [0, 1, 2, 3] if tier == "quick" else [0, 1, 2, 3, 4, 5]
    for kind in ("array", "object"):
        for k in ks:
            if kind == "object" and k > (3 if tier == "quick" else 4):
                continue
            out += _check_script(core, kind, k, tier)
    # merge identical-key violations: report each class once per kind (smallest script)
    seen, merged = set(), []
    for r in out:
        if r["status"] == "violated":
            if r["key"] in seen:
                r["status"] = "violated-duplicate"
                continue
            seen.add(r["key"])
        merged.append(r)
    out = [r for r in merged]
    out += _tuple_impls(core)
    out += _whole_value_impls(core)
    return out


def _whole_value_impls(core):
    """ToRpcParams for maps, slices, vectors, arrays (and every tuple impl that takes this route): the value itself is serialised once (to_raw_value(&self)); the call
    returns Ok(Some(exactly that text)) when that succeeded and that very error otherwise"""
    from ..sym import Fork, to_term
    from .. import mapmodels as MM
    res = []
    bods = R.find_body(core, r"^fn traits::<impl at core/src/traits\.rs:[\d: ]+>::to_rpc_params\(_1: ", all_=True)
    seen_kinds = set()
    for b in bods:
        m = re.search(r"to_rpc_params\(_1: (.*)\) -> Result<", b.header)
        ty = m.group(1) if m else "?"
        kind = "tuple" if ty.startswith("(") else ty
        ok = z3.Bool("to_raw_value.ok")

        def m_raw(ex, st, callee, args, dty, site):
            a = args[0]
            src = a.node.name if isinstance(a, Ptr) else str(a)
            st["events"].append(__import__("mirsym.sym", fromlist=["Event"]).Event("c20", f"raw={src}", [], [], None, None, "", ""))
            return Fork([(ok, lambda ex_, st_, tr: ex_.mk_variant("Result", 0, "Ok", Opaque(z3.Const("the_text_of_the_value", OBJ)))),
                         (z3.Not(ok), lambda ex_, st_, tr: ex_.mk_variant("Result", 1, "Err", Opaque(z3.Const("the_serialisation_error", OBJ))))])
        ctx = P.make_ctx(core, extra_models=[(r"^to_raw_value::<", m_raw)] + list(S.SEQ_MODELS) + list(S.TRY_MODELS))
        ctx.inline = []
        ex = Executor(ctx)
        paths = ex.run(b)
        bad = [(p.kind, p.detail) for p in paths if p.kind != "return"]
        viol, reach = [], {"ok": [], "err": []}
        uses_raw = False
        for p in paths:
            if p.kind != "return":
                continue
            raws = [e.callee for e in p.events if e.kind == "c20"]
            if not raws:
                if kind == "tuple":
                    continue        # a tuple impl that inserts its fields one by one: order:tuple-impl decides it
                # a map / slice / vector / array is one JSON value: it is serialised as such (going through a builder would turn an empty sequence into 'no params')
                viol.append(p.cond())
                reach["ok"].append(p.cond())
                uses_raw = True
                continue
            uses_raw = True
            d = z3.simplify(ex.discr_of(p.ret))
            good = raws == ["raw=arg1"] and z3.is_bv_value(d)
            if good and d.as_long() == 0:
                o = ex.read_node(p.ret.kids[("Ok", 0)])
                od = z3.simplify(ex.discr_of(o)) if isinstance(o, Node) else None
                pay = ex.read_node(o.kids[("Some", 0)]) if od is not None and z3.is_bv_value(od) and od.as_long() == 1 and ("Some", 0) in o.kids else None
                good = pay is not None and "the_text_of_the_value" in str(to_term(pay))
                reach["ok"].append(p.cond())
                viol.append(z3.And(p.cond(), z3.Or(z3.Not(ok), z3.BoolVal(not good))))
            elif good:
                e = ex.read_node(p.ret.kids[("Err", 0)])
                good = "the_serialisation_error" in str(to_term(e))
                reach["err"].append(p.cond())
                viol.append(z3.And(p.cond(), z3.Or(ok, z3.BoolVal(not good))))
            else:
                viol.append(p.cond())
        if not uses_raw and kind == "tuple":
            continue
        seen_kinds.add(kind)
        name = f"order:whole-value-impl:{ty}"
        reach_l = R.live_reach(viol, reach, bad)
        if bad or not all(reach_l):
            res.append(R.Result(engine="mirsym", name=name, kind="order", status="unsupported" if bad else "vacuous", detail=str(bad[:1] or {k: len(v) for k, v in reach.items()})[:300], bodies=[b.name]))
            continue
        arity = len([x for x in ty.strip("()").split(",") if x.strip()]) if kind == "tuple" else None
        rp = {"scenario": "c20_tuple", "vars": {}, "fixed": ({"arity": arity} if arity else {"containers": True}), "region": z3.BoolVal(True)}
        res.append(R.decide(name, "order", z3.Or(*viol) if viol else z3.BoolVal(False), [z3.Or(*v) for v in reach_l], bodies=[b.name], replay=rp,
                            desc=f"ToRpcParams for {ty}: the value itself is serialised exactly once; Ok(Some(that text)) when it succeeded, that very error otherwise",
                            bounds="all paths of the impl; serialisation succeeds / fails", keydetail="whole-value:" + kind))
    missing = {"serde_json::Map<std::string::String, serde_json::Value>", "&[P]", "Vec<P>", "[P; N]"} - seen_kinds
    if missing:
        res.append(R.Result(engine="mirsym", name="order:whole-value-impl", kind="order", status="site-missing", detail=f"impls not found: {sorted(missing)} - spec needs update", bodies=[]))
    return res


def _tuple_impls(core):
    """every tuple impl of ToRpcParams serialises the whole tuple (to_raw_value(&self)) or inserts its fields 0..n-1 in order, each once"""
    res = []
    bods = R.find_body(core, r"^fn traits::<impl at core/src/traits\.rs:[\d: ]+>::to_rpc_params\(_1: \(", all_=True)
    for b in bods:
        m = re.search(r"to_rpc_params\(_1: \((.*?)\)\) ->", b.header)
        arity = len([x for x in m.group(1).split(",") if x.strip()]) if m else None
        ctx = P.make_ctx(core, extra_models=list(S.SEQ_MODELS))
        ctx.inline = []
        ex = Executor(ctx)
        paths = ex.run(b)
        name = f"order:tuple-impl:arity-{arity}"
        ok_paths = [p for p in paths if p.kind == "return"]
        bad = [p for p in paths if p.kind in ("unsupported", "limit", "unwound")]
        if bad or not ok_paths:
            res.append(R.Result(engine="mirsym", name=name, kind="order", status="unsupported", detail=(bad[0].detail if bad else "no return path"), bodies=[b.name]))
            continue
        viol, reach = [], []
        for p in ok_paths:
            calls = [e for e in p.events if e.kind == "call"]
            whole = [e for e in calls if e.callee.startswith("to_raw_value::<")]
            inserts = [e for e in calls if re.search(r"ArrayParams::insert", e.callee)]
            good = False
            if whole and not inserts:
                a = whole[0].args[0]
                good = isinstance(a, Ptr) and a.node.name == "arg1"
            elif inserts:
                idxs = []
                for e in inserts:
                    a = e.args[1]
                    mm = re.fullmatch(r"arg1\.(\d+)", a.node.name) if isinstance(a, Ptr) else None
                    idxs.append(int(mm.group(1)) if mm else None)
                finished = any(re.search(r"ArrayParams as ToRpcParams>::to_rpc_params|ParamsBuilder::build", e.callee) for e in calls)
                good = idxs == list(range(len(idxs))) and (len(idxs) == arity if finished else len(idxs) <= arity)
            viol.append(z3.And(p.cond(), z3.BoolVal(not good)))
            reach.append(p.cond())
        rp = {"scenario": "c20_tuple", "vars": {}, "fixed": {"arity": arity}, "region": z3.BoolVal(True)}
        res.append(R.decide(name, "order", z3.Or(*viol), [z3.Or(*reach)], bodies=[b.name], replay=rp,
                            desc=f"{arity}-tuple: serialised as a whole, or fields 0..{arity - 1} inserted in order, each exactly once",
                            bounds="all paths of the impl", keydetail="tuple-fields"))
    if not res:
        res.append(R.Result(engine="mirsym", name="order:tuple-impl", kind="order", status="site-missing", detail="no tuple impls found - spec needs update", bodies=[]))
    return res
