"""The journey of one configured value from the user's builder call to the connection code: every step of the builders keeps it.

  ServerConfigBuilder::<setter>(..)   the value's own setter stores its argument; every other setter leaves the value as it was
  ServerConfigBuilder::build()        the ServerConfig field is the builder's field
  Builder::set_config(cfg) / set_*_middleware / to_service_builder, TowerServiceBuilder::*   the ServerConfig travels unchanged

Used by the properties whose subject is a configured limit (C07 request size, C08 response size, C06 subscriptions per connection, C11 connections, C02 batch setting):
"however the server is assembled"."""
import re
import z3
from .. import run as R, prov as P, models as M, mapmodels as MM, seqmodels as SQ
from ..sym import Ctx, Executor, Node, Ptr, Opaque, to_term

IMPL = r"^fn server::<impl at server/src/server\.rs:[\d: ]+>::"


def _flat(ex, v, depth=0):
    v = ex.read_node(v) if isinstance(v, Node) else v
    if isinstance(v, Node):
        if not v.kids and v.val is None:
            return v.name
        return v.name + "{" + ",".join(f"{k}={_flat(ex, c, depth + 1)}" for k, c in sorted(v.kids.items(), key=lambda kv: str(kv[0])) if not (isinstance(k, tuple) and k[0] == "name") and depth < 6) + "}"
    return re.sub(r"\s+", " ", str(to_term(v)))


def _untouched(ex, node, path):
    """the value at `node` is the input's value at `path` (e.g. 'arg1.0'): never written, or written with exactly that"""
    txt = _flat(ex, node)
    return txt == path or re.fullmatch(re.escape(path) + r"(\{[^{}]*\})?", txt) is not None and all(
        re.fullmatch(rf"[^=]+={re.escape(path)}[.\w:*]*", kv) for kv in re.findall(r"[^{},]+=[^{},]+", txt))


def journey_obligations(srv, field, own_setter, scenario=None, fixed=None):
    out = []
    t = R.source_tables()
    fi_b = R.field_index("ServerConfigBuilder", field)
    fi_c = R.field_index("ServerConfig", field)
    rp = dict(scenario=scenario, vars={}, fixed=fixed or {}, region=z3.BoolVal(True)) if scenario else None

    def mk():
        ctx = Ctx(srv, consts=t["consts"], enums=t["enums"], models=MM.ARC_MODELS + list(SQ.TRY_MODELS) + list(M.INT_MODELS) + P.COMMON_MODELS, inline=[M.crate_inliner(srv)], max_paths=400)
        return Executor(ctx)

    # ---- (a) the setters of ServerConfigBuilder
    setters = R.find_body(srv, IMPL + r"\w+\(_1: ServerConfigBuilder(, _2: [^)]*)?\) -> ServerConfigBuilder", all_=True)
    names = []
    viol, reach, bad, bodies = [], [], [], []
    for b in setters:
        meth = re.search(r">::(\w+)\(_1: ServerConfigBuilder", b.header).group(1)
        names.append(meth)
        bodies.append(b.name)
        ex = mk()
        for p in ex.run(b):
            if p.kind == "panic":
                continue                        # a documented assert on the argument (e.g. a capacity of 0)
            if p.kind != "return":
                bad.append((meth, p.kind, p.detail))
                continue
            pc = p.cond()
            reach.append(pc)
            got = p.ret.kids.get(fi_b) if isinstance(p.ret, Node) else None
            if got is None:
                # the field was never touched: the returned builder is the input moved as a whole
                if isinstance(p.ret, Node) and (p.ret.name == "arg1" or _flat(ex, p.ret).startswith("arg1")):
                    if meth == own_setter:
                        viol.append((pc, f"{meth} does not store its argument"))
                    continue
                viol.append((pc, f"{meth} returns a builder whose {field} is not the input's"))
                continue
            if meth == own_setter:
                if _flat(ex, got) != "arg2" and not _flat(ex, got).startswith("arg2"):
                    viol.append((pc, f"{meth} stores {_flat(ex, got)[:80]} instead of its argument"))
            elif not _untouched(ex, got, f"arg1.{fi_b}"):
                viol.append((pc, f"{meth} changes {field} (now {_flat(ex, got)[:80]})"))
    name = f"frame:ServerConfigBuilder:{field}"
    if own_setter not in names:
        out.append(R.Result(engine="mirsym", name=name, kind="provenance", status="site-missing", detail=f"setter {own_setter} not found among {names} - spec needs update", bodies=bodies))
    else:
        reach_l = R.live_reach(viol, reach, bad)
        if bad or not reach_l[0]:
            out.append(R.Result(engine="mirsym", name=name, kind="provenance", status="unsupported" if bad else "vacuous", detail=str(bad[:1])[:300], bodies=bodies))
        else:
            r = R.decide(name, "provenance", z3.Or(*R._viol_terms(viol)) if viol else z3.BoolVal(False), [z3.Or(*reach_l[0])], bodies=bodies,
                         desc=f"ServerConfigBuilder: {own_setter}(v) stores v as {field}; each of the other {len(names) - 1} setters returns a builder whose {field} is the one it was given "
                              f"(so the order in which options are set does not matter)", bounds="every setter, all argument values, every path", keydetail=f"builder-frame:{field}", replay=rp)
            if r["status"] == "violated":
                r["detail"] = "; ".join(sorted({w for _, w in viol}))[:400]
            out.append(r)
    # ---- (b) build(): the config's field is the builder's
    b = R.find_body(srv, IMPL + r"build\(_1: ServerConfigBuilder\) -> ServerConfig")
    ex = mk()
    viol, reach, bad = [], [], []
    for p in ex.run(b):
        if p.kind != "return":
            bad.append((p.kind, p.detail))
            continue
        pc = p.cond()
        reach.append(pc)
        got = p.ret.kids.get(fi_c) if isinstance(p.ret, Node) else None
        if got is None or not _untouched(ex, got, f"arg1.{fi_b}"):
            viol.append((pc, f"build() fills {field} with {_flat(ex, got)[:80] if got is not None else 'nothing'}"))
    name = f"prov:ServerConfigBuilder::build:{field}"
    reach_l = R.live_reach(viol, reach, bad)
    if bad or not reach_l[0]:
        out.append(R.Result(engine="mirsym", name=name, kind="provenance", status="unsupported" if bad else "vacuous", detail=str(bad[:1])[:300], bodies=[b.name]))
    else:
        r = R.decide(name, "provenance", z3.Or(*R._viol_terms(viol)) if viol else z3.BoolVal(False), [z3.Or(*reach_l[0])], bodies=[b.name],
                     desc=f"ServerConfigBuilder::build() puts the builder's {field} into ServerConfig::{field}", bounds="all values", keydetail=f"builder-build:{field}", replay=rp)
        if r["status"] == "violated":
            r["detail"] = "; ".join(sorted({w for _, w in viol}))[:400]
        out.append(r)
    # ---- (c) the server builders carry the ServerConfig unchanged
    fi_sb = R.field_index("Builder", "server_cfg")
    fi_tb = R.field_index("TowerServiceBuilder", "server_cfg")
    steps = [(r"set_config\(_1: server::Builder<HttpMiddleware, RpcMiddleware>, _2: ServerConfig\)", fi_sb, "arg2", "Builder::set_config(cfg) stores cfg"),
             (r"set_rpc_middleware\(_1: server::Builder<HttpMiddleware, RpcMiddleware>, ", fi_sb, f"arg1.{fi_sb}", "Builder::set_rpc_middleware keeps the config"),
             (r"set_http_middleware\(_1: server::Builder<HttpMiddleware, RpcMiddleware>, ", fi_sb, f"arg1.{fi_sb}", "Builder::set_http_middleware keeps the config"),
             (r"to_service_builder\(_1: server::Builder<HttpMiddleware, RpcMiddleware>\)", fi_tb, f"arg1.{fi_sb}", "Builder::to_service_builder hands its config to the service builder"),
             (r"set_rpc_middleware\(_1: TowerServiceBuilder<RpcMiddleware, HttpMiddleware>, ", fi_tb, f"arg1.{fi_tb}", "TowerServiceBuilder::set_rpc_middleware keeps the config"),
             (r"set_http_middleware\(_1: TowerServiceBuilder<RpcMiddleware, HttpMiddleware>, ", fi_tb, f"arg1.{fi_tb}", "TowerServiceBuilder::set_http_middleware keeps the config"),
             (r"connection_id\(_1: TowerServiceBuilder<RpcMiddleware, HttpMiddleware>, ", fi_tb, f"arg1.{fi_tb}", "TowerServiceBuilder::connection_id keeps the config")]
    viol, reach, bad, bodies = [], [], [], []
    for rx, fi_out, src, what in steps:
        try:
            b = R.find_body(srv, IMPL + rx)
        except LookupError as e:
            bad.append(("site-missing", str(e)[:200]))
            continue
        bodies.append(b.name)
        ex = mk()
        for p in ex.run(b):
            if p.kind != "return":
                bad.append((what, p.kind, p.detail))
                continue
            pc = p.cond()
            reach.append(pc)
            cfg = p.ret.kids.get(fi_out) if isinstance(p.ret, Node) else None
            if cfg is None:
                if not (isinstance(p.ret, Node) and _flat(ex, p.ret).startswith("arg1") and src.startswith("arg1.")):
                    viol.append((pc, f"not so: {what}"))
                continue
            cv = ex.read_node(cfg)
            fld = cv.kids.get(fi_c) if isinstance(cv, Node) else None
            whole_ok = _untouched(ex, cfg, src)
            field_ok = fld is not None and _untouched(ex, fld, f"{src}.{fi_c}")
            if not (whole_ok or field_ok):
                viol.append((pc, f"not so: {what} ({field} becomes {_flat(ex, fld)[:60] if fld is not None else _flat(ex, cfg)[:60]})"))
    name = f"frame:server-builders:{field}"
    reach_l = R.live_reach(viol, reach, bad)
    if bad or not reach_l[0]:
        out.append(R.Result(engine="mirsym", name=name, kind="provenance", status="unsupported" if bad else "vacuous", detail=str(bad[:1])[:300], bodies=bodies))
    else:
        r = R.decide(name, "provenance", z3.Or(*R._viol_terms(viol)) if viol else z3.BoolVal(False), [z3.Or(*reach_l[0])], bodies=bodies,
                     desc=f"the server builders carry ServerConfig::{field} unchanged: set_config stores the given config; set_rpc_middleware / set_http_middleware / to_service_builder / "
                          f"connection_id hand on the one they hold", bounds="every path of the seven builder steps", keydetail=f"server-builders:{field}", replay=rp)
        if r["status"] == "violated":
            r["detail"] = "; ".join(sorted({w for _, w in viol}))[:400]
        out.append(r)
    return out
