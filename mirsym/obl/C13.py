"""C13 - the method registry is a map: failed registrations change nothing, success adds exactly the named entries,
clones are isolated (symbolic execution of rpc_module.rs with method names as arbitrary, possibly equal, texts)."""
import itertools, re
import z3
from .. import run as R, models as M, mapmodels as MM, prov as P, listmodels as LM, clienttable as T, seqmodels as SQ
from ..sym import Ctx, Executor, Node, Ptr, Opaque, OBJ, to_term

VALIDATION = {}
RM = r"^fn rpc_module::<impl at core/src/server/rpc_module\.rs:[\d: ]+>::"


def _ctx(core):
    t = R.source_tables()
    ctx = Ctx(core, consts=t["consts"], enums=t["enums"],
              models=[(T.STR_RX, T.m_str_identity)] + SQ.TRY_MODELS + MM.ARC_MODELS + MM.MAP_MODELS + LM.LIST_MODELS + list(M.TRACING_MODELS) + list(M.MEM_MODELS) + list(M.INT_MODELS) + P.COMMON_MODELS,
              inline=[M.crate_inliner(core)], max_paths=6000, max_visits=6)
    return ctx


def name(s):
    return Opaque(z3.Const("name." + s, OBJ))


def cb(s):
    return Opaque(z3.Const("cb." + s, OBJ))


def callbacks_map(ex, module):
    """the association list behind module.methods.callbacks (RpcModule { ctx, methods: Methods { callbacks: Arc<map>, .. } })"""
    methods = module.kids.get(R.field_index("RpcModule", "methods")) if module.ty and "RpcModule" in (module.ty or "") or R.field_index("RpcModule", "methods") in module.kids else module
    arc = methods.kids.get(R.field_index("Methods", "callbacks"))
    a = MM.arc_node(ex, arc)
    return a.kids["ptr"].val.node.kids["v"]


def tag_of(ex, v, depth=0):
    """the registration tag (cb.*) buried in a MethodCallback value, and its kind"""
    v = ex.read_node(v) if isinstance(v, Node) else v
    if isinstance(v, Opaque):
        m = re.search(r"cb\.\w+", str(v.term))
        return m.group(0) if m else None
    if isinstance(v, Ptr):
        return tag_of(ex, v.node, depth + 1) if depth < 12 else None
    if isinstance(v, Node):
        for k, n in v.kids.items():
            if k == "discr":
                continue
            t = tag_of(ex, n, depth + 1) if depth < 12 else None
            if t:
                return t
    return None


def kind_of(ex, v):
    v = ex.read_node(v)
    if isinstance(v, Node) and "discr" in v.kids:
        d = z3.simplify(ex.read_node(v.kids["discr"]))
        if z3.is_bv_value(d):
            return R.source_tables()["enums"]["MethodCallback"][d.as_long()]
    return "?"


def snapshot(ex, module):
    mp = callbacks_map(ex, module)
    return [(to_term(MM.value_of(ex, e.kids["k"])), tag_of(ex, e.kids["v"]), kind_of(ex, e.kids["v"])) for _, e in MM.entries(mp)]


class Reg:
    def __init__(self, core):
        self.core = core
        self.ctx = _ctx(core)
        self.ex = Executor(self.ctx)
        b = lambda rx: R.find_body(core, rx)
        self.b_new = b(RM + r"new\(_1: Context\) -> RpcModule<Context>")
        self.b = {
            "method": b(RM + r"register_method\("),
            "async": b(RM + r"register_async_method\("),
            "blocking": b(RM + r"register_blocking_method\("),
            "subscription": b(RM + r"register_subscription\("),
            "subscription_raw": b(RM + r"register_subscription_raw\("),
            "alias": b(RM + r"register_alias\("),
            "remove": b(RM + r"remove_method\("),
            "merge": b(RM + r"merge\(_1: &mut Methods"),
            "method_with_name": b(RM + r"method_with_name\("),
        }
        self.b_clone = b(RM + r"clone\(_1: &RpcModule<Context>\) -> RpcModule<Context>")
        self.abnormal = []

    def new_module(self):
        out = []
        for p in self.ex.run(self.b_new, args=[Opaque(z3.Const("ctx", OBJ))]):
            if p.kind != "return":
                raise RuntimeError(f"RpcModule::new: {p.kind} {p.detail}")
            out.append((list(p.pc), self.ex.deep_clone(p.ret)))
        return out

    def with_clone(self, pc, mod):
        """returns [(pc, holder)] where holder.m is the module and holder.c a clone of it made by the real Clone impl"""
        out = []
        h = Node("holder", "holder")
        h.kids["m"] = self.ex.deep_clone(mod)
        for p in self.ex.run(self.b_clone, args=[Ptr(h.kids["m"])], pc0=pc):
            if p.kind != "return":
                self.abnormal.append(("clone", p.kind, p.detail))
                continue
            h2 = Node("holder", "holder")
            h2.kids["m"] = self.ex.pointee(p.frame["mem"][(0, self.b_clone.params[0][0])])
            h2.kids["c"] = p.ret
            out.append((list(p.pc), self.ex.deep_clone(h2)))
        return out

    def apply_held(self, pc, holder, op, args_fn, label):
        """like apply, on holder.m while holder.c (a clone made earlier) travels along; returns [(pc, m_after, c_after, path)]"""
        nxt = []
        body = self.b[op]
        h = self.ex.deep_clone(holder)
        for p in self.ex.run(body, args=[Ptr(h.kids["m"])] + list(args_fn(self.ex)), pc0=pc, extra_roots=[h.kids["c"]]):
            if p.kind == "return":
                m_after = self.ex.pointee(p.frame["mem"][(0, body.params[0][0])])
                nxt.append((list(p.pc), m_after, p.frame["mem"][("extra", 0)], p))
            elif p.kind != "unreachable":
                self.abnormal.append((label, p.kind, p.detail))
        return nxt

    def apply(self, states, op, args_fn, label):
        """states: [(pc, module)] -> [(pc, module_after, path)]"""
        nxt = []
        body = self.b[op]
        for pc, mod in states:
            m2 = self.ex.deep_clone(mod)
            tgt = m2
            if op == "merge":
                tgt = m2.kids[R.field_index("RpcModule", "methods")]
            for p in self.ex.run(body, args=[Ptr(tgt)] + list(args_fn(self.ex)), pc0=pc):
                if p.kind == "return":
                    after = self.ex.pointee(p.frame["mem"][(0, body.params[0][0])])
                    if op == "merge":
                        full = self.ex.deep_clone(m2)
                        full.kids[R.field_index("RpcModule", "methods")] = self.ex.deep_clone(after)
                        after = full
                    nxt.append((list(p.pc), self.ex.deep_clone(after), p))
                elif p.kind in ("unsupported", "limit", "unwound", "diverge"):
                    self.abnormal.append((label, p.kind, p.detail))
                elif p.kind == "panic":
                    self.abnormal.append((label, "panic", p.detail))
        return nxt


def _build_pre(r, kinds):
    """pre-state: successful registrations of the given kinds under names p0, p1.. (pairwise different by construction of the paths)"""
    states = r.new_module()
    for i, k in enumerate(kinds):
        if k in ("method", "async", "blocking"):
            res = r.apply(states, k, lambda ex, i=i: [name(f"p{i}"), cb(f"p{i}")], f"pre{i}")
        else:
            res = r.apply(states, "subscription", lambda ex, i=i: [name(f"p{i}"), name(f"p{i}n"), name(f"p{i}u"), cb(f"p{i}")], f"pre{i}")
        states = [(pc, mod) for pc, mod, p in res if not r.ex.feasible(pc + [r.ex.discr_of(p.ret) != 0])]
    return states


def _same_entries(pre, post_terms):
    """every pre entry is still there with the same handler"""
    conds = []
    for k, tag, kind in pre:
        conds.append(any(k.eq(k2) and tag == t2 and kind == kd2 for k2, t2, kd2 in post_terms))
    return all(conds)


def _op_case(core, pre_kinds, op):
    r = Reg(core)
    ex = r.ex
    states = _build_pre(r, pre_kinds)
    viol, reach_ok, reach_err = [], [], []
    for pc, mod in states:
        pre = snapshot(ex, mod)
        pre_keys = [k for k, _, _ in pre]
        clone_before = None
        if op in ("method", "async", "blocking"):
            names = [name("x")]
            res = r.apply([(pc, mod)], op, lambda e: [name("x"), cb("x")], op)
        elif op in ("subscription", "subscription_raw"):
            names = [name("x"), name("xu")]
            res = r.apply([(pc, mod)], op, lambda e: [name("x"), name("xn"), name("xu"), cb("x")], op)
        elif op == "alias":
            names = [name("x")]
            res = r.apply([(pc, mod)], op, lambda e: [name("x"), name("existing")], op)
        elif op == "remove":
            names = []
            res = r.apply([(pc, mod)], op, lambda e: [name("x")], op)
        for pc2, after, p in res:
            c = z3.And(*pc2) if pc2 else z3.BoolVal(True)
            post = snapshot(ex, after)
            if op == "remove":
                dv = z3.simplify(ex.discr_of(p.ret))
                removed = z3.is_bv_value(dv) and dv.as_long() == 1
                exp_len = len(pre) - (1 if removed else 0)
                (reach_ok if removed else reach_err).append(c)
                if len(post) != exp_len or not all(any(k.eq(k2) and t == t2 for k2, t2, _ in pre) for k, t, _ in post):
                    viol.append(c)
                # removed <=> the name was bound; and it is the entry with that name that went away
                gone = [k for k, _, _ in pre if not any(k.eq(k2) for k2, _, _ in post)]
                taken = z3.Or(*[to_term(name("x")) == k for k in pre_keys]) if pre_keys else z3.BoolVal(False)
                viol.append(z3.And(c, z3.BoolVal(removed) != taken))
                for g in gone:
                    viol.append(z3.And(c, to_term(name("x")) != g))
                continue
            dv = z3.simplify(ex.discr_of(p.ret))
            ok = z3.is_bv_value(dv) and dv.as_long() == 0
            nterms = [to_term(n) for n in names]
            taken = z3.Or(*[n == k for n in nterms for k in pre_keys]) if pre_keys else z3.BoolVal(False)
            if op in ("subscription", "subscription_raw"):
                taken = z3.Or(taken, nterms[0] == nterms[1])
            if op == "alias":
                exists = z3.Or(*[to_term(name("existing")) == k for k in pre_keys]) if pre_keys else z3.BoolVal(False)
            if not ok:
                reach_err.append(c)
                # failure leaves the module exactly as it was
                if len(post) != len(pre) or not _same_entries(pre, post):
                    viol.append(c)
                # ... and it fails only for a reason the statement names
                reason = taken if op != "alias" else z3.Or(taken, z3.Not(exists))
                viol.append(z3.And(c, z3.Not(reason)))
            else:
                reach_ok.append(c)
                viol.append(z3.And(c, taken))                      # success only when every name was free
                added = [(k, t, kd) for k, t, kd in post if not any(k.eq(k2) for k2 in pre_keys)]
                if len(post) != len(pre) + len(names) or not _same_entries(pre, post) or len(added) != len(names):
                    viol.append(c)
                else:
                    for n in nterms:
                        if not any(k.eq(n) for k, _, _ in added):
                            viol.append(c)
                    if op == "alias":
                        # the alias is bound to the handler currently bound to `existing`
                        tg = [t for k, t, _ in added][0]
                        srcs = [(k, t) for k, t, _ in pre]
                        viol.append(z3.And(c, z3.Not(z3.Or(*[z3.And(to_term(name("existing")) == k, z3.BoolVal(t == tg)) for k, t in srcs]))))
                    elif op in ("subscription", "subscription_raw"):
                        kinds = sorted(kd for _, _, kd in added)
                        if kinds != ["Subscription", "Unsubscription"]:
                            viol.append(c)
                    else:
                        if [t for _, t, _ in added] != ["cb.x"]:
                            viol.append(c)
    return r, viol, reach_ok, reach_err


def _outcome(ex, p):
    """coarse outcome of an operation: the discriminant of what it returned (Ok / Err, Some / None)"""
    if isinstance(p.ret, Node) and "discr" in p.ret.kids:
        d = z3.simplify(ex.read_node(p.ret.kids["discr"]))
        return d.as_long() if z3.is_bv_value(d) else str(d)
    return None


def _clone_isolation(core, pre_kinds, op):
    r = Reg(core)
    ex = r.ex
    viol, reach = [], []
    for pc, mod in _build_pre(r, pre_kinds):
        pre = [(str(a), b, c) for a, b, c in snapshot(ex, mod)]
        for pc1, holder in r.with_clone(pc, mod):
            if op == "alias":
                res = r.apply_held(pc1, holder, op, lambda e: [name("x"), name("existing")], "clone+" + op)
            elif op == "remove":
                res = r.apply_held(pc1, holder, op, lambda e: [name("x")], "clone+" + op)
            elif op == "subscription":
                res = r.apply_held(pc1, holder, op, lambda e: [name("x"), name("xn"), name("xu"), cb("x")], "clone+" + op)
            else:
                res = r.apply_held(pc1, holder, op, lambda e: [name("x"), cb("x")], "clone+" + op)
            # what the same operation does to the module when nobody holds a clone
            argsf = {"alias": lambda e: [name("x"), name("existing")], "remove": lambda e: [name("x")],
                     "subscription": lambda e: [name("x"), name("xn"), name("xu"), cb("x")]}.get(op, lambda e: [name("x"), cb("x")])
            alone = [(pc0, sorted((str(a), b, k) for a, b, k in snapshot(ex, after0)), _outcome(ex, p0)) for pc0, after0, p0 in r.apply([(pc, mod)], op, argsf, "alone+" + op)]
            for pc2, m_after, c_after, p in res:
                c = z3.And(*pc2) if pc2 else z3.BoolVal(True)
                reach.append(c)
                if [(str(a), b, k) for a, b, k in snapshot(ex, c_after)] != pre:
                    viol.append(c)
                # ... and the operation does to the module exactly what it does without a clone around (same bindings afterwards, same outcome)
                mine = (sorted((str(a), b, k) for a, b, k in snapshot(ex, m_after)), _outcome(ex, p))
                for pc0, snap0, out0 in alone:
                    both = [x for x in pc2 if not any(x.eq(y) for y in pc1)] + list(pc0)
                    if ex.feasible(list(pc2) + list(pc0)) and (snap0, out0) != mine:
                        viol.append(z3.And(c, *pc0))
    return r, viol, reach


def _merge_case(core, pre_kinds, other_kinds):
    r = Reg(core)
    ex = r.ex
    r.ctx.models.insert(0, (r"^<impl Into<Methods> as Into<Methods>>::into$", M.m_identity))
    viol, reach_ok, reach_err = [], [], []
    # `other`: a second module with its own names o0, o1 (arbitrary texts)
    others = r.new_module()
    for i, k in enumerate(other_kinds):
        res = r.apply(others, "method", lambda e, i=i: [name(f"o{i}"), cb(f"o{i}")], f"other{i}")
        others = [(pc, m) for pc, m, p in res if not ex.feasible(pc + [ex.discr_of(p.ret) != 0])]
    for pc, mod in _build_pre(r, pre_kinds):
        pre = snapshot(ex, mod)
        for opc, omod in others:
            osnap = snapshot(ex, omod)
            other_methods = ex.deep_clone(omod.kids[R.field_index("RpcModule", "methods")])
            res = r.apply([(pc + opc, mod)], "merge", lambda e: [other_methods], "merge")
            for pc2, after, p in res:
                c = z3.And(*pc2) if pc2 else z3.BoolVal(True)
                post = snapshot(ex, after)
                dv = z3.simplify(ex.discr_of(p.ret))
                ok = z3.is_bv_value(dv) and dv.as_long() == 0
                clash = z3.Or(*[a == b for a, _, _ in pre for b, _, _ in osnap]) if pre and osnap else z3.BoolVal(False)
                if ok:
                    reach_ok.append(c)
                    viol.append(z3.And(c, clash))
                    want = sorted([(str(a), t, k) for a, t, k in pre + osnap])
                    if sorted([(str(a), t, k) for a, t, k in post]) != want:
                        viol.append(c)
                else:
                    reach_err.append(c)
                    viol.append(z3.And(c, z3.Not(clash)))
                    if [(str(a), t, k) for a, t, k in post] != [(str(a), t, k) for a, t, k in pre]:
                        viol.append(c)
    return r, viol, reach_ok, reach_err


def _dispatch_case(core, pre_kinds):
    r = Reg(core)
    ex = r.ex
    viol, reach_hit, reach_miss = [], [], []
    body = r.b["method_with_name"]
    for pc, mod in _build_pre(r, pre_kinds):
        pre = snapshot(ex, mod)
        methods = ex.deep_clone(mod.kids[R.field_index("RpcModule", "methods")])
        for p in ex.run(body, args=[Ptr(methods), name("q")], pc0=pc):
            if p.kind != "return":
                if p.kind != "unreachable":
                    r.abnormal.append(("dispatch", p.kind, p.detail))
                continue
            c = p.cond()
            dv = z3.simplify(ex.discr_of(p.ret))
            some = z3.is_bv_value(dv) and dv.as_long() == 1
            bound = z3.Or(*[to_term(name("q")) == k for k, _, _ in pre]) if pre else z3.BoolVal(False)
            viol.append(z3.And(c, z3.BoolVal(some) != bound))           # found <=> bound
            if some:
                reach_hit.append(c)
                tup = ex.read_node(ex.child(p.ret, ("Some", 0), None))
                got = tag_of(ex, tup.kids[1])
                kname = to_term(MM.value_of(ex, tup.kids[0]))
                # the handler returned is the one bound to exactly that name
                viol.append(z3.And(c, z3.Not(z3.Or(*[z3.And(to_term(name("q")) == k, z3.BoolVal(t == got), kname == k) for k, t, _ in pre]))))
            else:
                reach_miss.append(c)
    return r, viol, reach_hit, reach_miss


def obligations(tier, seed):
    core = R.bodies("core")
    out = []
    pres = [(), ("method",), ("method", "subscription")] if tier == "quick" else [(), ("method",), ("async",), ("subscription",), ("method", "blocking"), ("method", "subscription"), ("subscription", "async")]
    ops = ["method", "async", "blocking", "subscription", "subscription_raw", "alias", "remove"]
    for pre in pres:
        for op in ops:
            r, viol, reach_ok, reach_err = _op_case(core, pre, op)
            nm = f"registry:{'+'.join(pre) or 'empty'}:{op}"
            common = dict(bodies=sorted(r.ctx.encoded_bodies), extra={"models": MM.ARC_DOC + MM.MAP_DOC})
            bad = [a for a in r.abnormal if a[1] != "panic"]
            if bad:
                out.append(R.Result(engine="mirsym", name=nm, kind="kernel", status="unsupported", detail=str(bad[0])[:300], bodies=common["bodies"]))
                continue
            reach = [z3.Or(*x) for x in (reach_ok, reach_err) if x]
            q = [v if isinstance(v, z3.ExprRef) else z3.BoolVal(bool(v)) for v in viol]
            out.append(R.decide(nm, "kernel", z3.Or(*q) if q else z3.BoolVal(False), reach,
                                desc="failure (name taken / subscribe == unsubscribe / alias target missing) leaves the registry exactly as it was; success adds exactly the named "
                                     "entries bound to the given handler (alias: to the handler of the existing method); a clone taken before is unaffected; remove unbinds exactly that name",
                                bounds=f"registry built by successful registrations {pre or '(none)'}; the operation's names are arbitrary texts (equal to or different from any existing name, solver-chosen)",
                                keydetail="", **common))
            if out[-1]["status"] == "violated":
                out[-1]["key"] = f"mirsym:c13:{op}"
                out[-1]["replay"] = {"scenario": "c13_registry", "args": {"op": op, "pre": list(pre)}}
    for pre in ([("method",), ("method", "subscription")] if tier == "quick" else [("method",), ("async",), ("method", "subscription"), ("subscription", "method")]):
        for op in ("method", "alias", "remove", "subscription"):
            r, viol, reach = _clone_isolation(core, pre, op)
            nm = f"clone-isolation:{'+'.join(pre)}:{op}"
            bad = [a for a in r.abnormal if a[1] != "panic"]
            if bad or not reach:
                out.append(R.Result(engine="mirsym", name=nm, kind="kernel", status="unsupported" if bad else "vacuous", detail=str(bad[:1])[:300], bodies=sorted(r.ctx.encoded_bodies)))
                continue
            out.append(R.decide(nm, "kernel", z3.Or(*viol) if viol else z3.BoolVal(False), [z3.Or(*reach)], bodies=sorted(r.ctx.encoded_bodies),
                                desc="a clone of the module taken (by the real Clone impl) before the operation still has exactly the bindings it had - whatever the operation does - and the operation "
                                     "does to the module exactly what it does when no clone exists (same bindings afterwards, same outcome)",
                                bounds=f"registry {pre}; operation names arbitrary texts", keydetail="clone-isolation", extra={"models": MM.ARC_DOC + MM.MAP_DOC}))
            if out[-1].get("status") == "violated":
                out[-1]["replay"] = {"scenario": "c13_registry", "args": {"op": op, "pre": list(pre), "with_clone": True}}
        r, viol, hit, miss = _dispatch_case(core, pre)
        nm = f"dispatch:{'+'.join(pre)}"
        bad = [a for a in r.abnormal if a[1] != "panic"]
        if bad or not hit or not miss:
            out.append(R.Result(engine="mirsym", name=nm, kind="kernel", status="unsupported" if bad else "vacuous", detail=str(bad[:1])[:300], bodies=sorted(r.ctx.encoded_bodies)))
        else:
            out.append(R.decide(nm, "kernel", z3.Or(*viol), [z3.Or(*hit), z3.Or(*miss)], bodies=sorted(r.ctx.encoded_bodies),
                                desc="method_with_name(q) finds a handler exactly when q is bound, and it is the handler bound to q (with q's registered name)",
                                bounds=f"registry {pre}; q an arbitrary text", keydetail="dispatch", extra={"models": MM.ARC_DOC + MM.MAP_DOC}))
    for pre, oth in ([((), ("method",)), (("method",), ("method",)), (("method",), ("method", "method")), (("method", "subscription"), ("method", "method"))] if tier == "quick"
                     else [((), ("method",)), (("method",), ("method",)), (("method",), ("method", "method")), (("method", "subscription"), ("method", "method")), (("method", "async"), ("method", "method"))]):
        r, viol, ok_, err_ = _merge_case(core, pre, oth)
        nm = f"merge:{'+'.join(pre) or 'empty'}<-{'+'.join(oth)}"
        bad = [a for a in r.abnormal if a[1] != "panic"]
        if bad or not ok_ or (pre and not err_):
            out.append(R.Result(engine="mirsym", name=nm, kind="kernel", status="unsupported" if bad else "vacuous", detail=str(bad[:1])[:300], bodies=sorted(r.ctx.encoded_bodies)))
            continue
        q = [v if isinstance(v, z3.ExprRef) else z3.BoolVal(bool(v)) for v in viol]
        out.append(R.decide(nm, "kernel", z3.Or(*q) if q else z3.BoolVal(False), [z3.Or(*x) for x in (ok_, err_) if x], bodies=sorted(r.ctx.encoded_bodies),
                            desc="merge fails exactly when the two modules share a name and then changes nothing; otherwise the result holds exactly the bindings of both",
                            bounds=f"self {pre or '(empty)'} merged with a module of {len(oth)} method(s); all names arbitrary texts", keydetail="merge", extra={"models": MM.ARC_DOC + MM.MAP_DOC}))
        if out[-1].get("status") == "violated":
            out[-1]["replay"] = {"scenario": "c13_registry", "args": {"op": "merge", "pre": list(pre)}}
    seen = set()
    for r_ in out:
        if r_.get("status") == "violated" and r_.get("key"):
            if r_["key"] in seen:
                r_["status"] = "violated-duplicate"
            seen.add(r_["key"])
    return out
