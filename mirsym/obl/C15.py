"""C15 (response parser part) - the hand-written Response visitor accepts an object exactly when it has an id, exactly one of
result/error and at most one jsonrpc member (null or "2.0"); unknown members are ignored, duplicates rejected.

visit_map is executed from its MIR against a symbolic serde MapAccess: at every step the solver chooses the next key (one of the five
field kinds, or the end of the object, or a key error) and the outcome of reading its value (error / null / a value); the member
sequence is bounded in length.
"""
import re
import z3
from .. import run as R, models as M, mapmodels as MM, prov as P, seqmodels as SQ
from ..sym import Ctx, Executor, Node, Ptr, Opaque, OBJ, to_term, Fork, Unsupported, StrConst, Event

VALIDATION = {}
FIELDS = ["Jsonrpc", "Result", "Error", "Id", "Ignore"]


def _ev(st, what):
    st["events"].append(Event("c15", what, [], [], None, None, "", ""))


def _seq(p):
    return [e.callee for e in p.events if e.kind == "c15"]


def visit_map_paths(types, L):
    b = R.find_body(types, r"^fn response::<impl at types/src/response\.rs:[\d: ]+>::deserialize::<impl at types/src/response\.rs:[\d: ]+>::visit_map\(_1: <response::Response<'de, T> as Deserialize<'de>>::deserialize::Visitor<T>, _2: V\)")
    enums = R.source_tables()["enums"]
    order = enums.get("Field")
    if not order or sorted(order) != sorted(FIELDS):
        raise LookupError(f"enum Field of the Response deserializer is {order} - spec needs update")

    def nkeys(st):
        return len([e for e in st["events"] if e.kind == "c15" and e.callee.startswith("key:")])

    def m_next_key(ex, st, callee, args, dty, site):
        j = nkeys(st)
        sel = z3.BitVec(f"key{j}", 8)          # 0..4 field kinds, 5 end of object, 6 key error
        alts = []
        if j < L:
            for idx, name in enumerate(order):
                def mk(ex_, st_, tr, idx=idx, name=name):
                    _ev(st_, f"key:{name}")
                    return ex_.mk_variant("Result", 0, "Ok", ex_.mk_variant("Option", 1, "Some", ex_.mk_variant("Field", idx, name)))
                alts.append((sel == idx, mk))

        def end(ex_, st_, tr):
            _ev(st_, "end")
            return ex_.mk_variant("Result", 0, "Ok", ex_.mk_variant("Option", 0, "None"))

        def kerr(ex_, st_, tr):
            _ev(st_, "keyerr")
            return ex_.mk_variant("Result", 1, "Err", Opaque(z3.Const(f"error:key{j}", OBJ)))
        alts.append((sel == 5, end))
        alts.append((sel == 6, kerr))
        return Fork(alts)

    def m_next_value(ex, st, callee, args, dty, site):
        j = nkeys(st) - 1
        m = re.search(r"::next_value::<(.*)>$", callee)
        ty = m.group(1) if m else "?"
        ty_n = re.sub(r"std::option::", "", ty)
        depth = 0
        while ty_n.startswith("Option<"):
            depth += 1
            ty_n = ty_n[len("Option<"):-1]
        out = z3.BitVec(f"value{j}", 8)         # 0 a value, 1 null, 2 error

        def val(ex_, st_, tr):
            _ev(st_, f"value:{ty}")
            v = Opaque(z3.Const(f"value{j}:{ty_n}", OBJ))
            for _ in range(depth):
                v = ex_.mk_variant("Option", 1, "Some", v)
            return ex_.mk_variant("Result", 0, "Ok", v)

        def null(ex_, st_, tr):
            _ev(st_, f"null:{ty}")
            if depth == 0:
                # a non-optional member: null is whatever its type makes of it - an error for TwoPointZero / ErrorObject, a value for Id and for payloads
                return ex_.mk_variant("Result", 0, "Ok", Opaque(z3.Const(f"value{j}:null-as-{ty_n}", OBJ)))
            return ex_.mk_variant("Result", 0, "Ok", ex_.mk_variant("Option", 0, "None"))

        def err(ex_, st_, tr):
            _ev(st_, "valueerr")
            return ex_.mk_variant("Result", 1, "Err", Opaque(z3.Const(f"error:value{j}", OBJ)))
        if depth == 0:
            # for a non-optional member `null` is just another value of its type as far as the visitor is concerned: two outcomes
            return Fork([(out == 0, val), (out == 2, err)])
        return Fork([(out == 0, val), (out == 1, null), (out == 2, err)])

    def m_err(tag):
        def f(ex, st, callee, args, dty, site):
            lit = args[0].s if args and isinstance(args[0], StrConst) else "?"
            _ev(st, f"{tag}:{lit}")
            return Opaque(z3.Const(ex.ctx.fresh_name(f"error:{tag}"), OBJ))
        return f
    models = [
        (r"^<V as MapAccess<'_>>::next_key::<", m_next_key),
        (r"^<V as MapAccess<'_>>::next_value::<", m_next_value),
        (r"as params::_::_serde::de::Error>::duplicate_field$", m_err("duplicate_field")),
        (r"as params::_::_serde::de::Error>::missing_field$", m_err("missing_field")),
        (r"^Extensions::new$", lambda ex, st, c, a, d, s: Opaque(z3.Const("extensions", OBJ))),
    ] + list(SQ.TRY_MODELS)
    ctx = P.make_ctx(types, extra_models=models, max_visits=L + 3, max_paths=500000)
    ctx.inline = [M.crate_inliner(types)]
    ex = Executor(ctx)
    return b, ex, ex.run(b)


def response_visitor(types, L):
    b, ex, ps = visit_map_paths(types, L)
    bad = [(p.kind, p.detail) for p in ps if p.kind in ("unsupported", "limit", "unwound", "panic", "diverge")]
    viol, reach = [], {"accepted": [], "rejected": []}
    fi = lambda n: R.field_index("Response", n)
    for p in ps:
        if p.kind != "return":
            continue
        seq = _seq(p)
        pc = p.cond()
        d = z3.simplify(ex.discr_of(p.ret))
        if not z3.is_bv_value(d):
            bad.append(("unsupported", "result discriminant not concrete"))
            continue
        accepted = d.as_long() == 0
        # what the property prescribes for this member sequence
        keys, failed, complete = [], False, False
        pending = None
        vals = {}
        for s in seq:
            if s.startswith("key:"):
                pending = s[4:]
                keys.append(pending)
            elif s in ("keyerr", "valueerr"):
                failed = True
            elif s.startswith(("value:", "null:")):
                vals.setdefault(pending, []).append(s.split(":", 1)[0] + f"@{len(keys) - 1}")
            elif s == "end":
                complete = True
        cnt = {f: keys.count(f) for f in FIELDS}
        dup = any(cnt[f] > 1 for f in ("Jsonrpc", "Result", "Error", "Id"))
        want_accept = (not failed) and complete and not dup and cnt["Id"] == 1 and cnt["Result"] + cnt["Error"] == 1
        (reach["accepted"] if accepted else reach["rejected"]).append(pc)
        why = None
        if accepted != want_accept:
            why = f"members {keys} ({'complete' if complete else 'cut'}{', read error' if failed else ''}): parser {'accepts' if accepted else 'rejects'}, the property says {'accept' if want_accept else 'reject'}"
        elif accepted:
            resp = p.ret.kids[("Ok", 0)]
            resp = ex.read_node(resp)
            idt = str(to_term(MM.value_of(ex, ex.read_node(resp.kids[fi("id")]))))
            iid = keys.index("Id")
            if f"value{iid}:" not in idt:
                why = f"members {keys}: the id of the response is not the id member's value ({idt[:60]})"
            pay = ex.read_node(resp.kids[fi("payload")])
            pt = str(to_term(MM.value_of(ex, pay))) if not isinstance(pay, Node) else " ".join(str(to_term(MM.value_of(ex, ex.read_node(k)))) for k in pay.kids.values())
            ipay = keys.index("Result") if cnt["Result"] else keys.index("Error")
            if f"value{ipay}:" not in pt:
                why = f"members {keys}: the payload is not the result/error member's value"
        if why:
            viol.append((pc, why, keys, seq))
    return b, viol, reach, bad, len(ps)


# ---------------------------------------------------------------- what the (mostly derive-generated) serializers write
def serializer_paths(types, body_rx):
    """runs a Serialize::serialize body against a recording serializer; returns body, executor, paths. Events: struct:<name>, field:<member>=<source place>,
    fielderr:<member>, skip:<member>, scalar:<method>=<source>, leaf:<type>=<source place>, end"""
    b = R.find_body(types, body_rx)

    def target(ex, a):
        v = a
        if isinstance(v, Node):
            v = ex.read_node(v)
        if isinstance(v, Ptr):
            return v.node.name
        if isinstance(v, StrConst):
            return "lit:" + v.s
        return str(to_term(v))

    def m_struct(ex, st, callee, args, dty, site):
        ok = z3.Bool("serialize_struct.ok")
        name = args[1].s if isinstance(args[1], StrConst) else "?"

        def yes(ex_, st_, tr):
            _ev(st_, f"struct:{name}")
            return ex_.mk_variant("Result", 0, "Ok", Opaque(z3.Const("the_struct_serializer", OBJ)))
        return Fork([(ok, yes), (z3.Not(ok), lambda ex_, st_, tr: ex_.mk_variant("Result", 1, "Err", Opaque(z3.Const("error:struct", OBJ))))])

    def m_field(ex, st, callee, args, dty, site):
        j = len([e for e in st["events"] if e.kind == "c15" and e.callee.startswith(("field:", "skip:"))])
        ok = z3.Bool(f"serialize_field{j}.ok")
        name = args[1].s if isinstance(args[1], StrConst) else "?"
        if callee.endswith("::skip_field"):
            def sk(ex_, st_, tr):
                _ev(st_, f"skip:{name}")
                return ex_.mk_variant("Result", 0, "Ok", MM.UNIT)
            return Fork([(ok, sk), (z3.Not(ok), lambda ex_, st_, tr: (_ev(st_, f"fielderr:{name}"), ex_.mk_variant("Result", 1, "Err", Opaque(z3.Const(f"error:field{j}", OBJ))))[1])])
        tgt = target(ex, args[2])

        def yes(ex_, st_, tr):
            _ev(st_, f"field:{name}={tgt}")
            return ex_.mk_variant("Result", 0, "Ok", MM.UNIT)

        def no(ex_, st_, tr):
            _ev(st_, f"fielderr:{name}")
            return ex_.mk_variant("Result", 1, "Err", Opaque(z3.Const(f"error:field{j}", OBJ)))
        return Fork([(ok, yes), (z3.Not(ok), no)])

    def m_end(ex, st, callee, args, dty, site):
        _ev(st, "end")
        return ex.mk_variant("Result", 0, "Ok", Opaque(z3.Const("serializer_ok", OBJ)))

    def m_scalar(ex, st, callee, args, dty, site):
        meth = callee.rsplit("::", 1)[1]
        _ev(st, f"scalar:{meth}=" + ",".join(target(ex, a) for a in args[1:]))
        return ex.mk_variant("Result", 0, "Ok", Opaque(z3.Const("serializer_ok", OBJ)))

    def m_leaf(ex, st, callee, args, dty, site):
        m = re.match(r"^<(.*) as (?:params::_::_serde::)?Serialize>::serialize::<", callee)
        _ev(st, f"leaf:{m.group(1) if m else '?'}={target(ex, args[0])}")
        return ex.mk_variant("Result", 0, "Ok", Opaque(z3.Const("serializer_ok", OBJ)))
    models = [
        (r"^<_*S as params::_::_serde::Serializer>::serialize_struct$", m_struct),
        (r"as SerializeStruct>::(serialize_field::<.*|skip_field)$", m_field),
        (r"as SerializeStruct>::end$", m_end),
        (r"^<_*S as params::_::_serde::Serializer>::serialize_\w+$", m_scalar),
        (r"^<.* as (params::_::_serde::)?Serialize>::serialize::<_*S>$", m_leaf),
    ] + list(SQ.TRY_MODELS)
    ctx = P.make_ctx(types, extra_models=models, max_paths=4000)
    ctx.inline = [M.crate_inliner(types)]
    return b, Executor(ctx)


# struct name -> (file::struct key, body regex, [(member, field, optional?)]) : the members JSON-RPC 2.0 gives each object, and the field each is written from
WIRE_STRUCTS = {
    "Request": ("types/src/request.rs::Request", r"^fn request::_::<impl at types/src/request\.rs:[\d: ]+>::serialize\(_1: &request::Request<'_>, _2: __S\)",
                [("jsonrpc", "jsonrpc", False), ("id", "id", False), ("method", "method", False), ("params", "params", True)]),
    "Notification": ("types/src/request.rs::Notification", r"^fn request::_::<impl at types/src/request\.rs:[\d: ]+>::serialize\(_1: &Notification<'_, T>, _2: __S\)",
                     [("jsonrpc", "jsonrpc", False), ("method", "method", False), ("params", "params", False)]),
    "ErrorObject": ("types/src/error.rs::ErrorObject", r"^fn error::_::<impl at types/src/error\.rs:[\d: ]+>::serialize\(_1: &ErrorObject<'_>, _2: __S\)",
                    [("code", "code", False), ("message", "message", False), ("data", "data", True)]),
    "SubscriptionPayload": ("types/src/response.rs::SubscriptionPayload", r"^fn response::_::<impl at types/src/response\.rs:[\d: ]+>::serialize\(_1: &SubscriptionPayload<'_, T>, _2: __S\)",
                            [("subscription", "subscription", False), ("result", "result", False)]),
    "SubscriptionPayloadError": ("types/src/response.rs::SubscriptionPayloadError", r"^fn response::_::<impl at types/src/response\.rs:[\d: ]+>::serialize\(_1: &SubscriptionPayloadError<'_, T>, _2: __S\)",
                                 [("subscription", "subscription", False), ("error", "error", False)]),
}


def wire_struct(types, name):
    key, rx, members = WIRE_STRUCTS[name]
    b, ex = serializer_paths(types, rx)
    fidx = {fld: R.field_index(key, fld) for _, fld, _ in members}
    opt = [(mem, fld) for mem, fld, o in members if o]
    pc0 = [z3.ULE(z3.BitVec(f"arg1.*.{fidx[fld]}.discr", 64), 1) for _, fld in opt]
    ps = ex.run(b, pc0=pc0)
    bad = [(p.kind, p.detail) for p in ps if p.kind != "return"]
    viol, reach = [], {"all-members": [], "failed": []}
    if opt:
        reach["optional-absent"] = []
    for p in ps:
        if p.kind != "return":
            continue
        pc = p.cond()
        seq = _seq(p)
        d = z3.simplify(ex.discr_of(p.ret))
        if not z3.is_bv_value(d):
            bad.append(("unsupported", "result discriminant"))
            continue
        failed = any(s.startswith("fielderr:") for s in seq) or not any(s.startswith("struct:") for s in seq)
        if failed:
            reach["failed"].append(pc)
            if d.as_long() != 1 or "end" in seq:
                viol.append((pc, "a failed member write does not end the serialisation with that error", seq))
            continue
        if d.as_long() != 0:
            viol.append((pc, "error result although every write succeeded", seq))
            continue
        fields = [s[len("field:"):] for s in seq if s.startswith("field:")]
        # every combination of the optional members being present / absent
        import itertools as _it
        for present in _it.product((True, False), repeat=len(opt)):
            world = z3.And(pc, *[(z3.BitVec(f"arg1.*.{fidx[fld]}.discr", 64) == (1 if pr else 0)) for (_, fld), pr in zip(opt, present)])
            absent = {mem for (mem, _), pr in zip(opt, present) if not pr}
            want = [f"{mem}=arg1.*.{fidx[fld]}" for mem, fld, _ in members if mem not in absent]
            ok = fields == want and seq[0] == f"struct:{name}" and seq[-1] == "end" and seq.count("end") == 1
            if ok:
                reach["all-members" if not absent else "optional-absent"].append(world)
            else:
                viol.append((world, f"a {name} with optional members {sorted(absent) or 'all'} {'absent' if absent else 'present'} is written as {fields}, expected {want}", seq))
    return b, viol, reach, bad


def wire_scalars(types):
    """TwoPointZero -> the string "2.0"; Id / SubscriptionId (untagged): null / the number / the string itself; ErrorCode -> its integer code"""
    out = []
    enums = R.source_tables()["enums"]
    # TwoPointZero
    b, ex = serializer_paths(types, r"^fn params::<impl at types/src/params\.rs:[\d: ]+>::serialize\(_1: &TwoPointZero, _2: S\)")
    ps = ex.run(b)
    bad = [(p.kind, p.detail) for p in ps if p.kind != "return"]
    viol = [p.cond() for p in ps if p.kind == "return" and _seq(p) != ["scalar:serialize_str=lit:2.0"]]
    out.append(("TwoPointZero", b, viol, {"written": [p.cond() for p in ps if p.kind == "return"]}, bad, 'the version member is written as the string "2.0"'))
    # Id and SubscriptionId
    for ty, rx, want in (("Id", r"^fn params::_::<impl at types/src/params\.rs:[\d: ]+>::serialize\(_1: &Id<'_>, _2: __S\)",
                          {"Null": r"scalar:serialize_unit=", "Number": r"leaf:u64=arg1\.\*\.Number:0", "Str": r"leaf:Cow<'_, str>=arg1\.\*\.Str:0"}),
                         ("SubscriptionId", r"^fn params::_::<impl at types/src/params\.rs:[\d: ]+>::serialize\(_1: &SubscriptionId<'_>, _2: __S\)",
                          {"Num": r"leaf:u64=arg1\.\*\.Num:0", "Str": r"leaf:(Cow<'_, str>|String|std::string::String)=arg1\.\*\.Str:0"})):
        variants = enums[ty]
        if sorted(variants) != sorted(want):
            raise LookupError(f"enum {ty} has variants {variants} - spec needs update")
        b, ex = serializer_paths(types, rx)
        dv = z3.BitVec("arg1.*.discr", 64)
        ps = ex.run(b, pc0=[z3.ULT(dv, len(variants))])
        bad = [(p.kind, p.detail) for p in ps if p.kind != "return"]
        viol, reach = [], {v: [] for v in variants}
        for p in ps:
            if p.kind != "return":
                continue
            seq = _seq(p)
            for i, v in enumerate(variants):
                world = z3.And(p.cond(), dv == i)
                if len(seq) == 1 and re.fullmatch(want[v], seq[0]):
                    reach[v].append(world)
                else:
                    viol.append((world, f"{ty}::{v} is written as {seq}", seq))
        out.append((ty, b, viol, reach, bad, f"{ty} is written untagged: " + ", ".join(f"{v} -> {'null' if 'unit' in w else 'its own ' + ('number' if 'u64' in w else 'string')}" for v, w in want.items())))
    # ErrorCode -> serialize_i32(self.code())
    b, ex = serializer_paths(types, r"^fn error::<impl at types/src/error\.rs:[\d: ]+>::serialize\(_1: &ErrorCode, _2: S\)")
    ex.ctx.models.insert(0, (re.compile(r"^ErrorCode::code$"), lambda ex_, st, c, a, d, s: z3.BitVec("the_code_of_this_kind", 32)))
    ps = ex.run(b)
    bad = [(p.kind, p.detail) for p in ps if p.kind != "return"]
    viol = [p.cond() for p in ps if p.kind == "return" and _seq(p) != ["scalar:serialize_i32=the_code_of_this_kind"]]
    out.append(("ErrorCode", b, viol, {"written": [p.cond() for p in ps if p.kind == "return"]}, bad, "an error kind is written as the integer ErrorCode::code() gives for it (decided for all codes by the Kani harnesses)"))
    return out


def wire_deserializers(types):
    """the two hand-written readers of scalar members.
    TwoPointZero: handed to the deserializer as a string visitor (so every representation of the string - borrowed, owned, unescaped - reaches visit_str), which accepts exactly "2.0".
    ErrorCode: the member is read as an i32 (an integer outside i32 is refused by serde, never wrapped) and that very value goes through From<i32>."""
    out = []
    # ---- TwoPointZero::deserialize
    b = R.find_body(types, r"^fn params::<impl at types/src/params\.rs:[\d: ]+>::deserialize\(_1: D\) -> Result<TwoPointZero,")

    def m_deser(ex, st, callee, args, dty, site):
        meth = re.search(r"Deserializer<'_>>::(deserialize_\w+)", callee).group(1)
        mv = re.search(r"::deserialize_\w+::<(.*)>$", callee)
        _ev(st, f"driver:{meth}:{mv.group(1) if mv else ''}")
        return Opaque(z3.Const("result_of_the_visitor", OBJ))

    def m_leaf(ex, st, callee, args, dty, site):
        m = re.match(r"^<(.*) as Deserialize<'_>>::deserialize::<", callee)
        _ev(st, f"leaf:{m.group(1) if m else '?'}")
        okb = z3.Bool("leaf.ok")
        mi = re.fullmatch(r"[iu](8|16|32|64|128)", m.group(1)) if m else None
        val = z3.BitVec("leaf.value", int(mi.group(1))) if mi else Opaque(z3.Const("leaf.value", OBJ))
        return Fork([(okb, lambda ex_, st_, tr: ex_.mk_variant("Result", 0, "Ok", val)), (z3.Not(okb), lambda ex_, st_, tr: ex_.mk_variant("Result", 1, "Err", Opaque(z3.Const("leaf.error", OBJ))))])
    models = [(r"^<D as params::_::_serde::Deserializer<'_>>::deserialize_\w+::<", m_deser), (r"^<.* as Deserialize<'_>>::deserialize::<D>$", m_leaf)] + list(SQ.TRY_MODELS)
    ctx = P.make_ctx(types, extra_models=models, max_paths=200)
    ctx.inline = []
    ex = Executor(ctx)
    ps = ex.run(b)
    bad = [(p.kind, p.detail) for p in ps if p.kind != "return"]
    viol, reach = [], []
    for p in ps:
        if p.kind != "return":
            continue
        seq = _seq(p)
        reach.append(p.cond())
        ok = len(seq) == 1 and re.fullmatch(r"driver:deserialize_(str|string|any|identifier):.*TwoPointZeroVisitor.*", seq[0]) is not None and "result_of_the_visitor" in str(to_term(ex.read_node(p.ret) if isinstance(p.ret, Node) and p.ret.val is not None else p.ret)) 
        if not ok:
            viol.append((p.cond(), f"the version member is read by {seq}", seq))
    out.append(("prov:TwoPointZero::deserialize:string-visitor", b, viol, {"read": reach}, bad,
                "the version member is handed to the deserializer as a string visitor (deserialize_str with the crate's own visitor) and its verdict is returned as is - "
                "so any representation of the string, also one written with JSON escapes, is judged by visit_str", "c15_parse"))
    # ---- the visitor: exactly "2.0"
    try:
        vb = R.find_body(types, r"^fn params::<impl at types/src/params\.rs:[\d: ]+>::visit_str\(_1: TwoPointZeroVisitor, _2: &str\)")
    except LookupError as e_:
        vb = None
        out.append(("kernel:TwoPointZeroVisitor::visit_str", b, [], {"visitor": []}, [("site-missing", str(e_)[:200])], 'the version visitor accepts exactly the string "2.0"', "c15_parse"))
    if vb is not None:
        is20 = z3.Bool('text == "2.0"')

        def m_streq(ex, st, callee, args, dty, site):
            lits = [a.s for a in args if isinstance(a, StrConst)]
            if lits == ["2.0"]:
                return is20 if callee.endswith("::eq") else z3.Not(is20)
            return NotImplemented
        ctx = P.make_ctx(types, extra_models=[(r"^<str as PartialEq>::(eq|ne)$", m_streq), (r"as params::_::_serde::de::Error>::invalid_value$", lambda ex_, st, c, a, d, s_: Opaque(z3.Const("invalid_value", OBJ)))], max_paths=200)
        ctx.inline = []
        ex = Executor(ctx)
        ps = ex.run(vb)
        bad = [(p.kind, p.detail) for p in ps if p.kind != "return"]
        viol, reach = [], {"accepted": [], "refused": []}
        for p in ps:
            if p.kind != "return":
                continue
            d = z3.simplify(ex.discr_of(p.ret))
            if not z3.is_bv_value(d):
                bad.append(("unsupported", "result discriminant"))
                continue
            if d.as_long() == 0:
                reach["accepted"].append(z3.And(p.cond(), is20))
                viol.append((z3.And(p.cond(), z3.Not(is20)), "a version other than \"2.0\" is accepted", []))
            else:
                reach["refused"].append(z3.And(p.cond(), z3.Not(is20)))
                viol.append((z3.And(p.cond(), is20), "the version \"2.0\" is refused", []))
        out.append(("kernel:TwoPointZeroVisitor::visit_str", vb, viol, reach, bad, 'the version visitor accepts exactly the string "2.0"', "c15_parse"))
    # ---- ErrorCode::deserialize
    b = R.find_body(types, r"^fn error::<impl at types/src/error\.rs:[\d: ]+>::deserialize\(_1: D\) -> Result<ErrorCode,")
    models = [(r"^<.* as Deserialize<'_>>::deserialize::<D>$", m_leaf),
              (r"^<ErrorCode as From<i32>>::from$", lambda ex_, st, c, a, d, s_: (_ev(st, "from:" + str(to_term(a[0]))), Opaque(z3.Const("kind_of_code", OBJ)))[1])] + list(SQ.TRY_MODELS)
    ctx = P.make_ctx(types, extra_models=models, max_paths=200)
    ctx.inline = []
    ex = Executor(ctx)
    ps = ex.run(b)
    bad = [(p.kind, p.detail) for p in ps if p.kind != "return"]
    okb = z3.Bool("leaf.ok")
    viol, reach = [], {"read": [], "refused": []}
    for p in ps:
        if p.kind != "return":
            continue
        seq = _seq(p)
        d = z3.simplify(ex.discr_of(p.ret))
        if not z3.is_bv_value(d):
            bad.append(("unsupported", "result discriminant"))
            continue
        pc = p.cond()
        if d.as_long() == 0:
            reach["read"].append(z3.And(pc, okb))
            good = seq == ["leaf:i32", "from:leaf.value"] and "kind_of_code" in str(to_term(ex.read_node(p.ret.kids[("Ok", 0)])))
            viol.append((z3.Or(z3.And(pc, z3.Not(okb)), z3.And(pc, z3.BoolVal(not good))), f"the error code is read as {seq}", seq))
        else:
            reach["refused"].append(z3.And(pc, z3.Not(okb)))
            good = seq == ["leaf:i32"]
            viol.append((z3.Or(z3.And(pc, okb), z3.And(pc, z3.BoolVal(not good))), f"a refused code: {seq}", seq))
    out.append(("prov:ErrorCode::deserialize:i32-then-from", b, viol, reach, bad,
                "an error code member is read as an i32 - so an integer outside i32 is refused by the reader, never wrapped - and exactly that value goes through From<i32> "
                "(decided for all i32 by the Kani harnesses); a read error is handed on", "c15_parse"))
    return out


def response_serializer(types):
    """<Response as Serialize>::serialize against a recording serializer: the members written, for every shape of the response and every failure point"""
    b = R.find_body(types, r"^fn response::<impl at types/src/response\.rs:[\d: ]+>::serialize\(_1: &response::Response<'_, T>, _2: S\)")
    fi = {f: R.field_index("types/src/response.rs::Response", f) for f in ("jsonrpc", "payload", "id")}
    payload_variants = R.source_tables()["enums"]["ResponsePayload"]

    def target(ex, a):
        v = a
        if isinstance(v, Node):
            v = ex.read_node(v)
        return v.node.name if isinstance(v, Ptr) else str(to_term(v))

    def m_struct(ex, st, callee, args, dty, site):
        ok = z3.Bool("serialize_struct.ok")
        name = args[1].s if isinstance(args[1], StrConst) else "?"

        def yes(ex_, st_, tr):
            _ev(st_, f"struct:{name}")
            return ex_.mk_variant("Result", 0, "Ok", Opaque(z3.Const("the_struct_serializer", OBJ)))
        return Fork([(ok, yes), (z3.Not(ok), lambda ex_, st_, tr: ex_.mk_variant("Result", 1, "Err", Opaque(z3.Const("error:struct", OBJ))))])

    def m_field(ex, st, callee, args, dty, site):
        j = len([e for e in st["events"] if e.kind == "c15" and e.callee.startswith("field:")])
        ok = z3.Bool(f"serialize_field{j}.ok")
        name = args[1].s if isinstance(args[1], StrConst) else "?"
        tgt = target(ex, args[2])

        def yes(ex_, st_, tr):
            _ev(st_, f"field:{name}={tgt}")
            return ex_.mk_variant("Result", 0, "Ok", MM.UNIT)

        def no(ex_, st_, tr):
            _ev(st_, f"fielderr:{name}")
            return ex_.mk_variant("Result", 1, "Err", Opaque(z3.Const(f"error:field{j}", OBJ)))
        return Fork([(ok, yes), (z3.Not(ok), no)])

    def m_end(ex, st, callee, args, dty, site):
        _ev(st, "end")
        return ex.mk_variant("Result", 0, "Ok", Opaque(z3.Const("serializer_ok", OBJ)))
    models = [
        (r"^<S as params::_::_serde::Serializer>::serialize_struct$", m_struct),
        (r"as SerializeStruct>::serialize_field::<", m_field),
        (r"as SerializeStruct>::end$", m_end),
    ] + list(SQ.TRY_MODELS)
    ctx = P.make_ctx(types, extra_models=models, max_paths=2000)
    ctx.inline = [M.crate_inliner(types)]
    ex = Executor(ctx)
    has_version = z3.BitVec(f"arg1.*.{fi['jsonrpc']}.discr", 64) == 1
    pay = z3.BitVec(f"arg1.*.{fi['payload']}.discr", 64)
    # a well-typed value: the two enums hold one of their variants
    ps = ex.run(b, pc0=[z3.ULE(z3.BitVec(f"arg1.*.{fi['jsonrpc']}.discr", 64), 1), z3.ULT(pay, len(payload_variants))])
    bad = [(p.kind, p.detail) for p in ps if p.kind != "return"]
    viol, reach = [], {"success": [], "error": [], "failed": [], "no-version": []}
    for p in ps:
        if p.kind != "return":
            continue
        pc = p.cond()
        seq = _seq(p)
        d = z3.simplify(ex.discr_of(p.ret))
        if not z3.is_bv_value(d):
            bad.append(("unsupported", "result discriminant"))
            continue
        failed = any(s.startswith("fielderr:") for s in seq) or not any(s.startswith("struct:") for s in seq)
        if failed:
            reach["failed"].append(pc)
            # a serializer error is handed on and the object is not closed
            if d.as_long() != 1 or "end" in seq:
                viol.append((pc, "a failed member write does not end the serialisation with that error", seq))
            continue
        if d.as_long() != 0:
            viol.append((pc, "error result although every write succeeded", seq))
            continue
        fields = [s[len("field:"):] for s in seq if s.startswith("field:")]
        names = [f.split("=", 1)[0] for f in fields]
        # the members, in terms of the response's own shape
        for which, idx in (("success", payload_variants.index("Success")), ("error", payload_variants.index("Error"))):
            member = "result" if which == "success" else "error"
            for ver in (True, False):
                world = z3.And(pc, pay == idx, has_version if ver else z3.Not(has_version))
                want = (["jsonrpc"] if ver else []) + ["id", member]
                ok = (sorted(names) == sorted(want) and seq[0] == "struct:Response" and seq[-1] == "end" and seq.count("end") == 1
                      and all(re.fullmatch(rf"arg1\.\*\.{fi['id']}", f.split("=", 1)[1]) for f in fields if f.startswith("id="))
                      and all(re.fullmatch(rf"arg1\.\*\.{fi['payload']}\.{'Success' if which == 'success' else 'Error'}:0", f.split("=", 1)[1]) for f in fields if f.startswith(member + "="))
                      and all(re.fullmatch(rf"arg1\.\*\.{fi['jsonrpc']}\.Some:0", f.split("=", 1)[1]) for f in fields if f.startswith("jsonrpc=")))
                if ok:
                    reach[which].append(world)
                    if not ver:
                        reach["no-version"].append(world)
                else:
                    viol.append((world, f"a {which} response {'with' if ver else 'without'} a version member is written as members {fields}", seq))
    return b, viol, reach, bad


def field_names(types):
    """the key visitor: "jsonrpc" / "result" / "error" / "id" select their field, every other key is ignored"""
    b = R.find_body(types, r"^fn response::<impl at types/src/response\.rs:[\d: ]+>::deserialize::<impl at [^>]*>::deserialize::<impl at [^>]*>::visit_str\(_1: FieldVisitor, _2: &str\)")
    key = {}

    def m_eq(ex_, st, callee, args, dty, site):
        lit = None
        for a in args:
            if isinstance(a, StrConst):
                lit = a.s
        if lit is None:
            raise Unsupported("str comparison with a non-literal")
        key.setdefault(lit, z3.Bool(f"key_is:{lit}"))
        return key[lit]
    ctx = P.make_ctx(types, extra_models=[(r"^<str as PartialEq>::eq$|^core::str::traits::<impl PartialEq for str>::eq$", m_eq)])
    ctx.inline = []
    ex = Executor(ctx)
    ps = ex.run(b)
    bad = [(p.kind, p.detail) for p in ps if p.kind != "return"]
    lits = list(key)
    excl = [z3.Not(z3.And(key[a], key[c])) for i, a in enumerate(lits) for c in lits[i + 1:]]
    want = {"jsonrpc": "Jsonrpc", "result": "Result", "error": "Error", "id": "Id"}
    order = R.source_tables()["enums"]["Field"]
    viol, reach = [], []
    for p in ps:
        if p.kind != "return" or not ex.feasible(list(p.pc) + excl):
            continue
        pc = z3.And(p.cond(), *excl)
        reach.append(pc)
        payload = ex.read_node(p.ret.kids[("Ok", 0)]) if isinstance(p.ret, Node) and ("Ok", 0) in p.ret.kids else None
        sel = None
        if isinstance(payload, Node):
            dd = z3.simplify(ex.discr_of(payload))
            if z3.is_bv_value(dd):
                sel = order[dd.as_long()]
        chosen = [l for l in lits if not ex.feasible(list(p.pc) + excl + [z3.Not(key[l])])]
        exp = want.get(chosen[0], "Ignore") if chosen else "Ignore"
        if sel != exp:
            viol.append(pc)
            VALIDATION["field_names"] = f"key {chosen[:1]} selects {sel}, expected {exp}"
    if sorted(l for l in lits) != sorted(want):
        viol.append(z3.BoolVal(True))
        VALIDATION["field_names"] = f"literals compared: {lits}"
    return b, viol, reach, bad


def _native_text(keys, seq):
    """a JSON object text with that member sequence (values by outcome: null where the model read null)"""
    parts = []
    vi = [s for s in seq if s.startswith(("value:", "null:", "valueerr"))]
    for i, k in enumerate(keys):
        o = vi[i] if i < len(vi) else "value:"
        isnull = o.startswith("null:")
        if k == "Jsonrpc":
            parts.append('"jsonrpc":' + ("null" if isnull else '"2.0"'))
        elif k == "Result":
            parts.append('"result":' + ("null" if isnull else "7"))
        elif k == "Error":
            parts.append('"error":' + ("null" if isnull else '{"code":-32000,"message":"m"}'))
        elif k == "Id":
            parts.append('"id":' + ("null" if isnull else "1"))
        else:
            parts.append(f'"x{i}":' + ("null" if isnull else "[1]"))
    return "{" + ",".join(parts) + "}"



def _native_battery(out, scenario, vectors, what):
    """validation, not the deciding step: the native scenario (real crates, oracle written from the property text) on fixed vectors must report nothing
    when every obligation is discharged; a disagreement means an obligation or the oracle is wrong => undecided"""
    val = R.validate_encoding(scenario, vectors, lambda v: {}, [])
    VALIDATION[what] = val
    if val.get("native_violations") and all(r.get("status") == "discharged" for r in out):
        out.append(R.Result(engine="mirsym", name="validation:" + what, kind="validation", status="native-battery-disagrees",
                            detail=f"{val['native_violations']} native violation(s) on the validation vectors although every obligation is discharged", bodies=[]))
    return out


def obligations(tier, seed):
    types = R.bodies("types")
    out = []
    L = 4 if tier == "quick" else 5
    b, viol, reach, bad, npaths = response_visitor(types, L)
    bounds = f"member sequences of <= {L} members over {{jsonrpc, result, error, id, other}}, in any order / duplication; every read outcome (value / null / error) of every member; key errors"
    reach_l = R.live_reach(viol, reach, bad)
    if bad or not all(reach_l):
        out.append(R.Result(engine="mirsym", name="visitor:Response::visit_map", kind="kernel", status="unsupported" if bad else "vacuous",
                            detail=str(bad[:1] or {k: len(v) for k, v in reach.items()})[:300], bodies=[b.name]))
    else:
        viol.sort(key=lambda x: len(x[2]))
        q = z3.Or(*[v[0] for v in viol[:80]]) if viol else z3.BoolVal(False)
        r = R.decide("visitor:Response::visit_map:accepts-exactly-valid-objects", "kernel", q, [z3.Or(*v[:200]) for v in reach_l], bodies=[b.name], bounds=bounds,
                     desc="accepted iff: no read error, exactly one id, exactly one of result/error, at most one jsonrpc, no known member twice; the accepted response carries the id "
                          "member's value and the result/error member's value", extra={"paths": npaths}, keydetail="response-visitor")
        if r["status"] == "violated":
            pc, why, keys, seq = viol[0]
            r["detail"] = why
            r["key"] = "mirsym:c15:response-visitor:" + ",".join(keys)
            r["replay"] = {"scenario": "c15_response", "args": {"text": _native_text(keys, seq)}}
        out.append(r)
    b, viol, reach, bad = field_names(types)
    reach_l = R.live_reach(viol, reach, bad)
    if bad or not reach_l[0]:
        out.append(R.Result(engine="mirsym", name="kernel:Response::Field::visit_str", kind="kernel", status="unsupported", detail=str(bad[:1])[:300], bodies=[b.name]))
    else:
        out.append(R.decide("kernel:Response::Field::visit_str:member-names", "kernel", z3.Or(*viol) if viol else z3.BoolVal(False), [z3.Or(*reach_l[0])], bodies=[b.name],
                            desc='the keys "jsonrpc", "result", "error", "id" select their member; every other key is ignored', bounds="all key strings (one Boolean per compared literal)",
                            keydetail="response-field-names", replay=dict(scenario="c15_response", vars={}, fixed={"battery": True}, region=z3.BoolVal(True))))
    b, viol, reach, bad = response_serializer(types)
    reach_l = R.live_reach(viol, reach, bad)
    if bad or not all(reach_l):
        out.append(R.Result(engine="mirsym", name="order:Response::serialize", kind="order", status="unsupported" if bad else "vacuous",
                            detail=str(bad[:1] or {k: len(v) for k, v in reach.items()})[:300], bodies=[b.name]))
    else:
        r = R.decide("order:Response::serialize:members", "order", z3.Or(*[v[0] for v in viol]) if viol else z3.BoolVal(False), [z3.Or(*v) for v in reach_l], bodies=[b.name],
                     desc='what is written for a response is one object "Response" with exactly: jsonrpc (iff the value has a version), id = the value\'s own id, and exactly one of '
                          'result / error = the value\'s own payload; a failing member write ends the serialisation with that error and the object is not closed',
                     bounds="every shape of the response (version present or not, success or error) and every failure point of the serializer it is given (generic S: any serde serializer)",
                     keydetail="response-serializer", replay=dict(scenario="c15_serialize", vars={}, fixed={}, region=z3.BoolVal(True)))
        if r["status"] == "violated":
            s_ = z3.Solver()
            for pc, why, seq in viol:
                s_.push()
                s_.add(pc)
                if s_.check() == z3.sat:
                    r["detail"] = f"{why}: {seq}"
                    s_.pop()
                    break
                s_.pop()
        out.append(r)
    def first_sat(viol):
        s_ = z3.Solver()
        for v in viol:
            pc, why, seq = v if isinstance(v, tuple) else (v, "unexpected writes", [])
            s_.push()
            s_.add(pc)
            if s_.check() == z3.sat:
                s_.pop()
                return f"{why}: {seq}"
            s_.pop()
        return ""
    units = [(f"order:{n}::serialize:members", ) + wire_struct(types, n) + (f"a {n} is written as one object with exactly the members JSON-RPC 2.0 gives it - "
              + ", ".join(f"{mem}{' (only when present)' if o else ''}" for mem, _, o in WIRE_STRUCTS[n][2]) + " - each from the field of that name, in that order; a failing write ends the serialisation with that error",)
             for n in WIRE_STRUCTS]
    units = [u + ("c15_serialize",) for u in units]
    units += [(f"kernel:{ty}::serialize", b_, viol_, reach_, bad_, desc_, "c15_serialize") for ty, b_, viol_, reach_, bad_, desc_ in wire_scalars(types)]
    units += wire_deserializers(types)
    for name, b, viol, reach, bad, desc, scen in units:
        reach_l = R.live_reach(viol, reach, bad)
        if bad or not all(reach_l):
            out.append(R.Result(engine="mirsym", name=name, kind="order", status="unsupported" if bad else "vacuous", detail=str(bad[:1] or {k: len(v) for k, v in reach.items()})[:300], bodies=[b.name]))
            continue
        qs = R._viol_terms(viol)
        r = R.decide(name, "order", z3.Or(*qs) if qs else z3.BoolVal(False), [z3.Or(*v) for v in reach_l], bodies=[b.name], desc=desc,
                     bounds="every presence combination of the optional members / every variant; every failure point of the (generic) serializer; derive-generated code as rustc expanded it",
                     keydetail="wire:" + name.split(":")[1], replay=dict(scenario=scen, vars={}, fixed={}, region=z3.BoolVal(True)))
        if r["status"] == "violated":
            r["detail"] = first_sat(viol)
        out.append(r)
    return _native_battery(out, "c15_response", [{"battery": True}], "native-member-sequences")
