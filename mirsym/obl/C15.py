"""C15 (response parser part) - the hand-written Response visitor accepts an object exactly when it has an id, exactly one of
result/error and at most one jsonrpc member (null or "2.0"); unknown members are ignored, duplicates rejected.

visit_map is executed from its MIR against a symbolic serde MapAccess: at every step the solver chooses the next key (one of the five
field kinds, or the end of the object, or a key error) and the outcome of reading its value (error / null / a value); the member
sequence is bounded in length.
"""
import re
import z3
from .. import run as R, models as M, mapmodels as MM, prov as P, seqmodels as SQ
from ..sym import Ctx, Executor, Node, Ptr, Opaque, OBJ, to_term, Fork, Unsupported, StrConst, Event

VALIDATION = {}
FIELDS = ["Jsonrpc", "Result", "Error", "Id", "Ignore"]


def _ev(st, what):
    st["events"].append(Event("c15", what, [], [], None, None, "", ""))


def _seq(p):
    return [e.callee for e in p.events if e.kind == "c15"]


def visit_map_paths(types, L):
    b = R.find_body(types, r"^fn response::<impl at types/src/response\.rs:[\d: ]+>::deserialize::<impl at types/src/response\.rs:[\d: ]+>::visit_map\(_1: <response::Response<'de, T> as Deserialize<'de>>::deserialize::Visitor<T>, _2: V\)")
    enums = R.source_tables()["enums"]
    order = enums.get("Field")
    if not order or sorted(order) != sorted(FIELDS):
        raise LookupError(f"enum Field of the Response deserializer is {order} - spec needs update")

    def nkeys(st):
        return len([e for e in st["events"] if e.kind == "c15" and e.callee.startswith("key:")])

    def m_next_key(ex, st, callee, args, dty, site):
        j = nkeys(st)
        sel = z3.BitVec(f"key{j}", 8)          # 0..4 field kinds, 5 end of object, 6 key error
        alts = []
        if j < L:
            for idx, name in enumerate(order):
                def mk(ex_, st_, tr, idx=idx, name=name):
                    _ev(st_, f"key:{name}")
                    return ex_.mk_variant("Result", 0, "Ok", ex_.mk_variant("Option", 1, "Some", ex_.mk_variant("Field", idx, name)))
                alts.append((sel == idx, mk))

        def end(ex_, st_, tr):
            _ev(st_, "end")
            return ex_.mk_variant("Result", 0, "Ok", ex_.mk_variant("Option", 0, "None"))

        def kerr(ex_, st_, tr):
            _ev(st_, "keyerr")
            return ex_.mk_variant("Result", 1, "Err", Opaque(z3.Const(f"error:key{j}", OBJ)))
        alts.append((sel == 5, end))
        alts.append((sel == 6, kerr))
        return Fork(alts)

    def m_next_value(ex, st, callee, args, dty, site):
        j = nkeys(st) - 1
        m = re.search(r"::next_value::<(.*)>$", callee)
        ty = m.group(1) if m else "?"
        ty_n = re.sub(r"std::option::", "", ty)
        depth = 0
        while ty_n.startswith("Option<"):
            depth += 1
            ty_n = ty_n[len("Option<"):-1]
        out = z3.BitVec(f"value{j}", 8)         # 0 a value, 1 null, 2 error

        def val(ex_, st_, tr):
            _ev(st_, f"value:{ty}")
            v = Opaque(z3.Const(f"value{j}:{ty_n}", OBJ))
            for _ in range(depth):
                v = ex_.mk_variant("Option", 1, "Some", v)
            return ex_.mk_variant("Result", 0, "Ok", v)

        def null(ex_, st_, tr):
            _ev(st_, f"null:{ty}")
            if depth == 0:
                # a non-optional member: null is whatever its type makes of it - an error for TwoPointZero / ErrorObject, a value for Id and for payloads
                return ex_.mk_variant("Result", 0, "Ok", Opaque(z3.Const(f"value{j}:null-as-{ty_n}", OBJ)))
            return ex_.mk_variant("Result", 0, "Ok", ex_.mk_variant("Option", 0, "None"))

        def err(ex_, st_, tr):
            _ev(st_, "valueerr")
            return ex_.mk_variant("Result", 1, "Err", Opaque(z3.Const(f"error:value{j}", OBJ)))
        if depth == 0:
            # for a non-optional member `null` is just another value of its type as far as the visitor is concerned: two outcomes
            return Fork([(out == 0, val), (out == 2, err)])
        return Fork([(out == 0, val), (out == 1, null), (out == 2, err)])

    def m_err(tag):
        def f(ex, st, callee, args, dty, site):
            lit = args[0].s if args and isinstance(args[0], StrConst) else "?"
            _ev(st, f"{tag}:{lit}")
            return Opaque(z3.Const(ex.ctx.fresh_name(f"error:{tag}"), OBJ))
        return f
    models = [
        (r"^<V as MapAccess<'_>>::next_key::<", m_next_key),
        (r"^<V as MapAccess<'_>>::next_value::<", m_next_value),
        (r"as params::_::_serde::de::Error>::duplicate_field$", m_err("duplicate_field")),
        (r"as params::_::_serde::de::Error>::missing_field$", m_err("missing_field")),
        (r"^Extensions::new$", lambda ex, st, c, a, d, s: Opaque(z3.Const("extensions", OBJ))),
    ] + list(SQ.TRY_MODELS)
    ctx = P.make_ctx(types, extra_models=models, max_visits=L + 3, max_paths=500000)
    ctx.inline = [M.crate_inliner(types)]
    ex = Executor(ctx)
    return b, ex, ex.run(b)


def response_visitor(types, L):
    b, ex, ps = visit_map_paths(types, L)
    bad = [(p.kind, p.detail) for p in ps if p.kind in ("unsupported", "limit", "unwound", "panic", "diverge")]
    viol, reach = [], {"accepted": [], "rejected": []}
    fi = lambda n: R.field_index("Response", n)
    for p in ps:
        if p.kind != "return":
            continue
        seq = _seq(p)
        pc = p.cond()
        d = z3.simplify(ex.discr_of(p.ret))
        if not z3.is_bv_value(d):
            bad.append(("unsupported", "result discriminant not concrete"))
            continue
        accepted = d.as_long() == 0
        # what the property prescribes for this member sequence
        keys, failed, complete = [], False, False
        pending = None
        vals = {}
        for s in seq:
            if s.startswith("key:"):
                pending = s[4:]
                keys.append(pending)
            elif s in ("keyerr", "valueerr"):
                failed = True
            elif s.startswith(("value:", "null:")):
                vals.setdefault(pending, []).append(s.split(":", 1)[0] + f"@{len(keys) - 1}")
            elif s == "end":
                complete = True
        cnt = {f: keys.count(f) for f in FIELDS}
        dup = any(cnt[f] > 1 for f in ("Jsonrpc", "Result", "Error", "Id"))
        want_accept = (not failed) and complete and not dup and cnt["Id"] == 1 and cnt["Result"] + cnt["Error"] == 1
        (reach["accepted"] if accepted else reach["rejected"]).append(pc)
        why = None
        if accepted != want_accept:
            why = f"members {keys} ({'complete' if complete else 'cut'}{', read error' if failed else ''}): parser {'accepts' if accepted else 'rejects'}, the property says {'accept' if want_accept else 'reject'}"
        elif accepted:
            resp = p.ret.kids[("Ok", 0)]
            resp = ex.read_node(resp)
            idt = str(to_term(MM.value_of(ex, ex.read_node(resp.kids[fi("id")]))))
            iid = keys.index("Id")
            if f"value{iid}:" not in idt:
                why = f"members {keys}: the id of the response is not the id member's value ({idt[:60]})"
            pay = ex.read_node(resp.kids[fi("payload")])
            pt = str(to_term(MM.value_of(ex, pay))) if not isinstance(pay, Node) else " ".join(str(to_term(MM.value_of(ex, ex.read_node(k)))) for k in pay.kids.values())
            ipay = keys.index("Result") if cnt["Result"] else keys.index("Error")
            if f"value{ipay}:" not in pt:
                why = f"members {keys}: the payload is not the result/error member's value"
        if why:
            viol.append((pc, why, keys, seq))
    return b, viol, reach, bad, len(ps)


def field_names(types):
    """the key visitor: "jsonrpc" / "result" / "error" / "id" select their field, every other key is ignored"""
    b = R.find_body(types, r"^fn response::<impl at types/src/response\.rs:[\d: ]+>::deserialize::<impl at [^>]*>::deserialize::<impl at [^>]*>::visit_str\(_1: FieldVisitor, _2: &str\)")
    key = {}

    def m_eq(ex_, st, callee, args, dty, site):
        lit = None
        for a in args:
            if isinstance(a, StrConst):
                lit = a.s
        if lit is None:
            raise Unsupported("str comparison with a non-literal")
        key.setdefault(lit, z3.Bool(f"key_is:{lit}"))
        return key[lit]
    ctx = P.make_ctx(types, extra_models=[(r"^<str as PartialEq>::eq$|^core::str::traits::<impl PartialEq for str>::eq$", m_eq)])
    ctx.inline = []
    ex = Executor(ctx)
    ps = ex.run(b)
    bad = [(p.kind, p.detail) for p in ps if p.kind != "return"]
    lits = list(key)
    excl = [z3.Not(z3.And(key[a], key[c])) for i, a in enumerate(lits) for c in lits[i + 1:]]
    want = {"jsonrpc": "Jsonrpc", "result": "Result", "error": "Error", "id": "Id"}
    order = R.source_tables()["enums"]["Field"]
    viol, reach = [], []
    for p in ps:
        if p.kind != "return" or not ex.feasible(list(p.pc) + excl):
            continue
        pc = z3.And(p.cond(), *excl)
        reach.append(pc)
        payload = ex.read_node(p.ret.kids[("Ok", 0)]) if isinstance(p.ret, Node) and ("Ok", 0) in p.ret.kids else None
        sel = None
        if isinstance(payload, Node):
            dd = z3.simplify(ex.discr_of(payload))
            if z3.is_bv_value(dd):
                sel = order[dd.as_long()]
        chosen = [l for l in lits if not ex.feasible(list(p.pc) + excl + [z3.Not(key[l])])]
        exp = want.get(chosen[0], "Ignore") if chosen else "Ignore"
        if sel != exp:
            viol.append(pc)
            VALIDATION["field_names"] = f"key {chosen[:1]} selects {sel}, expected {exp}"
    if sorted(l for l in lits) != sorted(want):
        viol.append(z3.BoolVal(True))
        VALIDATION["field_names"] = f"literals compared: {lits}"
    return b, viol, reach, bad


def _native_text(keys, seq):
    """a JSON object text with that member sequence (values by outcome: null where the model read null)"""
    parts = []
    vi = [s for s in seq if s.startswith(("value:", "null:", "valueerr"))]
    for i, k in enumerate(keys):
        o = vi[i] if i < len(vi) else "value:"
        isnull = o.startswith("null:")
        if k == "Jsonrpc":
            parts.append('"jsonrpc":' + ("null" if isnull else '"2.0"'))
        elif k == "Result":
            parts.append('"result":' + ("null" if isnull else "7"))
        elif k == "Error":
            parts.append('"error":' + ("null" if isnull else '{"code":-32000,"message":"m"}'))
        elif k == "Id":
            parts.append('"id":' + ("null" if isnull else "1"))
        else:
            parts.append(f'"x{i}":' + ("null" if isnull else "[1]"))
    return "{" + ",".join(parts) + "}"



def _native_battery(out, scenario, vectors, what):
    """validation, not the deciding step: the native scenario (real crates, oracle written from the property text) on fixed vectors must report nothing
    when every obligation is discharged; a disagreement means an obligation or the oracle is wrong => undecided"""
    val = R.validate_encoding(scenario, vectors, lambda v: {}, [])
    VALIDATION[what] = val
    if val.get("native_violations") and all(r.get("status") == "discharged" for r in out):
        out.append(R.Result(engine="mirsym", name="validation:" + what, kind="validation", status="native-battery-disagrees",
                            detail=f"{val['native_violations']} native violation(s) on the validation vectors although every obligation is discharged", bodies=[]))
    return out


def obligations(tier, seed):
    types = R.bodies("types")
    out = []
    L = 4 if tier == "quick" else 5
    b, viol, reach, bad, npaths = response_visitor(types, L)
    bounds = f"member sequences of <= {L} members over {{jsonrpc, result, error, id, other}}, in any order / duplication; every read outcome (value / null / error) of every member; key errors"
    if bad or not all(reach.values()):
        out.append(R.Result(engine="mirsym", name="visitor:Response::visit_map", kind="kernel", status="unsupported" if bad else "vacuous",
                            detail=str(bad[:1] or {k: len(v) for k, v in reach.items()})[:300], bodies=[b.name]))
    else:
        viol.sort(key=lambda x: len(x[2]))
        q = z3.Or(*[v[0] for v in viol[:80]]) if viol else z3.BoolVal(False)
        r = R.decide("visitor:Response::visit_map:accepts-exactly-valid-objects", "kernel", q, [z3.Or(*v[:200]) for v in reach.values()], bodies=[b.name], bounds=bounds,
                     desc="accepted iff: no read error, exactly one id, exactly one of result/error, at most one jsonrpc, no known member twice; the accepted response carries the id "
                          "member's value and the result/error member's value", extra={"paths": npaths}, keydetail="response-visitor")
        if r["status"] == "violated":
            pc, why, keys, seq = viol[0]
            r["detail"] = why
            r["key"] = "mirsym:c15:response-visitor:" + ",".join(keys)
            r["replay"] = {"scenario": "c15_response", "args": {"text": _native_text(keys, seq)}}
        out.append(r)
    b, viol, reach, bad = field_names(types)
    if bad or not reach:
        out.append(R.Result(engine="mirsym", name="kernel:Response::Field::visit_str", kind="kernel", status="unsupported", detail=str(bad[:1])[:300], bodies=[b.name]))
    else:
        out.append(R.decide("kernel:Response::Field::visit_str:member-names", "kernel", z3.Or(*viol) if viol else z3.BoolVal(False), [z3.Or(*reach)], bodies=[b.name],
                            desc='the keys "jsonrpc", "result", "error", "id" select their member; every other key is ignored', bounds="all key strings (one Boolean per compared literal)",
                            keydetail="response-field-names", replay=dict(scenario="c15_response", vars={}, fixed={"battery": True}, region=z3.BoolVal(True))))
    return _native_battery(out, "c15_response", [{"battery": True}], "native-member-sequences")
