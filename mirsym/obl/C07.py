"""C07 - the request-size limit, and only it, reaches every place that bounds an incoming message."""
import re
import z3
from .. import run as R, prov as P, models as M

VALIDATION = {}


def _cfg(field):
    return R.field_index("ServerConfig", field)


def obligations(tier, seed):
    srv = R.bodies("server")
    core = R.bodies("core")
    out = []
    fi_req, fi_resp = _cfg("max_request_body_size"), _cfg("max_response_body_size")
    MAXREQ_REGION = lambda req, resp: z3.And(z3.UGE(req, 100), z3.ULE(req, 5000), z3.UGE(resp, 100), z3.ULE(resp, 5000))

    # ---- WebSocket frame reader limit: two assembly routes -------------------------------------------------------
    routes = [
        ("ws::connect", r"^fn connect::\{closure#0\}::\{closure#0\}\(_1: Pin<&mut \{async block@server/src/transport/ws\.rs", "low_level"),
        ("TowerServiceNoHttp::call", r"^fn server::<impl at server/src/server\.rs:[\d: ]+>::call::\{closure#\d+\}\(_1: Pin<&mut \{async block@server/src/server\.rs", "server"),
    ]
    for label, rx, entry in routes:
        cands = [b for b in R.find_body(srv, rx, all_=True) if P.syntactic_sites(b, r"set_max_message_size")]
        if len(cands) != 1:
            out.append(R.Result(engine="mirsym", name=f"prov:{label}:set_max_message_size", kind="provenance", status="site-missing",
                                detail=f"{len(cands)} candidate bodies - spec needs update", bodies=[]))
            continue
        b = cands[0]
        cap = P.capture_index(b, ["server_cfg", "this__server_cfg"])
        req = z3.BitVec(f"arg1.0.*.{cap}.{fi_req}", 32)
        resp = z3.BitVec(f"arg1.0.*.{cap}.{fi_resp}", 32)
        # replay: pick a message size strictly between the two limits, whichever is larger
        n = z3.BitVec("replay.n", 32)
        # a message size on which the configured limit (the actual operand) and max_request_body_size disagree
        differs = lambda a: z3.UGT(z3.ZeroExt(32, n), a) != z3.UGT(n, req)
        out.append(P.site_obligation(
            f"prov:{label}:set_max_message_size", srv, b, r"set_max_message_size$", 1, z3.ZeroExt(32, req),
            desc=f"{label}: the soketto frame reader's max message size is zext(server_cfg.max_request_body_size) for every pair of limits",
            bounds="all (max_request_body_size, max_response_body_size) in u32 x u32; every resume point of the coroutine",
            keydetail="source!=max_request_body_size",
            replay=dict(scenario="c07_ws", vars={"max_req": req, "max_resp": resp, "n": n}, fixed={"entry": entry},
                        region_fn=differs, region=z3.And(MAXREQ_REGION(req, resp), z3.UGE(n, 64), z3.ULE(n, 6000)))))

    # ---- HTTP: the limit handed to call_with_service / read_body ---------------------------------------------------
    b = R.find_body(srv, r"^fn call_with_service_builder::\{closure#0\}\(_1: Pin<&mut \{async fn body of call_with_service_builder")
    cap = P.capture_index(b, "server_cfg")
    req = z3.BitVec(f"arg1.0.*.{cap}.{fi_req}", 32)
    resp = z3.BitVec(f"arg1.0.*.{cap}.{fi_resp}", 32)
    n = z3.BitVec("replay.n", 32)
    differs = lambda a: z3.UGT(n, a) != z3.UGT(n, req)
    out.append(P.site_obligation(
        "prov:http::call_with_service_builder:max_request_size", srv, b, r"^call_with_service::<", 2, req,
        desc="call_with_service_builder hands server_cfg.max_request_body_size (not another field) to call_with_service",
        bounds="all u32 x u32 limit pairs", keydetail="source!=max_request_body_size",
        replay=dict(scenario="c07_http", vars={"max_req": req, "max_resp": resp, "n": n}, fixed={"entry": "low_level"},
                    region_fn=differs, region=z3.And(MAXREQ_REGION(req, resp), z3.UGE(n, 64), z3.ULE(n, 6000)))))

    # TowerServiceNoHttp::call (HTTP arm): the async block that calls http::call_with_service
    cands = [b for b in R.find_body(srv, r"^fn server::<impl at server/src/server\.rs:[\d: ]+>::call::\{closure#\d+\}\(_1: Pin<&mut \{async block@server/src/server\.rs", all_=True)
             if P.syntactic_sites(b, r"^call_with_service::<")]
    if len(cands) != 1:
        out.append(R.Result(engine="mirsym", name="prov:TowerServiceNoHttp::call:http:max_request_size", kind="provenance", status="site-missing",
                            detail=f"{len(cands)} candidate bodies - spec needs update", bodies=[]))
    else:
        b = cands[0]
        cap = P.capture_index(b, ["max_request_size", "max_request_body_size"])
        exp = z3.BitVec(f"arg1.0.*.{cap}", 32)
        note = "its captured max_request_size (bound to server_cfg.max_request_body_size by chain:TowerServiceNoHttp::call:http)"
        out.append(P.site_obligation("prov:TowerServiceNoHttp::call:http:max_request_size", srv, b, r"^call_with_service::<", 2, exp,
                                     desc=f"Server/TowerService HTTP arm hands {note} to call_with_service", bounds="all u32 values",
                                     keydetail="source!=max_request_body_size"))

    b = R.find_body(srv, r"^fn call_with_service::\{closure#0\}\(_1: Pin<&mut \{async fn body of call_with_service<S, B>")
    cap = P.capture_index(b, "max_request_size")
    exp = z3.BitVec(f"arg1.0.*.{cap}", 32)
    out.append(P.site_obligation("prov:http::call_with_service:read_body-limit", srv, b, r"^read_body::<", 2, exp,
                                 desc="call_with_service passes its max_request_size parameter to read_body", bounds="all u32", keydetail="source!=max_request_size"))
    out.append(P.site_obligation("prov:http::call_with_service:too_large-quotes-limit", srv, b, r"too_large$", 0, exp,
                                 desc="the limit quoted in the 413 reply is that same parameter", bounds="all u32", keydetail="source!=max_request_size"))

    # ---- read_body: Limited::new(body, max as usize) and the Content-Length pre-check ---------------------------------
    b = R.find_body(core, r"^fn read_body::\{closure#0\}\(_1: Pin<&mut \{async fn body of read_body<B>")
    cap = P.capture_index(b, "max_body_size")
    mx = z3.BitVec(f"arg1.0.*.{cap}", 32)
    out.append(P.site_obligation("prov:read_body:Limited::new", core, b, r"Limited::<.*>::new$", 1, z3.ZeroExt(32, mx),
                                 desc="read_body wraps the body in http_body_util::Limited with limit zext(max_body_size)", bounds="all u32",
                                 keydetail="source!=max_body_size"))
    out.append(_content_length_gate(core, b, mx))

    # ---- WebSocket: what happens to an oversize message ---------------------------------------------------------------
    out += _ws_oversize_arm(srv)
    out += _too_big_code(R.bodies("types"))
    # ---- the capture chain: the coroutine's captured config IS the caller's config argument ----------------------------
    out += _capture_chain(srv)
    # ---- read_body over chunked bodies: nothing above the limit is ever handed on ---------------------------------------
    from .C19 import limit_obligations
    out += limit_obligations(core, tier)
    # "however the server is assembled": the configured value survives every builder step
    from .cfgframe import journey_obligations as _journey
    _extra = _journey(R.bodies("server"), "max_request_body_size", "max_request_body_size", scenario="cfg_journey", fixed={"field": "max_request_body_size"})
    out += _extra
    # "answered with a rejection (... an HTTP error status over HTTP)": what response::too_large puts on the wire
    from .httpstatus import obligation as _status
    out.append(_status(srv, "too_large", "kernel:response::too_large:error-status", lambda s: z3.And(z3.UGE(s, 400), z3.ULE(s, 599)),
                       "the response built for an oversized HTTP body carries an HTTP error status (4xx / 5xx; 413 on the unchanged tree)",
                       dict(scenario="c07_http", vars={}, fixed={"entry": "server", "max_req": "1000", "max_resp": "100000", "n": "1200", "chunked": False}, region=z3.BoolVal(True)),
                       "too-large-status"))
    return out


def _too_big_code(types):
    """reject_too_big_request(limit) builds the error object with OVERSIZED_REQUEST_CODE (-32007) and quotes the limit it is given"""
    from ..sym import Executor
    b = R.find_body(types, r"^fn (\w+::)*reject_too_big_request\(_1: u32\)")
    ctx = P.make_ctx(types, extra_models=[])
    ex = Executor(ctx)
    ps = ex.run(b)
    bad = [(p.kind, p.detail) for p in ps if p.kind != "return"]
    want = R.source_tables()["consts"]["OVERSIZED_REQUEST_CODE"][0]
    viol, reach = [], []
    for p in ps:
        if p.kind != "return":
            continue
        ow = [e for e in p.events if e.kind == "call" and re.search(r"ErrorObject::<'_>::owned::<", e.callee)]
        reach.append(p.cond())
        if len(ow) != 1 or not isinstance(ow[0].args[0], z3.BitVecRef) or want != -32007:
            viol.append(p.cond())
            continue
        viol.append(z3.And(p.cond(), ow[0].args[0] != z3.BitVecVal(want & 0xFFFFFFFF, 32)))
    reach_l = R.live_reach(viol, reach, bad)
    if bad or not reach_l[0]:
        return [R.Result(engine="mirsym", name="kernel:reject_too_big_request", kind="kernel", status="unsupported" if bad else "vacuous", detail=str(bad[:1])[:300], bodies=[b.name])]
    return [R.decide("kernel:reject_too_big_request:code", "kernel", z3.Or(*viol), [z3.Or(*reach_l[0])], bodies=[b.name],
                     desc="the rejection of an oversize WebSocket message is the error object with code OVERSIZED_REQUEST_CODE = -32007", bounds="all u32 limits", keydetail="too-big-code",
                     replay=dict(scenario="c07_ws", vars={}, fixed={"entry": "server", "max_req": 200, "max_resp": 4000, "n": 400}, region=z3.BoolVal(True)))]


def _ws_oversize_arm(srv):
    """ws::background_task receive loop: a message the frame reader refused as too large is answered once - id null, reject_too_big_request(this connection's
    max_request_body_size) - no task is spawned for it (nothing is parsed or dispatched), and the loop goes on to the next message unless the reply itself could not be sent"""
    from ..sym import Executor, Node, Ptr, Opaque, OBJ, Fork, to_term
    from .. import seqmodels as SQ, mapmodels as MM
    b = R.find_body(srv, r"^fn background_task::\{closure#0\}\(_1: Pin<&mut \{async fn body of background_task<S>")
    recvs = R.source_tables()["enums"].get("Receive")
    kinds = R.dep_enum("jsonrpsee-server", "soketto", "src/connection.rs", "Error")
    ids = R.source_tables()["enums"]["Id"]
    fi_cfg = R.field_index("BackgroundTaskParams", "server_cfg")
    fi_lim = _cfg("max_request_body_size")
    cap = P.capture_index(b, "params")
    want_limit = f"arg1.0.*.{cap}.{fi_cfg}.{fi_lim}"

    def m_poll_try_recv(ex, st, callee, args, dty, site):
        r = Node(ex.ctx.fresh_name("received"), "Receive")
        d = Node(r.name + ".discr", "isize")
        d.val = z3.BitVec(ex.ctx.fresh_name("try_recv.outcome"), 64)
        st["pc"].append(z3.ULE(d.val, len(recvs) - 1))
        r.kids["discr"] = d
        for vn in recvs:
            for j in range(2):
                kk = Node(f"{r.name}.{vn}:{j}", None)
                if vn == "Err" and j == 0:
                    dd = Node(kk.name + ".discr", "isize")          # which soketto error: the solver's choice
                    dd.val = z3.BitVec(ex.ctx.fresh_name("recv_error.kind"), 64)
                    st["pc"].append(z3.ULE(dd.val, len(kinds) - 1))
                    kk.kids["discr"] = dd
                else:
                    kk.val = Opaque(z3.Const(f"{r.name}.{vn}.{j}", OBJ))
                r.kids[(vn, j)] = kk
        return ex.mk_variant("Poll", 0, "Ready", r)

    def m_poll_send_error(ex, st, callee, args, dty, site):
        ok = z3.Bool(ex.ctx.fresh_name("send_error.ok"))
        return Fork([(ok, lambda ex_, st_, tr: ex_.mk_variant("Poll", 0, "Ready", ex_.mk_variant("Result", 0, "Ok", MM.UNIT))),
                     (z3.Not(ok), lambda ex_, st_, tr: ex_.mk_variant("Poll", 0, "Ready", ex_.mk_variant("Result", 1, "Err", Opaque(z3.Const("disconnected", OBJ)))))])
    extra = [(r"async fn body of try_recv<.*\(\)\} as (\w+::)*Future>::poll$", m_poll_try_recv),
             (r"async fn body of MethodSink::send_error\(\)\} as (\w+::)*Future>::poll$", m_poll_send_error)]
    ex, ctx, paths = P.explore(srv, b, extra_models=extra + SQ.TRY_MODELS + list(M.TRACING_MODELS), max_paths=60000, max_visits=3)
    bad = [(p.kind, p.detail) for p in paths if p.kind in ("unsupported", "limit")]
    ERR, BIG = recvs.index("Err"), kinds.index("MessageTooLarge")
    viol, reach = [], {"answered-and-continued": [], "reply-failed-and-closed": []}
    for p in paths:
        evs = [e for e in p.events if e.kind == "call"]
        idxs = [i for i, e in enumerate(evs) if re.search(r"async fn body of try_recv<.*Future>::poll$", e.callee)]
        for n, i in enumerate(idxs):
            cont = n + 1 < len(idxs)
            if not cont and p.kind != "return":
                continue
            seg = evs[i + 1:(idxs[n + 1] if cont else len(evs))]
            rec = ex.read_node(ex.child(evs[i].ret, ("Ready", 0), None)) if isinstance(evs[i].ret, Node) else None
            if rec is None:
                continue
            d = ex.discr_of(rec)
            kd = ex.read_node(rec.kids[("Err", 0)].kids["discr"]) if ("Err", 0) in rec.kids and "discr" in rec.kids[("Err", 0)].kids else None
            if kd is None or ex.feasible(list(p.pc) + [z3.Or(d != ERR, kd != BIG)]):
                continue                    # not (only) the oversize case
            pc = p.cond()
            rej = [e for e in seg if e.callee == "reject_too_big_request"]
            snd = [e for e in seg if e.callee == "MethodSink::send_error"]
            spawns = [e for e in seg if e.callee.startswith("tokio::spawn::<")]
            calls = [e for e in seg if re.search(r"handle_rpc_call|RpcServiceT>::(call|batch|notification)", e.callee)]
            good = len(rej) == 1 and len(snd) == 1 and not spawns and not calls
            if good:
                lim = rej[0].args[0]
                good = str(to_term(ex.read_node(lim) if isinstance(lim, Node) else lim)) == want_limit
            if good:
                idn = snd[0].args[1]
                idd = z3.simplify(ex.discr_of(idn)) if isinstance(idn, Node) else None
                good = idd is not None and z3.is_bv_value(idd) and ids[idd.as_long()] == "Null" and "reject_too_big_request" in str(to_term(snd[0].args[2]))
            if not good:
                viol.append(pc)
                continue
            oks = [c for c in p.pc if "send_error.ok" in str(c)]
            sent = z3.And(*oks) if oks else z3.BoolVal(True)
            if cont:
                reach["answered-and-continued"].append(pc)
            else:
                # the loop ended after an oversize message: only allowed when the reply could not be sent
                reach["reply-failed-and-closed"].append(pc)
                s_ = z3.Solver()
                s_.add(pc)
                ok_vars = [v for v in (z3.Bool(str(x)) for c in p.pc for x in _bools(c)) if "send_error.ok" in str(v)]
                if ok_vars:
                    viol.append(z3.And(pc, *ok_vars))
    reach_l = R.live_reach(viol, reach, bad)
    if bad or not all(reach_l):
        return [R.Result(engine="mirsym", name="order:ws-receive-loop:oversize-message", kind="order", status="unsupported" if bad else "vacuous",
                         detail=str(bad[:1] or {k: len(v) for k, v in reach.items()})[:300], bodies=[b.name])]
    return [R.decide("order:ws-receive-loop:oversize-message", "order", z3.Or(*viol) if viol else z3.BoolVal(False), [z3.Or(*v) for v in reach_l], bodies=[b.name],
                     desc="a WebSocket message the frame reader refused as too large is answered exactly once with id null and reject_too_big_request(this connection's max_request_body_size); "
                          "no task is spawned and nothing is parsed or dispatched for it; the receive loop goes on to the next message unless that reply could not be sent",
                     bounds="two loop iterations from any resume point; every outcome of try_recv, every kind of soketto error, both outcomes of sending the reply",
                     keydetail="ws-oversize-arm",
                     replay=dict(scenario="c07_ws", vars={}, fixed={"entry": "server", "max_req": 200, "max_resp": 4000, "n": 400}, region=z3.BoolVal(True)))]


def _bools(c):
    """Boolean constants occurring in a z3 term"""
    out, todo, seen = [], [c], set()
    while todo:
        t = todo.pop()
        if t.get_id() in seen:
            continue
        seen.add(t.get_id())
        if z3.is_const(t) and t.decl().kind() == z3.Z3_OP_UNINTERPRETED and z3.is_bool(t):
            out.append(t)
        todo.extend(t.children())
    return out


def _content_length_gate(core, b, mx):
    """paths on which read_header_content_length gave Some(len): the TooLarge early return is taken <=> len > max_body_size,
    and on TooLarge no frame is ever polled (order/reach)."""
    ex, ctx, paths = P.explore(core, b)
    name = "order:read_body:content-length-precheck"
    viol, reach_big, reach_ok = [], [], []
    cl_sym = None
    for p in paths:
        evs = [e for e in p.events if e.kind == "call"]
        cl = [e for e in evs if "read_header_content_length" in e.callee]
        if not cl or p.state != 0:
            continue
        # body_size = content_length.unwrap_or(0): find the unwrap_or result
        uw = [e for e in evs if e.callee.endswith("unwrap_or")]
        if not uw:
            continue
        size = uw[0].ret
        if cl_sym is None:
            cl_sym = size
        polled = any(re.search(r"Frame|::frame|poll_frame|Limited::<.*>::new", e.callee) for e in evs)
        pc = p.cond()
        if p.kind == "return":
            # Ready(Err(TooLarge)) before any read
            early = not polled
            if early:
                viol.append(z3.And(pc, z3.Not(z3.UGT(size, mx))))
                reach_big.append(pc)
            else:
                viol.append(z3.And(pc, z3.UGT(size, mx)))
                reach_ok.append(pc)
    if not reach_big or not reach_ok:
        return R.Result(engine="mirsym", name=name, kind="order", status="site-unreached", detail="could not find both the early-return and the read path", bodies=[b.name])
    return R.decide(name, "order", z3.Or(*viol), [z3.Or(*reach_big), z3.Or(*reach_ok)], bodies=[b.name],
                    desc="declared Content-Length > max_body_size <=> rejected before the body is polled",
                    bounds="all (declared length, limit) in u32 x u32; Option::unwrap_or uninterpreted but shared by both sides",
                    extra={"models": [M.MODEL_DOC.get(rx, rx) for rx in ctx.used_models]})


def _capture_chain(srv):
    """each coroutine is created with `server_cfg: move <the enclosing fn's own server_cfg>` (no other config sneaks in)."""
    out = []
    chains = [
        # (name, parent body regex, child coroutine source marker, capture name, expected parent source: ('param', idx) | ('capture', name))
        ("chain:ws::connect:outer->inner", r"^fn connect::\{closure#0\}\(_1: Pin<&mut \{async fn body of connect<", r"coroutine@server/src/transport/ws\.rs", "server_cfg", ("capture", "server_cfg")),
        ("chain:ws::connect:fn->outer", r"^fn connect\(_1: hyper::Request<B>, _2: ServerConfig", r"coroutine@server/src/transport/ws\.rs", "server_cfg", ("param", 2)),
        ("chain:TowerServiceNoHttp::call:ws", r"^fn server::<impl at server/src/server\.rs:[\d: ]+>::call\(_1: &mut TowerServiceNoHttp", r"coroutine@server/src/server\.rs", "this", ("self_cfg", None)),
        ("chain:TowerServiceNoHttp::call:http", r"^fn server::<impl at server/src/server\.rs:[\d: ]+>::call\(_1: &mut TowerServiceNoHttp", r"coroutine@server/src/server\.rs", "max_request_size", ("self_cfg_field", None)),
        ("chain:http::call_with_service_builder:fn->body", r"^fn call_with_service_builder\(_1: hyper::Request<B>, _2: ServerConfig", r"coroutine@server/src/transport/http\.rs", "server_cfg", ("param", 2)),
        ("chain:http::call_with_service:fn->body", r"^fn call_with_service\(_1: hyper::Request<B>, _2: BatchRequestConfig, _3: u32", r"coroutine@server/src/transport/http\.rs", "max_request_size", ("param", 3)),
    ]
    for name, prx, marker, capname, src in chains:
        try:
            parent = R.find_body(srv, prx)
        except LookupError as e:
            out.append(R.Result(engine="mirsym", name=name, kind="provenance", status="site-missing", detail=str(e), bodies=[]))
            continue
        ex, ctx, paths = P.explore(srv, parent)
        # find aggregate construction of the child coroutine: scan statements of the parent
        found = []
        for bn in parent.order:
            for s in parent.blocks[bn].stmts:
                if s[0] == "assign" and s[2][0] == "agg" and re.search(marker, s[2][1]):
                    for fname, op in s[2][2]:
                        if fname == capname:
                            found.append((bn, op))
        if len(found) != 1:
            out.append(R.Result(engine="mirsym", name=name, kind="provenance", status="site-missing", detail=f"{len(found)} constructions with capture {capname}", bodies=[parent.name]))
            continue
        bn, op = found[0]
        # resolve the operand symbolically by re-running and reading the constructed coroutine on paths through bn
        is_cfg = capname in ("server_cfg", "this")
        fi = R.field_index("ServerConfig", "max_request_body_size")
        if src[0] == "param":
            base = f"arg{src[1]}"
        elif src[0] in ("self_cfg", "self_cfg_field"):
            base = f"arg1.*.{R.field_index('TowerServiceNoHttp', 'inner')}.{R.field_index('ServiceData', 'server_cfg')}"
        else:
            base = f"arg1.0.*.{P.capture_index(parent, src[1])}"
        expected = z3.BitVec(base + (f".{fi}" if (is_cfg or src[0] == "self_cfg_field") else ""), 32)
        viol, reach = [], []
        hit = False
        for p in paths:
            st = p.frame
            if st is None:
                continue
            # the aggregate's destination local
            for s in parent.blocks[bn].stmts:
                if s[0] == "assign" and s[2][0] == "agg" and re.search(marker, s[2][1]) and any(fn == capname for fn, _ in s[2][2]):
                    dest = s[1]
            node = st["mem"].get((0, dest[0]))
            if node is None or ("name", capname) not in node.kids:
                # moved into the return value: look through _0
                continue
            k = node.kids[("name", capname)]
            v = ex.read_node(ex.child(k, fi, "u32")) if is_cfg else ex.read_node(k)
            if not isinstance(v, z3.ExprRef):
                continue
            hit = True
            viol.append(z3.And(p.cond(), v != expected))
            reach.append(p.cond())
        if not hit:
            out.append(R.Result(engine="mirsym", name=name, kind="provenance", status="site-unreached", detail="constructed coroutine not observable on any complete path", bodies=[parent.name]))
            continue
        out.append(R.decide(name, "provenance", z3.Or(*viol), [z3.Or(*reach)], bodies=[parent.name],
                            desc=f"the child coroutine's captured `{capname}` is the enclosing function's own `{capname}` ({src[0]} {src[1]})",
                            bounds="all u32 field values", keydetail="capture-source"))
    return out
