"""C16 - Params decoding agrees with a plain JSON parse and fails only with -32602.

The stepping logic of ParamsSequence (sequence / next_inner / next / optional_next) is executed from its MIR over an abstract params
text: a JSON array of k elements whose interior whitespace runs and element lengths are solver variables. serde_json's stream
deserializer is modelled by its contract on that layout (skip whitespace, parse the one value that starts there or fail, report the
byte offset); which reads accept which element is a solver choice. Every read of every read sequence is compared with what a plain
parse of the array prescribes.
"""
import itertools
import re, sys
import z3
from .. import run as R, models as M, mapmodels as MM, prov as P, seqmodels as SQ
from ..sym import Ctx, Executor, Node, Ptr, Opaque, OBJ, to_term, Fork, Unsupported, StrConst, Event

VALIDATION = {}
WS = (0x20, 0x09, 0x0A, 0x0D)
BOUND = 1 << 20


class Layout:
    """[ w0 e0 v0 , w1 e1 v1 , ... ] with symbolic run lengths; k == 0: [ w0 ]"""

    def __init__(self, k):
        self.k = k
        bv = lambda n: z3.BitVec(n, 64)
        self.w = [bv(f"ws_before{i}") for i in range(max(k, 1))]
        self.l = [bv(f"len{i}") for i in range(k)]
        self.v = [bv(f"ws_after{i}") for i in range(k)]
        self.fb = [z3.BitVec(f"first_byte{i}", 8) for i in range(k)]
        self.s, self.end, self.sep = [], [], []
        pos = z3.BitVecVal(1, 64)
        if k == 0:
            self.close = pos + self.w[0]
            self.n = self.close + 1
        else:
            for i in range(k):
                s = pos + self.w[i]
                e = s + self.l[i]
                sp = e + self.v[i]
                self.s.append(s)
                self.end.append(e)
                self.sep.append(sp)
                pos = sp + 1
            self.close = self.sep[-1]
            self.n = self.close + 1
        self.interior = z3.Function("text_byte", z3.BitVecSort(64), z3.BitVecSort(8))

    def constraints(self):
        cs = []
        for x in self.w + self.v:
            cs.append(z3.ULE(x, BOUND))
        for x in self.l:
            cs += [z3.UGE(x, 1), z3.ULE(x, BOUND)]
        for b in self.fb:
            cs += [b != c for c in WS + (0x2C, 0x5D, 0x0C)]
        return cs

    def runs(self):
        """whitespace runs [(a, b, what follows: ('elem', i) | ('sep', i) | ('close',))]"""
        if self.k == 0:
            return [(z3.BitVecVal(1, 64), self.close, ("close",))]
        out = []
        for i in range(self.k):
            a = z3.BitVecVal(1, 64) if i == 0 else self.sep[i - 1] + 1
            out.append((a, self.s[i], ("elem", i)))
            out.append((self.end[i], self.sep[i], ("sep", i) if i < self.k - 1 else ("close",)))
        return out

    def _point_class(self, nxt):
        return ("elem", nxt[1]) if nxt[0] == "elem" else nxt

    def classes(self, p, entails=None):
        """mutually exclusive, exhaustive cases of a byte position p: [(cond, kind)]. Positions that equal a named point of the layout
        (syntactically after simplification, or - when `entails` is given - under the current path condition) get the short case
        split over the one run length involved; anything else the general one."""
        def same(a, b):
            d = z3.simplify(a - b)
            if z3.is_bv_value(d):
                return d.as_long() == 0
            return bool(entails and entails(a == b))
        if same(p, z3.BitVecVal(0, 64)):
            return [(z3.BoolVal(True), ("open",))]
        if same(p, self.n):
            return [(z3.BoolVal(True), ("eof",))]
        for i in range(self.k):
            if same(p, self.s[i]) and not same(self.s[i], (z3.BitVecVal(1, 64) if i == 0 else self.sep[i - 1] + 1)):
                pass
        for a, b, nxt in self.runs():
            if same(p, a):
                r = z3.simplify(b - a)
                return [(r != 0, ("ws", b, nxt)), (r == 0, self._point_class(nxt))]
            if same(p, b):
                return [(z3.BoolVal(True), self._point_class(nxt))]
        return self.classes_general(p)

    def classes_general(self, p):
        cs = [(z3.UGE(p, self.n), ("eof",)), (p == 0, ("open",))]
        for i in range(self.k - 1):
            cs.append((p == self.sep[i], ("sep", i)))
        cs.append((p == self.close, ("close",)))
        for a, b, nxt in self.runs():
            cs.append((z3.And(z3.ULE(a, p), z3.ULT(p, b)), ("ws", b, nxt)))
        for i in range(self.k):
            cs.append((p == self.s[i], ("elem", i)))
            cs.append((z3.And(z3.UGT(p, self.s[i]), z3.ULT(p, self.end[i])), ("interior", i)))
        return cs


def _start(ex, v, lay):
    """start offset of an abstract &str (a suffix of the params text); the literal "" is the empty suffix"""
    v = MM.value_of(ex, v)
    if isinstance(v, StrConst):
        if v.s == "":
            return lay.n
        raise Unsupported(f"string literal {v.s!r} used as params text")
    if isinstance(v, Node) and isinstance(v.variant, tuple) and v.variant and v.variant[0] == "text":
        return ex.read_node(v.kids["start"])
    if isinstance(v, Node) and "start" in v.kids:
        return ex.read_node(v.kids["start"])
    raise Unsupported(f"not an abstract text: {v!r}")


def _text(ex, start):
    n = Node(ex.ctx.fresh_name("text"), "&str")
    n.variant = ("text",)
    k = Node(n.name + ".start", "usize")
    k.val = z3.simplify(start) if isinstance(start, z3.ExprRef) else start
    n.kids["start"] = k
    return n


def make_models(lay, literal_of):
    ctxbox = {}

    def entails_in(ex, st):
        return lambda c: not ex.feasible(list(st["pc"]) + lay.constraints() + [z3.Not(c)])

    def fork_classes(ex, p, fn, st=None):
        alts = []
        for cond, kind in lay.classes(p, entails_in(ex, st) if st is not None else None):
            alts.append((cond, (lambda ex_, st_, tr, kind=kind: fn(ex_, st_, kind))))
        return Fork(alts)

    def m_identity_text(ex, st, callee, args, dty, site):
        return MM.value_of(ex, args[0])

    def m_first(ex, st, callee, args, dty, site):
        p = _start(ex, args[0], lay)

        def f(ex_, st_, kind):
            if kind[0] == "eof":
                return ex_.mk_variant("Option", 0, "None")
            b = Node(ex_.ctx.fresh_name("byte"), "u8")
            if kind[0] == "open":
                b.val = z3.BitVecVal(0x5B, 8)
            elif kind[0] == "sep":
                b.val = z3.BitVecVal(0x2C, 8)
            elif kind[0] == "close":
                b.val = z3.BitVecVal(0x5D, 8)
            elif kind[0] == "ws":
                b.val = z3.BitVecVal(0x20, 8)
            elif kind[0] == "elem":
                b.val = lay.fb[kind[1]]
            else:
                b.val = lay.interior(p)
            return ex_.mk_variant("Option", 1, "Some", Ptr(b))
        return fork_classes(ex, p, f, st)

    def byte_value(ex_, p, kind):
        if kind[0] == "open":
            return z3.BitVecVal(0x5B, 8)
        if kind[0] == "sep":
            return z3.BitVecVal(0x2C, 8)
        if kind[0] == "close":
            return z3.BitVecVal(0x5D, 8)
        if kind[0] == "ws":
            return z3.BitVecVal(0x20, 8)
        if kind[0] == "elem":
            return lay.fb[kind[1]]
        return lay.interior(p)

    def m_starts_with_char(ex, st, callee, args, dty, site):
        """str::starts_with(char) for an ASCII char: the first byte, if any, equals it"""
        p = _start(ex, args[0], lay)
        ch = args[1]
        if not isinstance(ch, z3.BitVecRef):
            raise Unsupported("starts_with a non-constant char")
        c8 = z3.Extract(7, 0, ch) if ch.size() > 8 else ch
        if not z3.is_bv_value(z3.simplify(ch)) or z3.simplify(ch).as_long() >= 0x80:
            raise Unsupported("starts_with a non-ASCII / symbolic char")

        def f(ex_, st_, kind):
            if kind[0] == "eof":
                return z3.BoolVal(False)
            return byte_value(ex_, p, kind) == c8
        return fork_classes(ex, p, f, st)

    def m_is_empty(ex, st, callee, args, dty, site):
        """str::is_empty: nothing is left of the text at this position"""
        p = _start(ex, args[0], lay)
        return fork_classes(ex, p, lambda ex_, st_, kind: z3.BoolVal(kind[0] == "eof"), st)

    def m_index_from(ex, st, callee, args, dty, site):
        p = _start(ex, args[0], lay)
        rng = MM.value_of(ex, args[1])
        a = ex.read_node(rng.kids[0]) if isinstance(rng, Node) and 0 in rng.kids else None
        if a is None:
            raise Unsupported("RangeFrom without a start")
        # panics when the index is past the end (char boundaries: the layout's structure bytes are ASCII)
        return ("panic", z3.UGT(a, lay.n - p), _text(ex, p + a))

    def m_trim_start(ex, st, callee, args, dty, site):
        p = _start(ex, args[0], lay)

        def f(ex_, st_, kind):
            if kind[0] == "ws":
                return _text(ex_, kind[1])
            if kind[0] == "interior":
                return _text(ex_, z3.BitVec(ex_.ctx.fresh_name("trim_inside_element"), 64))
            return _text(ex_, p)
        return fork_classes(ex, p, f, st)

    def m_eq_literal(ex, st, callee, args, dty, site):
        p = _start(ex, args[0], lay)
        lit = literal_of(callee, args[1])
        if lit is None:
            raise Unsupported("comparison with a literal the spec could not resolve")
        conds = [lay.n - p == len(lit)]
        for i, ch in enumerate(lit.encode()):
            pos = p + i
            bt = z3.BitVecVal(0, 8)
            # byte at pos by class
            expr = lay.interior(pos)
            for cond, kind in reversed(lay.classes(pos)):
                val = {"open": z3.BitVecVal(0x5B, 8), "sep": z3.BitVecVal(0x2C, 8), "close": z3.BitVecVal(0x5D, 8), "ws": z3.BitVecVal(0x20, 8), "eof": z3.BitVecVal(0, 8)}.get(kind[0])
                if kind[0] == "elem":
                    val = lay.fb[kind[1]]
                if val is None:
                    val = lay.interior(pos)
                expr = z3.If(cond, val, expr)
            conds.append(expr == ch)
        r = z3.And(*conds)
        return z3.Not(r) if callee.endswith("::ne") else r

    def m_from_str(ex, st, callee, args, dty, site):
        d = Node(ex.ctx.fresh_name("deserializer"), "Deserializer")
        k = Node(d.name + ".input", "usize")
        k.val = _start(ex, args[0], lay)
        d.kids["input"] = k
        return d

    def m_into_iter(ex, st, callee, args, dty, site):
        d = MM.value_of(ex, args[0])
        it = Node(ex.ctx.fresh_name("stream"), "StreamDeserializer")
        a, b = Node(it.name + ".input", "usize"), Node(it.name + ".offset", "usize")
        a.val = ex.read_node(d.kids["input"])
        b.val = z3.BitVecVal(0, 64)
        it.kids["input"], it.kids["offset"] = a, b
        return it

    def m_stream_next(ex, st, callee, args, dty, site):
        """serde_json StreamDeserializer::next by contract: skip whitespace; end of input -> None; a value starts here -> Ok(value) (offset just
        past it) if its type is accepted by this read, else Err; ',' or ']' -> Err"""
        it = args[0].node if isinstance(args[0], Ptr) else args[0]
        p = ex.read_node(it.kids["input"])
        j = ex.ctx.c16_read

        # the type this read decodes: the generic parameter of the enclosing next_inner::<X> instantiation (the inlined body itself only says `T`)
        inst = [e.callee for e in st["events"] if e.kind == "inline" and re.search(r"::next_inner::<", e.callee)]
        target = re.search(r"::next_inner::<(.*)>$", inst[-1]).group(1) if inst else ""
        opt_target = re.match(r"(std::option::)?Option<", target) is not None or re.search(r"StrRead<'_>, (std::option::)?Option<", callee) is not None

        def elem(ex_, st_, tr, i):
            acc = z3.Bool(f"read{j}.accepts_elem{i}")
            nul = z3.Bool(f"elem{i}.is_null")

            def ok(ex2, st2, tr2, null=False):
                it2 = tr2(tr(it))
                it2.kids["offset"].val = z3.simplify(lay.end[i] - p)
                st2["events"].append(Event("c16", f"parsed:{j}:{i}", [], [], None, None, "", ""))
                v = Opaque(z3.Const(f"value:elem{i}@read{j}", OBJ))
                if opt_target:
                    # the read's type is Option<T>: a JSON null is None, anything else T's reading of the element
                    v = ex2.mk_variant("Option", 0, "None") if null else ex2.mk_variant("Option", 1, "Some", v)
                return ex2.mk_variant("Option", 1, "Some", ex2.mk_variant("Result", 0, "Ok", v))

            def er(ex2, st2, tr2):
                st2["events"].append(Event("c16", f"mismatch:{j}:{i}", [], [], None, None, "", ""))
                return ex2.mk_variant("Option", 1, "Some", ex2.mk_variant("Result", 1, "Err", Opaque(z3.Const(f"serde_error:type@read{j}", OBJ))))
            if opt_target:
                return Fork([(z3.And(acc, nul), lambda e2, s2, t2: ok(e2, s2, t2, True)), (z3.And(acc, z3.Not(nul)), ok), (z3.And(z3.Not(acc), z3.Not(nul)), er)])
            return Fork([(acc, ok), (z3.Not(acc), er)])

        def f(ex_, st_, kind, tr=lambda x: x):
            if kind[0] == "eof":
                return ex_.mk_variant("Option", 0, "None")
            if kind[0] == "ws":
                kind = kind[2]
            if kind[0] == "elem":
                return elem(ex_, st_, tr, kind[1])
            if kind[0] in ("sep", "close"):
                st_["events"].append(Event("c16", f"expected-value:{j}", [], [], None, None, "", ""))
                return ex_.mk_variant("Option", 1, "Some", ex_.mk_variant("Result", 1, "Err", Opaque(z3.Const(f"serde_error:expected_value@read{j}", OBJ))))
            # '[' at 0 (the whole array as one value) or the middle of an element: the parser yields something that is no element
            st_["events"].append(Event("c16", f"garbage:{j}", [], [], None, None, "", ""))
            gb = z3.Bool(ex_.ctx.fresh_name("garbage_parses"))
            it.kids["offset"].val = z3.BitVec(ex_.ctx.fresh_name("garbage_offset"), 64)
            return Fork([(gb, lambda e2, s2, t2: e2.mk_variant("Option", 1, "Some", e2.mk_variant("Result", 0, "Ok", Opaque(z3.Const(f"value:garbage@read{j}", OBJ))))),
                         (z3.Not(gb), lambda e2, s2, t2: e2.mk_variant("Option", 1, "Some", e2.mk_variant("Result", 1, "Err", Opaque(z3.Const(f"serde_error:garbage@read{j}", OBJ)))))])
        alts = []
        for cond, kind in lay.classes(p, entails_in(ex, st)):
            alts.append((cond, (lambda ex_, st_, tr, kind=kind: f(ex_, st_, kind, tr))))
        return Fork(alts)

    def m_byte_offset(ex, st, callee, args, dty, site):
        it = args[0].node if isinstance(args[0], Ptr) else args[0]
        return ex.read_node(it.kids["offset"])

    def m_invalid_params(ex, st, callee, args, dty, site):
        return Opaque(z3.Const(ex.ctx.fresh_name("invalid_params_error"), OBJ))

    return [
        (r"^core::str::<impl str>::as_bytes$", m_identity_text),
        (r"^<Cow<'_, str> as Deref>::deref$", m_identity_text),
        (r"^core::slice::<impl \[u8\]>::first$", m_first),
        (r"^<str as (std::ops::)?Index<(std::ops::)?RangeFrom<usize>>>::index$", m_index_from),
        (r"^core::str::<impl str>::trim_start$", m_trim_start),
        (r"^core::str::<impl str>::starts_with::<char>$", m_starts_with_char),
        (r"^core::str::<impl str>::is_empty$", m_is_empty),
        (r"^<&Cow<'_, str> as PartialEq<&str>>::(eq|ne)$|^<Cow<'_, str> as PartialEq<&str>>::(eq|ne)$|^<&?str as PartialEq(<&?str>)?>::(eq|ne)$", m_eq_literal),
        (r"^serde_json::Deserializer::<StrRead<'_>>::from_str$", m_from_str),
        (r"^serde_json::Deserializer::<StrRead<'_>>::into_iter::<.*>$", m_into_iter),
        (r"^<StreamDeserializer<'_, StrRead<'_>, .*> as Iterator>::next$", m_stream_next),
        (r"^StreamDeserializer::<'_, StrRead<'_>, .*>::byte_offset$", m_byte_offset),
        (r"^invalid_params::<.*>$", m_invalid_params),
    ]


MODEL_DOC = [
    "params text = '[' ws e0 ws ',' ws e1 ... ']' with k elements; every whitespace run length and element length is a solver variable (<= 2^20), "
    "an element's first byte is any byte that is not whitespace, ',' or ']' (it may be '[' or '\"'), interior bytes are unconstrained",
    "&str values are suffixes of that text (start offset); as_bytes / Cow::deref are identities; [a..] adds a (panics past the end); trim_start skips the whitespace run it stands in",
    "[u8]::first: the byte the layout puts at that offset (None at the end)",
    "serde_json StreamDeserializer::next by contract: skip whitespace; end -> None; at an element -> Ok(value of that element) with byte_offset just past it when this read's "
    "type accepts the element (solver's choice per read and element), else Err; at ',' or ']' -> Err(expected value); inside an element or at the outer '[' -> an arbitrary outcome",
    "invalid_params(e) is an opaque error object (its code is decided by kernel:invalid_params:code)",
]


def _literals():
    """string literals of promoted constants of params.rs functions, by function name"""
    txt = open(R._cache["types"][3]).read()
    out = {}
    for m in re.finditer(r"^const params::<impl at types/src/params\.rs:[\d: ]+>::(\w+)::promoted\[(\d+)\]: &&str = \{(.*?)^\}", txt, re.S | re.M):
        mm = re.search(r'_1 = const "((?:[^"\\]|\\.)*)";', m.group(3))
        if mm:
            out[(m.group(1), int(m.group(2)))] = mm.group(1)
    return out


class Drv:
    def __init__(self, types, k):
        self.types, self.k = types, k
        self.lay = Layout(k)
        lits = _literals()

        def literal_of(callee, arg):
            v = MM.value_of(self.ex, arg)
            if isinstance(v, StrConst):
                return v.s
            t = str(to_term(v)) if not isinstance(v, Node) else (str(to_term(v.val)) if v.val is not None else v.name)
            m = re.search(r"(\w+)::promoted\[(\d+)\]", t)
            if m:
                return lits.get((m.group(1), int(m.group(2))))
            return None
        t = R.source_tables()
        self.ctx = Ctx(types, consts=t["consts"], enums=t["enums"],
                       models=make_models(self.lay, literal_of) + list(SQ.TRY_MODELS) + list(M.TRACING_MODELS) + list(M.MEM_MODELS) + list(M.INT_MODELS) + P.COMMON_MODELS,
                       inline=[M.crate_inliner(types)], max_paths=4000)
        self.ctx.c16_read = 0
        self.ex = Executor(self.ctx)
        S = r"^fn params::<impl at types/src/params\.rs:[\d: ]+>::"
        self.b_seq = R.find_body(types, S + r"sequence\(_1: &Params<'_>\)")
        self.b_next = R.find_body(types, S + r"next\(_1: &mut ParamsSequence<'_>\) -> Result<T,")
        self.b_opt = R.find_body(types, S + r"optional_next\(_1: &mut ParamsSequence<'_>\)")
        self.abnormal = []

    def start_states(self, absent=False):
        """ParamsSequence values produced by Params::sequence() on the layout text (or on absent params): [(pc, seqnode)]"""
        ex = self.ex
        params = Node("params", "Params")
        o = Node("params.0", "Option<Cow<str>>")
        if absent:
            o2 = MM.option(ex, False)
        else:
            o2 = MM.option(ex, True, _text(ex, z3.BitVecVal(0, 64)))
        ex.write(o, o2)
        params.kids[0] = o
        out = []
        for p in ex.run(self.b_seq, args=[Ptr(params)], pc0=self.lay.constraints()):
            if p.kind != "return":
                self.abnormal.append(("sequence", p.kind, p.detail))
                continue
            seq = Node("seq", "ParamsSequence")
            ex.write(seq, p.ret)
            seq.name = "seq"
            out.append((list(p.pc), seq))
        return out

    def read(self, pc, seq, kind, j):
        """one next / optional_next from state seq: [(pc', seq', outcome)] outcome = ('ok', term) | ('none',) | ('err',) | ('panic', detail)"""
        ex = self.ex
        self.ctx.c16_read = j
        body = self.b_next if kind == "next" else self.b_opt
        s2 = ex.deep_clone(seq)
        out = []
        for p in ex.run(body, args=[Ptr(s2)], pc0=pc):
            if p.kind == "panic":
                out.append((list(p.pc), None, ("panic", p.detail), p))
                continue
            if p.kind != "return":
                self.abnormal.append((f"{kind}#{j}", p.kind, p.detail))
                continue
            st = p.frame
            seq2 = ex.pointee(st["mem"][(0, body.params[0][0])])
            d = z3.simplify(ex.discr_of(p.ret))
            if not z3.is_bv_value(d):
                self.abnormal.append((f"{kind}#{j}", "unsupported", "result discriminant not concrete"))
                continue
            if d.as_long() == 1:
                out.append((list(p.pc), seq2, ("err",), p))
                continue
            pay = ex.read_node(p.ret.kids[("Ok", 0)]) if ("Ok", 0) in p.ret.kids else None
            if kind == "optional" and isinstance(pay, Node) and "discr" in pay.kids:
                od = z3.simplify(ex.read_node(pay.kids["discr"]))
                if z3.is_bv_value(od) and od.as_long() == 0:
                    out.append((list(p.pc), seq2, ("none",), p))
                    continue
                if z3.is_bv_value(od) and od.as_long() == 1 and ("Some", 0) in pay.kids:
                    pay = ex.read_node(pay.kids[("Some", 0)])
                    while isinstance(pay, Node) and "discr" in pay.kids and ("Some", 0) in pay.kids:      # Option<Option<T>> flattened by the caller
                        pay = ex.read_node(pay.kids[("Some", 0)])
            out.append((list(p.pc), seq2, ("ok", str(to_term(MM.value_of(ex, pay))) if pay is not None else "?"), p))
        return out


def explore(types, k, kinds, absent=False):
    """all paths of the read sequence `kinds` over a k-element array; returns (violations [(cond, why, trace)], reach conds, drv)"""
    d = Drv(types, k)
    viol, reach = [], []
    states = [(pc, seq, 0, False, []) for pc, seq in d.start_states(absent)]
    kk = 0 if absent else k
    for j, kind in enumerate(kinds):
        nxt = []
        for pc, seq, i, failed, trace in states:
            for pc2, seq2, out, p in d.read(pc, seq, kind, j):
                cond = z3.And(*pc2) if pc2 else z3.BoolVal(True)
                tr2 = trace + [(kind, out)]
                if out[0] == "panic":
                    viol.append((cond, "panic", tr2))
                    continue
                if failed:
                    # after a failed read: only errors or 'absent'
                    if out[0] == "ok":
                        viol.append((cond, "value-after-failed-read", tr2))
                    nxt.append((pc2, seq2, i, True, tr2))
                    continue
                if i < kk:
                    want_val = f"value:elem{i}@read{j}"
                    if out[0] == "ok":
                        if want_val not in out[1]:
                            viol.append((cond, "wrong-element", tr2))
                        nxt.append((pc2, seq2, i + 1, False, tr2))
                    elif out[0] == "err":
                        # legitimate only as the type mismatch of element i
                        acc = z3.Bool(f"read{j}.accepts_elem{i}")
                        if d.ex.feasible(pc2 + [acc]):
                            viol.append((z3.And(cond, acc), "error-on-acceptable-element", tr2))
                        nxt.append((pc2, seq2, i, True, tr2))
                    else:
                        # 'absent' where an element stands: only optional_next at a JSON null may say that - and then the element is consumed
                        nul = z3.Bool(f"elem{i}.is_null")
                        if kind == "optional" and not d.ex.feasible(pc2 + [z3.Not(nul)]):
                            nxt.append((pc2, seq2, i + 1, False, tr2))
                        else:
                            viol.append((cond, "absent-before-end", tr2))
                            nxt.append((pc2, seq2, i, True, tr2))
                else:
                    if kind == "next":
                        if out[0] != "err":
                            viol.append((cond, "value-past-end", tr2))
                    else:
                        if out[0] != "none":
                            viol.append((cond, "optional-past-end-not-absent", tr2))
                    nxt.append((pc2, seq2, i, out[0] == "err" and False, tr2))
        states = nxt
    for pc, seq, i, failed, trace in states:
        reach.append(z3.And(*pc) if pc else z3.BoolVal(True))
    return viol, reach, d


def _native_args(k, kinds, model, absent):
    """concrete text and typed reads for the native scenario: element kinds and read types chosen so that type acceptance reproduces the
    model's accept / reject choices"""
    g = lambda name, dflt=0: int(model.get(name, dflt)) if str(model.get(name, dflt)).isdigit() else dflt
    ws = lambda n: " " * min(n, 3)
    want = {}
    for name, val in model.items():
        m = re.match(r"read(\d+)\.accepts_elem(\d+)", name)
        if m:
            want[(int(m.group(1)), int(m.group(2)))] = (str(val) == "True")
    nulls = {int(m_.group(1)) for name, val in model.items() for m_ in [re.match(r"elem(\d+)\.is_null$", name)] if m_ and str(val) == "True"}
    tys = ("u64", "String", "bool")
    vals = {"u64": lambda i: str(7 + i), "String": lambda i: '"s%d"' % i, "bool": lambda i: "true"}
    if nulls:
        # a null element: reads that accept it are typed Value (next) / anything (optional_next: Option<T> takes null); reads that refuse it u64
        et = tuple("null" if i in nulls else "u64" for i in range(k))
        rt = []
        for j, kd in enumerate(kinds):
            acc_null = [a for (jj, i), a in want.items() if jj == j and i in nulls]
            acc_other = [a for (jj, i), a in want.items() if jj == j and i not in nulls]
            if kd == "next" and any(acc_null):
                rt.append("Value")
            elif acc_other and not all(acc_other):
                rt.append("String")
            else:
                rt.append("u64")
        text = None if absent else ("[" + ws(g("ws_before0")) + "]" if k == 0 else
                                    "[" + ",".join(ws(g(f"ws_before{i}")) + ("null" if i in nulls else str(7 + i)) + ws(g(f"ws_after{i}")) for i in range(k)) + "]")
        return {"text": text, "reads": [[kd, rt[j]] for j, kd in enumerate(kinds)]}
    pick = None
    for rt in itertools.product(tys, repeat=len(kinds)):
        for et in itertools.product(tys, repeat=k):
            if all((rt[j] == et[i]) == a for (j, i), a in want.items() if j < len(kinds) and i < k):
                pick = (rt, et)
                break
        if pick:
            break
    rt, et = pick or (("u64",) * len(kinds), ("u64",) * k)
    if absent:
        text = None
    elif k == 0:
        text = "[" + ws(g("ws_before0")) + "]"
    else:
        text = "[" + ",".join(ws(g(f"ws_before{i}")) + vals[et[i]](i) + ws(g(f"ws_after{i}")) for i in range(k)) + "]"
    return {"text": text, "reads": [[kd, rt[j]] for j, kd in enumerate(kinds)]}


_POOL_TYPES = None


def _to_smt(c):
    sv = z3.Solver()
    sv.add(c)
    return sv.to_smt2()


def _from_smt(txt):
    fs = z3.parse_smt2_string(txt)
    return z3.And(*fs) if len(fs) != 1 else fs[0]


def _explore_job(job):
    """one read sequence, run in a worker process: the conditions travel back as SMT-LIB2 text"""
    k, kinds, absent = job
    viol, reach, d = explore(_POOL_TYPES, k, kinds, absent)
    plain_trace = lambda tr: [(a, tuple(str(x) for x in b)) for a, b in tr]
    return ([(_to_smt(c), why, plain_trace(tr)) for c, why, tr in viol], [_to_smt(c) for c in reach], sorted(d.ctx.encoded_bodies),
            [tuple(str(x) for x in a) for a in d.abnormal])


def _explore_all(types, jobs):
    """the read sequences are independent of each other: explored on all cores (fork: the parsed MIR is shared), sequentially if that is not possible"""
    global _POOL_TYPES
    import multiprocessing as mp
    import os as _os
    n = min(len(jobs), max(1, (_os.cpu_count() or 2) - 2))
    if n > 1 and _os.environ.get("VERIF_C16_SEQUENTIAL") != "1":
        try:
            _POOL_TYPES = types
            with mp.get_context("fork").Pool(n) as pool:
                res = pool.map(_explore_job, jobs, chunksize=1)
            return [([(_from_smt(c), why, tr) for c, why, tr in v], [_from_smt(c) for c in r], enc, abn) for v, r, enc, abn in res]
        except Exception as e:       # noqa: BLE001 - any failure of the pool falls back to the sequential run, whose result decides
            sys.stderr.write(f"[C16] parallel exploration not available ({e!r}); running sequentially\n")
    out = []
    for k, kinds, absent in jobs:
        viol, reach, d = explore(types, k, kinds, absent)
        out.append((viol, reach, sorted(d.ctx.encoded_bodies), list(d.abnormal)))
    return out


def sequence_obligations(types, tier, K=None, Mx=None, only=None):
    out = []
    K0, Mx0 = (2, 3) if tier == "quick" else (3, 4)
    K, Mx = K or K0, Mx or Mx0
    groups = {}
    bodies = set()
    abnormal = []
    reach_all = []
    n_runs = 0
    jobs = [(k, kinds, absent) for absent in (False, True) for k in ([0] if absent else range(K + 1)) for m in range(1, Mx + 1)
            for kinds in itertools.product(("next", "optional"), repeat=m)]
    for (k, kinds, absent), (viol, reach, enc, abn) in zip(jobs, _explore_all(types, jobs)):
        n_runs += 1
        bodies |= set(enc)
        abnormal += abn
        reach_all += reach
        for cond, why, trace in viol:
            groups.setdefault(why, []).append((cond, trace, k, kinds, absent))
    if abnormal:
        out.append(R.Result(engine="mirsym", name="sequence:encoding", kind="state-machine", status="unsupported", detail=str(abnormal[:2])[:400], bodies=sorted(bodies)))
        return out
    DESC = {
        "wrong-element": "the j-th successful read returns the j-th element of the array (the value the parser produced at exactly that element), in order",
        "error-on-acceptable-element": "a read fails only when its type does not accept the element standing at its position",
        "absent-before-end": "'absent' / exhaustion is reported only after the last element",
        "value-past-end": "next() after the last element is an error",
        "optional-past-end-not-absent": "optional_next() after the last element (also: empty array with interior whitespace, absent params) is Ok(None)",
        "value-after-failed-read": "after a failed read, later reads yield only errors or 'absent' - never an element",
        "panic": "no read panics (slicing stays inside the text)",
    }
    bounds = (f"arrays of 0..{K} elements (and absent params), every whitespace run / element length symbolic up to 2^20 bytes, every sequence of 1..{Mx} reads over {{next, optional_next}}, "
              f"every accept/reject choice of each read for each element")
    extra = {"models": MODEL_DOC, "read_sequences": n_runs}
    reach_q = [z3.Or(*reach_all[:200])] if reach_all else [z3.BoolVal(False)]
    for why, desc in DESC.items():
        if only and why not in only:
            continue
        vs = sorted(groups.get(why, []), key=lambda x: (len(x[3]), x[2]))
        q = z3.Or(*[c for c, *_ in vs[:60]]) if vs else z3.BoolVal(False)
        r = R.decide(f"sequence:{why}", "state-machine", q, reach_q, bodies=sorted(bodies), bounds=bounds, desc=desc, extra=extra, keydetail=why)
        if r["status"] == "violated":
            cond, trace, k, kinds, absent = vs[0]
            s = z3.Solver()
            s.add(cond)
            # small whitespace runs for the native text
            for nm in [f"ws_before{i}" for i in range(max(k, 1))] + [f"ws_after{i}" for i in range(k)]:
                s.add(z3.ULE(z3.BitVec(nm, 64), 2))
            model = {}
            if s.check() == z3.sat:
                mdl = s.model()
                model = {str(dd): str(mdl[dd]) for dd in mdl.decls() if dd.arity() == 0}
            r["key"] = f"mirsym:c16:{why}:k={k}:" + ",".join(kinds) + (":absent" if absent else "") + ":" + ("ws" if any(str(model.get(f"ws_before{i}", "0")) != "0" or str(model.get(f"ws_after{i}", "0")) != "0" for i in range(max(k, 1))) else "tight")
            r["replay"] = {"scenario": "c16_sequence", "args": _native_args(k, kinds, model, absent)}
            r["detail"] = f"k={k} reads={kinds} trace={[(a, b[0]) for a, b in trace]}"
        out.append(r)
    return out


def _scan_layout(text):
    """(k, ws_before[], len[], ws_after[], first_byte[]) of a JSON array text, by a bracket / string aware scan"""
    assert text[0] == "[" and text[-1] == "]"
    i, n = 1, len(text)
    items = []          # (start, end) of elements
    depth, instr, esc, start = 0, False, False, None
    while i < n - 1:
        ch = text[i]
        if start is None:
            if ch in " \t\n\r" or ch == ",":
                i += 1
                continue
            start = i
        if instr:
            if esc:
                esc = False
            elif ch == "\\":
                esc = True
            elif ch == '"':
                instr = False
        elif ch == '"':
            instr = True
        elif ch in "[{":
            depth += 1
        elif ch in "]}":
            depth -= 1
        nxt = text[i + 1] if i + 1 < n else ""
        if not instr and depth == 0 and (nxt in " \t\n\r,]" ) and not (ch in " \t\n\r"):
            # end of a value if the next char is a delimiter
            items.append((start, i + 1))
            start = None
        i += 1
    k = len(items)
    wb, ln, wa, fb = [], [], [], []
    pos = 1
    for (s0, e0) in items:
        wb.append(s0 - pos)
        ln.append(e0 - s0)
        j = e0
        while text[j] in " \t\n\r":
            j += 1
        wa.append(j - e0)
        fb.append(ord(text[s0]))
        pos = j + 1
    if k == 0:
        wb = [n - 2]
    return k, wb, ln, wa, fb


def _py_accepts(ty, v):
    return {"u64": isinstance(v, int) and not isinstance(v, bool) and v >= 0, "String": isinstance(v, str), "bool": isinstance(v, bool)}.get(ty, True)


def validate(types):
    """translator validation (not the deciding step): concrete texts and typed read sequences through the real code and through the encoding"""
    import json as _json
    texts = ['[1, "a" ,true]', "[]", "[ 1 ,2 ]", '["x"]', '[[1,2],{"a":[3]}, "s,]"]', "[null, 5]", "[7,8,9]", '[true,"q"]']
    scripts = [[["next", "u64"], ["optional", "String"], ["next", "bool"], ["optional", "u64"]], [["optional", "u64"], ["optional", "u64"]], [["next", "String"], ["next", "u64"]],
               [["next", "Value"], ["next", "Value"], ["next", "Value"], ["next", "Value"]]]
    vectors = [{"text": t, "reads": sc} for t in texts for sc in scripts]

    def predict(vec):
        text, reads = vec["text"], vec["reads"]
        elems = _json.loads(text)
        k, wb, ln, wa, fb = _scan_layout(text)
        if k != len(elems):
            return {"kinds": None}
        d = Drv(types, k)
        lay = d.lay
        pin = [lay.w[i] == wb[i] for i in range(max(k, 1))] + [lay.l[i] == ln[i] for i in range(k)] + [lay.v[i] == wa[i] for i in range(k)] + [lay.fb[i] == fb[i] for i in range(k)]
        for j, (kd, ty) in enumerate(reads):
            for i in range(k):
                pin.append(z3.Bool(f"read{j}.accepts_elem{i}") == z3.BoolVal(_py_accepts(ty, elems[i]) or (kd != "next" and elems[i] is None)))
        pin += [z3.Bool(f"elem{i}.is_null") == z3.BoolVal(elems[i] is None) for i in range(k)]
        sts = [(pc + pin, seq) for pc, seq in d.start_states() if d.ex.feasible(pc + pin)]
        if len(sts) != 1:
            return {"kinds": f"{len(sts)} start states"}
        pc, seq = sts[0]
        kinds, pos = [], 0
        for j, (kd, ty) in enumerate(reads):
            outs = [(pc2, seq2, out) for pc2, seq2, out, _ in d.read(pc, seq, kd, j) if d.ex.feasible(pc2)]
            if len(outs) != 1:
                return {"kinds": f"{len(outs)} outcomes at read {j}"}
            pc, seq, out = outs[0]
            if out[0] == "ok":
                m = re.search(r"value:elem(\d+)@", out[1])
                i = int(m.group(1)) if m else -1
                kinds.append("Absent" if (kd != "next" and 0 <= i < k and elems[i] is None) else "Val")
            else:
                kinds.append({"none": "Absent", "err": "Err", "panic": "Panic"}[out[0]])
            if seq is None:
                break
        return {"kinds": kinds}
    VALIDATION["sequence"] = R.validate_encoding("c16_sequence", vectors, predict, ["kinds"])
    return VALIDATION["sequence"]


def _invalid_params_code(types):
    b = R.find_body(types, r"^fn (\w+::)*invalid_params\(_1: impl ToString\)")
    ctx = P.make_ctx(types, extra_models=[])
    ex = Executor(ctx)
    ps = ex.run(b)
    bad = [(p.kind, p.detail) for p in ps if p.kind != "return"]
    viol, reach = [], []
    txt = open(R._cache["types"][3]).read()
    m = re.search(r"^const invalid_params::promoted\[0\]: &ErrorCode = \{(.*?)^\}", txt, re.S | re.M)
    promoted_is_invalid_params = bool(m and re.search(r"_1 = (?:error::)?(?:ErrorCode::)?InvalidParams;", m.group(1)))
    for p in ps:
        if p.kind != "return":
            continue
        reach.append(p.cond())
        ow = [e for e in p.events if e.kind == "call" and re.search(r"ErrorObject::<'_>::owned::<", e.callee)]
        code = [e for e in p.events if e.kind == "call" and re.search(r"ErrorCode::code$", e.callee)]
        ok = len(ow) == 1 and len(code) == 1 and "promoted[0]" in str(to_term(code[0].args[0])) and str(to_term(ow[0].args[0])) == str(to_term(code[0].ret)) and promoted_is_invalid_params
        if not ok:
            viol.append(p.cond())
    return b, viol, reach, bad


def _parse_defaults(types):
    """Params::parse: absent params are parsed as the text `null`, present params as their own text; every serde error goes through
    invalid_params. Params::one is parse::<[T; 1]> and returns that one element."""
    S = r"^fn params::<impl at types/src/params\.rs:[\d: ]+>::"
    b = R.find_body(types, S + r"parse\(_1: &Params<'_>\) -> Result<T,")
    ctx = P.make_ctx(types, extra_models=list(SQ.TRY_MODELS))
    ex = Executor(ctx)
    ps = ex.run(b)
    bad = [(p.kind, p.detail) for p in ps if p.kind != "return"]
    viol, reach = [], {"absent": [], "present": []}
    for p in ps:
        if p.kind != "return":
            continue
        fs = [e for e in p.events if e.kind == "call" and re.search(r"^serde_json::from_str::<", e.callee)]
        me = [e for e in p.events if e.kind == "call" and re.search(r"^Result::<T, serde_json::Error>::map_err::<", e.callee)]
        if len(fs) != 1 or len(me) != 1:
            viol.append(p.cond())
            continue
        t = str(to_term(MM.value_of(ex, fs[0].args[0])))
        absent = not ex.feasible(list(p.pc) + [z3.BitVec("arg1.*.0.discr", 64) != 0])
        if absent:
            reach["absent"].append(p.cond())
            if t != "str:null":
                viol.append(p.cond())
        else:
            reach["present"].append(p.cond())
            if "arg1.*.0.Some:0" not in t or "AsRef<str>>::as_ref" not in t:
                viol.append(p.cond())
        if "invalid_params::<serde_json::Error>" not in str(to_term(me[0].args[1])) or str(to_term(fs[0].ret)) not in str(to_term(me[0].args[0])):
            viol.append(p.cond())
        # the result returned is that map_err result
        if str(to_term(me[0].ret)) != str(to_term(MM.value_of(ex, p.ret))) and str(to_term(me[0].ret)) not in str(to_term(MM.value_of(ex, p.ret))):
            viol.append(p.cond())
    return b, viol, reach, bad


def _one(types):
    S = r"^fn params::<impl at types/src/params\.rs:[\d: ]+>::"
    b = R.find_body(types, S + r"one\(_1: &Params<'_>\) -> Result<T,")
    ctx = P.make_ctx(types, extra_models=list(SQ.TRY_MODELS))
    ex = Executor(ctx)
    ps = ex.run(b)
    bad = [(p.kind, p.detail) for p in ps if p.kind != "return"]
    viol, reach = [], []
    for p in ps:
        if p.kind != "return":
            continue
        reach.append(p.cond())
        pe = [e for e in p.events if e.kind in ("call", "inline") and re.search(r"::parse::<\[T; 1\]>$", e.callee)]
        if len(pe) != 1 or "arg1" not in str(to_term(pe[0].args[0])):
            viol.append(p.cond())
    return b, viol, reach, bad


def obligations(tier, seed):
    types = R.bodies("types")
    out = sequence_obligations(types, tier)
    val = validate(types)
    if val["disagreements"] or val.get("native_violations"):
        out.append(R.Result(engine="mirsym", name="validation:sequence-encoding", kind="validation", status="encoder-disagrees-with-native",
                            detail=str(val["disagreements"][:1] or f"{val['native_violations']} native violations on the validation vectors")[:400], bodies=[]))
    b, viol, reach, bad = _invalid_params_code(types)
    reach_l = R.live_reach(viol, reach, bad)
    if bad or not reach_l[0]:
        out.append(R.Result(engine="mirsym", name="kernel:invalid_params:code", kind="kernel", status="unsupported", detail=str(bad[:1])[:300], bodies=[b.name]))
    else:
        out.append(R.decide("kernel:invalid_params:code", "kernel", z3.Or(*viol) if viol else z3.BoolVal(False), [z3.Or(*reach_l[0])], bodies=[b.name],
                            desc="invalid_params(e) builds the error object with ErrorCode::InvalidParams.code() (-32602, see C15 for the code table) for every e",
                            bounds="every path", keydetail="invalid-params-code", replay=dict(scenario="c16_sequence", vars={}, fixed={"text": "[\"x\"]", "reads": [["next", "u64"]]}, region=z3.BoolVal(True))))
    b, viol, reach, bad = _parse_defaults(types)
    reach_l = R.live_reach(viol, reach, bad)
    if bad or not all(reach_l):
        out.append(R.Result(engine="mirsym", name="prov:Params::parse", kind="provenance", status="unsupported" if bad else "vacuous", detail=str(bad[:1] or {k: len(v) for k, v in reach.items()})[:300], bodies=[b.name]))
    else:
        out.append(R.decide("prov:Params::parse:text-or-null", "provenance", z3.Or(*viol) if viol else z3.BoolVal(False), [z3.Or(*v) for v in reach_l], bodies=[b.name],
                            desc="Params::parse hands serde_json the params' own text, or the text `null` when params are absent, and maps every serde error through invalid_params",
                            bounds="params absent / present; every path", keydetail="parse-text",
                            replay=dict(scenario="c16_whole", vars={}, fixed={"battery": True}, region=z3.BoolVal(True))))
    b, viol, reach, bad = _one(types)
    reach_l = R.live_reach(viol, reach, bad)
    if bad or not reach_l[0]:
        out.append(R.Result(engine="mirsym", name="prov:Params::one", kind="provenance", status="unsupported", detail=str(bad[:1])[:300], bodies=[b.name]))
    else:
        out.append(R.decide("prov:Params::one:is-parse-of-one-element-array", "provenance", z3.Or(*viol) if viol else z3.BoolVal(False), [z3.Or(*reach_l[0])], bodies=[b.name],
                            desc="Params::one::<T> is parse::<[T; 1]> on the same params", bounds="every path", keydetail="one",
                            replay=dict(scenario="c16_whole", vars={}, fixed={"battery": True}, region=z3.BoolVal(True))))
    return out
