"""C17 - generated APIs: client stub calls reach the server method with equal arguments.

The `rpc` macro is run by rustc on a fixture crate (/verif/fixture17: a family of APIs); the MIR of its expansion - client stubs, the
server's into_rpc and every registered callback - is executed symbolically. Argument values are opaque symbols, so an obligation holds for
every value of the declared types. The reference (names, order, optionality) is read from the fixture's own source text.
"""
import os
import re
import z3
from .. import run as R, models as M, mapmodels as MM, prov as P, seqmodels as SQ
from ..sym import Ctx, Executor, Node, Ptr, Opaque, OBJ, to_term, Fork, Unsupported, StrConst, Event

VALIDATION = {}


# ------------------------------------------------------------------------------------------------ reference: the fixture's declarations
def _split_args(s):
    out, depth, cur = [], 0, []
    for ch in s:
        if ch in "<([":
            depth += 1
        elif ch in ">)]":
            depth -= 1
        if ch == "," and depth == 0:
            out.append("".join(cur))
            cur = []
        else:
            cur.append(ch)
    if "".join(cur).strip():
        out.append("".join(cur))
    return [a.strip() for a in out]


def camel(s):
    parts = s.split("_")
    return parts[0] + "".join(p[:1].upper() + p[1:] for p in parts[1:])


def declarations():
    src = open(os.path.join(R.VERIF, "fixture17", "src", "lib.rs")).read()
    apis = []
    for m in re.finditer(r"#\[rpc\(([^\]]*)\)\]\s*pub trait (\w+) \{(.*?)\n\}", src, re.S):
        attrs, tname, body = m.group(1), m.group(2), m.group(3)
        ns = re.search(r'namespace\s*=\s*"([^"]*)"', attrs)
        sep = re.search(r'namespace_separator\s*=\s*"([^"]*)"', attrs)
        ident = (lambda n, ns=ns, sep=sep: f"{ns.group(1)}{sep.group(1) if sep else '_'}{n}" if ns else n)
        items = []
        for im in re.finditer(r"#\[(method|subscription)\((.*?)\)\]\s*(async\s+)?fn (\w+)\(&self(?:,\s*(.*?))?\)\s*->", body, re.S):
            kind, a, is_async, fname, args = im.group(1), im.group(2), bool(im.group(3)), im.group(4), im.group(5) or ""
            params = []
            for arg in _split_args(args):
                rn = re.match(r'\s*#\[argument\(rename\s*=\s*"([^"]*)"\)\]\s*(.*)$', arg, re.S)
                wire = None
                if rn:
                    wire, arg = rn.group(1), rn.group(2)
                nm, ty = arg.split(":", 1)
                ty = ty.strip()
                params.append(dict(name=nm.strip(), wire=wire or nm.strip(), ty=ty, optional=ty.startswith("Option<")))
            name = re.search(r'(?<![\w])name\s*=\s*"([^"]*)"', a).group(1)
            al = re.search(r"(?<![\w])aliases\s*=\s*\[([^\]]*)\]", a)
            aliases = re.findall(r'"([^"]*)"', al.group(1)) if al else []
            ual = re.search(r"unsubscribe_aliases\s*=\s*\[([^\]]*)\]", a)
            pk = re.search(r"param_kind\s*=\s*(\w+)", a)
            it = dict(kind=kind, fn=fname, rpc=ident(name), aliases=aliases, is_async=is_async, blocking="blocking" in re.sub(r'"[^"]*"', "", a), params=params,
                      param_kind=pk.group(1) if pk else "array")
            if kind == "subscription":
                nt = re.search(r'name\s*=\s*"[^"]*"\s*=>\s*"([^"]*)"', a)
                it["notif"] = ident(nt.group(1)) if nt else ident(name)
                it["unsub"] = ident(re.search(r'unsubscribe\s*=\s*"([^"]*)"', a).group(1))
                it["unsub_aliases"] = re.findall(r'"([^"]*)"', ual.group(1)) if ual else []
            items.append(it)
        apis.append(dict(trait=tname, items=items))
    return apis


# ------------------------------------------------------------------------------------------------ helpers
def _str(v):
    if isinstance(v, StrConst):
        return v.s
    t = str(to_term(v)) if not isinstance(v, Node) else str(to_term(v.val)) if v.val is not None else ""
    m = re.match(r'^str:(.*)$', t, re.S)
    return m.group(1) if m else None


def _norm_ty(t):
    t = re.sub(r"\bstd::(option|string|vec|collections)::", "", t)
    t = re.sub(r"\s+", "", t)
    return t


def _term(ex, v):
    v = MM.value_of(ex, v)
    return (v.name if isinstance(v, Node) and v.val is None and not v.kids else str(to_term(v)))


# ------------------------------------------------------------------------------------------------ client stubs
def client_obligation(bods, api, it):
    tname = api["trait"] + "Client"
    b = R.find_body(bods, r"^fn " + tname + r"::" + it["fn"] + r"\(_1: &Self")
    ctx = P.make_ctx(bods, extra_models=list(SQ.TRY_MODELS) + list(M.TRACING_MODELS))
    ctx.inline = []
    ex = Executor(ctx)
    okflags = []

    def m_insert(ex_, st, callee, args, dty, site):
        # Result<(), serde_json::Error>: serialisation of a declared argument type (C20 decides the builder)
        k = len([e for e in st["events"] if e.kind == "call" and re.search(r"Params::insert::<", e.callee)])
        okb = z3.Bool(f"insert{k}.ok")
        okflags.append(okb)
        r = Node(ex_.ctx.fresh_name("insert_result"), "Result<(), Error>")
        d = Node(r.name + ".discr", "isize")
        d.val = z3.If(okb, z3.BitVecVal(0, 64), z3.BitVecVal(1, 64))
        r.kids["discr"] = d
        return r
    ctx.models = [(r"^(ArrayParams|ObjectParams)::insert::<", m_insert)] + ctx.models
    ps = ex.run(b)
    bad = [(p.kind, p.detail) for p in ps if p.kind in ("unsupported", "limit", "unwound")]
    viol, reach = [], []
    n = len(it["params"])
    by_name = it["param_kind"] == "map"
    for p in ps:
        if p.kind == "panic":
            # the stub panics when an argument cannot be serialised (documented in the generated code): only on a failed insert
            if ex.feasible(list(p.pc) + [z3.And(*[z3.Bool(f"insert{k}.ok") for k in range(n)])]):
                viol.append(p.cond())
            continue
        if p.kind != "return":
            continue
        pc = p.cond()
        calls = [e for e in p.events if e.kind == "call"]
        ins = [e for e in calls if re.search(r"Params::insert::<", e.callee)]
        req = [e for e in calls if re.search(r"as ClientT>::request::<|as SubscriptionClientT>::subscribe::<", e.callee)]
        reach.append(pc)
        ok = True
        why = []
        if len(req) != 1 or len(ins) != n:
            ok = False
            why.append(f"{len(ins)} inserts / {len(req)} requests")
        else:
            want_builder = "ObjectParams" if by_name else "ArrayParams"
            for i, e in enumerate(ins):
                prm = it["params"][i]
                if not e.callee.startswith(want_builder + "::insert::<"):
                    ok = False
                    why.append(f"insert {i} uses {e.callee[:30]}")
                val = e.args[2] if by_name else e.args[1]
                if f"arg{i + 2}" not in _term(ex, val):
                    ok = False
                    why.append(f"insert {i} does not carry argument {prm['name']}: {_term(ex, val)[:60]}")
                tm = re.search(r"insert::<(.*)>$", e.callee)
                if not tm or _norm_ty(tm.group(1)) != _norm_ty(prm["ty"]):
                    ok = False
                    why.append(f"insert {i} type {tm.group(1) if tm else '?'} vs declared {prm['ty']}")
                if by_name and _str(e.args[1]) != prm["wire"]:
                    ok = False
                    why.append(f"insert {i} key {_str(e.args[1])!r} vs {prm['name']!r}")
                # all inserts go into one builder, which is the one handed to request
            r0 = req[0]
            if it["kind"] == "method":
                if "request::<" not in r0.callee or _str(r0.args[1]) != it["rpc"]:
                    ok = False
                    why.append(f"request name {_str(r0.args[1])!r} vs {it['rpc']!r}")
            else:
                if "subscribe::<" not in r0.callee or _str(r0.args[1]) != it["rpc"] or _str(r0.args[3]) != it["unsub"]:
                    ok = False
                    why.append(f"subscribe names {_str(r0.args[1])!r}/{_str(r0.args[3])!r} vs {it['rpc']!r}/{it['unsub']!r}")
            # the future returned is that request's
            if str(to_term(r0.ret)) not in str(to_term(MM.value_of(ex, p.ret))):
                ok = False
                why.append("the stub does not return the request future")
        if not ok:
            viol.append(pc)
            VALIDATION.setdefault("client:" + api["trait"] + "::" + it["fn"], why)
    return b, viol, reach, bad


# ------------------------------------------------------------------------------------------------ server callbacks
def _callback_body(bods, api, k, it):
    tname = api["trait"] + "Server"
    if it["kind"] == "subscription" or (it["is_async"] and not it["blocking"]):
        return R.find_body(bods, r"^fn " + tname + r"::into_rpc::\{closure#" + str(k) + r"\}::\{closure#0\}\(_1: Pin<&mut \{async block@")
    return R.find_body(bods, r"^fn " + tname + r"::into_rpc::\{closure#" + str(k) + r"\}\(_1: &\{closure@")


def server_obligation(bods, api, k, it):
    b = _callback_body(bods, api, k, it)
    n = len(it["params"])
    is_obj = z3.Bool("params.is_object")

    def nreads(st):
        return len([e for e in st["events"] if e.kind == "call" and re.search(r"^ParamsSequence::<'_>::(next|optional_next)::<", e.callee)])

    def m_read(ex_, st, callee, args, dty, site):
        j = nreads(st)
        okb = z3.Bool(f"read{j}.ok")
        kind = "optional_next" if "optional_next" in callee else "next"

        def ok(ex2, st2, tr):
            return ex2.mk_variant("Result", 0, "Ok", Opaque(z3.Const(f"value:read{j}", OBJ)))

        def er(ex2, st2, tr):
            return ex2.mk_variant("Result", 1, "Err", Opaque(z3.Const(f"error:read{j}", OBJ)))
        return Fork([(okb, ok), (z3.Not(okb), er)])

    def m_parse_obj(ex_, st, callee, args, dty, site):
        okb = z3.Bool("byname.ok")

        def ok(ex2, st2, tr):
            o = Node(ex2.ctx.fresh_name("parsed"), "ParamsObject")
            for i in range(n):
                kn = Node(f"{o.name}.{i}", None)
                kn.val = Opaque(z3.Const(f"value:byname{i}", OBJ))
                o.kids[i] = kn
            return ex2.mk_variant("Result", 0, "Ok", o)

        def er(ex2, st2, tr):
            return ex2.mk_variant("Result", 1, "Err", Opaque(z3.Const("error:byname", OBJ)))
        return Fork([(okb, ok), (z3.Not(okb), er)])
    models = [
        (r"^Params::<'_>::is_object$", lambda ex_, st, c, a, d, s: is_obj),
        (r"^Params::<'_>::parse::<.*ParamsObject<", m_parse_obj),
        (r"^ParamsSequence::<'_>::(next|optional_next)::<", m_read),
        (r"log_fail_parse(_as_object)?$", lambda ex_, st, c, a, d, s: MM.UNIT),
        (r"::into_owned$", M.m_identity),
    ] + list(SQ.TRY_MODELS) + list(M.TRACING_MODELS)
    ex, ctx, paths = P.explore(bods, b, extra_models=models, max_paths=4000)
    bad = [(p.kind, p.detail) for p in paths if p.kind in ("unsupported", "limit", "unwound")]
    viol, reach = [], {"array-ok": [], "array-err": [], "object-ok": [], "object-err": []}
    handler_rx = r"^<Self as " + api["trait"] + r"Server>::" + it["fn"] + r"(::<.*>)?$"
    state0 = [p for p in paths if (getattr(p, "state", None) or 0) == 0]
    first_arg = 2 if it["kind"] == "subscription" else 1       # (self, [pending,] params...)
    for p in state0:
        if p.kind not in ("return",):
            continue
        pc = p.cond()
        calls = [e for e in p.events if e.kind == "call"]
        reads = [e for e in calls if re.search(r"^ParamsSequence::<'_>::(next|optional_next)::<", e.callee)]
        hs = [e for e in calls if re.search(handler_rx, e.callee)]
        others = [e for e in calls if re.search(r"^<Self as \w+Server>::", e.callee) and not re.search(handler_rx, e.callee)]
        errs = [e for e in calls if re.search(r"ResponsePayload::<.*>::error::<|PendingSubscriptionSink::reject", e.callee)]
        objpath = not ex.feasible(list(p.pc) + [z3.Not(is_obj)])
        arrpath = not ex.feasible(list(p.pc) + [is_obj])
        why = []
        if others or len(hs) > 1:
            why.append("another / a second handler is invoked")
        if n == 0:
            # no parameters: the handler is simply called
            if len(hs) != 1:
                why.append("handler not invoked")
            reach["array-ok"].append(pc)
            reach["object-ok"].append(pc)
            reach["array-err"].append(pc)
            reach["object-err"].append(pc)
        elif arrpath:
            allok = not ex.feasible(list(p.pc) + [z3.Not(z3.And(*[z3.Bool(f"read{j}.ok") for j in range(n)]))])
            if hs:
                reach["array-ok"].append(pc)
                if not allok or len(reads) != n:
                    why.append(f"handler invoked after {len(reads)} reads (declared {n}) / a failed read")
                else:
                    for j, (e, prm) in enumerate(zip(reads, it["params"])):
                        kind = "optional_next" if "::optional_next::<" in e.callee else "next"
                        tm = re.search(r"::(?:next|optional_next)::<(.*)>$", e.callee)
                        want_kind = "optional_next" if prm["optional"] else "next"
                        want_ty = prm["ty"][len("Option<"):-1] if prm["optional"] else prm["ty"]
                        if kind != want_kind:
                            why.append(f"parameter {prm['name']}: read with {kind}, declared type {prm['ty']}")
                        if not tm or _norm_ty(tm.group(1)) != _norm_ty(want_ty):
                            why.append(f"parameter {prm['name']}: read as {tm.group(1) if tm else '?'}, declared {prm['ty']}")
                        if f"value:read{j}" not in _term(ex, hs[0].args[first_arg + j]):
                            why.append(f"handler argument {j} is not the value of read {j}: {_term(ex, hs[0].args[first_arg + j])[:60]}")
            else:
                reach["array-err"].append(pc)
                if allok and len(reads) == n:
                    why.append("all reads succeeded but the handler is not invoked")
                if not errs:
                    why.append("a failed read is not answered with the error")
        elif objpath:
            okp = not ex.feasible(list(p.pc) + [z3.Not(z3.Bool("byname.ok"))])
            if hs:
                reach["object-ok"].append(pc)
                if not okp:
                    why.append("handler invoked although by-name decoding failed")
                for i in range(n):
                    if f"value:byname{i}" not in _term(ex, hs[0].args[first_arg + i]):
                        why.append(f"handler argument {i} is not by-name field {i}")
                if reads:
                    why.append("positional reads on the by-name path")
            else:
                reach["object-err"].append(pc)
                if okp:
                    why.append("by-name decoding succeeded but the handler is not invoked")
                if not errs:
                    why.append("a failed by-name decoding is not answered with the error")
        if why:
            viol.append(pc)
            VALIDATION.setdefault("server:" + api["trait"] + "::" + it["fn"], why)
    return b, viol, reach, bad


def byname_fields_obligation(bods, api, k, it):
    """the by-name struct's field identifier visitor: each parameter's snake_case name and its camelCase form select that parameter's slot"""
    tname = api["trait"] + "Server"
    inner = r"::\{closure#0\}" if (it["kind"] == "subscription" or (it["is_async"] and not it["blocking"])) else ""
    cands = R.find_body(bods, r"^fn " + tname + r"::into_rpc::\{closure#" + str(k) + r"\}" + inner + r"::_::<impl at [^>]*>::deserialize::<impl at [^>]*>::visit_str\(_1: .*?__FieldVisitor, _2: &str\)", all_=True)
    if len(cands) != 1:
        return None, [z3.BoolVal(True)], [], [("site-missing", f"{len(cands)} visit_str bodies")]
    b = cands[0]
    key = {}

    def m_eq(ex_, st, callee, args, dty, site):
        lit = _str(args[1])
        if lit is None:
            raise Unsupported("str comparison with a non-literal")
        key.setdefault(lit, z3.Bool(f"key_is:{lit}"))
        return key[lit]
    ctx = P.make_ctx(bods, extra_models=[(r"^<str as PartialEq>::eq$", m_eq)])
    ctx.inline = []
    ex = Executor(ctx)
    ps = ex.run(b)
    bad = [(p.kind, p.detail) for p in ps if p.kind != "return"]
    lits = list(key)
    excl = [z3.Not(z3.And(key[a], key[c])) for i, a in enumerate(lits) for c in lits[i + 1:]]
    want = {}
    for i, prm in enumerate(it["params"]):
        # the declared wire name (what the generated client sends) and, as documented, its snake_case and lowerCamelCase forms
        want[prm["wire"]] = i
        if re.fullmatch(r"[a-z0-9_]+", prm["wire"]) and not prm["wire"].endswith("_"):
            want[camel(prm["wire"])] = i
    viol, reach = [], []
    for p in ps:
        if p.kind != "return":
            continue
        pc = z3.And(p.cond(), *excl)
        if not ex.feasible(list(p.pc) + excl):
            continue
        reach.append(pc)
        t = str(to_term(MM.value_of(ex, p.ret)))
        payload = ex.read_node(p.ret.kids[("Ok", 0)]) if isinstance(p.ret, Node) and ("Ok", 0) in p.ret.kids else None
        pt = (str(to_term(payload)) if payload is not None and not isinstance(payload, Node) else (str(to_term(payload.val)) if payload is not None and payload.val is not None else "")) + t
        fm = re.search(r"__field(\d+)", pt)
        sel = int(fm.group(1)) if fm else None
        chosen = [l for l in lits if not ex.feasible(list(p.pc) + excl + [z3.Not(key[l])])]
        if chosen:
            norm = lambda x: re.sub(r"[_\-]", "", x).lower()
            declared = want.get(chosen[0])
            # the declared wire names (and their documented camelCase form) must select their own slot; any further spelling the macro accepts may only be another
            # spelling of that same parameter's name (same letters, other case / separators)
            ok_sel = (declared == sel) if declared is not None else (sel is not None and sel < len(it["params"]) and norm(chosen[0]) == norm(it["params"][sel]["wire"]))
            if not ok_sel:
                viol.append(pc)
                VALIDATION.setdefault("byname:" + api["trait"] + "::" + it["fn"], f"key {chosen[0]!r} selects slot {sel}, declared {want.get(chosen[0])}")
        elif sel is not None:
            viol.append(pc)
    missing = [nm for nm in want if nm not in lits]
    if missing:
        viol.append(z3.BoolVal(True))
        VALIDATION.setdefault("byname:" + api["trait"] + "::" + it["fn"], f"names never compared: {missing}")
    return b, viol, reach, bad


# ------------------------------------------------------------------------------------------------ registration
def registration_obligation(bods, api):
    tname = api["trait"] + "Server"
    b = R.find_body(bods, r"^fn " + tname + r"::into_rpc\(_1: Self\)")
    ctx = P.make_ctx(bods, extra_models=[])
    ctx.inline = []
    ex = Executor(ctx)
    ps = [p for p in ex.run(b)]
    bad = [(p.kind, p.detail) for p in ps if p.kind in ("unsupported", "limit", "unwound")]
    viol, reach = [], []
    for p in ps:
        if p.kind != "return":
            continue
        reach.append(p.cond())
        regs = [e for e in p.events if e.kind == "call" and re.search(r"^RpcModule::<Self>::register_(method|async_method|blocking_method|subscription)::<", e.callee)]
        als = [e for e in p.events if e.kind == "call" and re.search(r"^RpcModule::<Self>::register_alias$", e.callee)]
        why = []
        if len(regs) != len(api["items"]):
            why.append(f"{len(regs)} registrations for {len(api['items'])} declared items")
        else:
            by_name = {}
            for e in regs:
                by_name.setdefault(_str(e.args[1]), []).append(e)
            for it in api["items"]:
                es = by_name.get(it["rpc"], [])
                if len(es) != 1:
                    why.append(f"{it['fn']}: {len(es)} registrations under {it['rpc']!r}")
                    continue
                e = es[0]
                kind = re.search(r"register_(\w+?)::<", e.callee).group(1)
                want = "subscription" if it["kind"] == "subscription" else ("blocking_method" if it["blocking"] else ("async_method" if it["is_async"] else "method"))
                if kind != want:
                    why.append(f"{it['fn']}: registered with register_{kind}, declared {want}")
                if _str(e.args[1]) != it["rpc"]:
                    why.append(f"{it['fn']}: registered as {_str(e.args[1])!r}, declared {it['rpc']!r}")
                if it["kind"] == "subscription" and (_str(e.args[2]) != it["notif"] or _str(e.args[3]) != it["unsub"]):
                    why.append(f"{it['fn']}: notification/unsubscribe names {_str(e.args[2])!r}/{_str(e.args[3])!r}, declared {it['notif']!r}/{it['unsub']!r}")
        got = sorted((_str(e.args[1]), _str(e.args[2])) for e in als)
        exp = sorted([(a, it["rpc"]) for it in api["items"] for a in it["aliases"]] + [(a, it["unsub"]) for it in api["items"] for a in it.get("unsub_aliases", [])])
        if got != exp:
            why.append(f"aliases {got} vs declared {exp}")
        if why:
            viol.append(p.cond())
            VALIDATION.setdefault("registration:" + api["trait"], why)
    return b, viol, reach, bad



def _native_battery(out, scenario, vectors, what):
    """validation, not the deciding step: the native scenario (real crates, oracle written from the property text) on fixed vectors must report nothing
    when every obligation is discharged; a disagreement means an obligation or the oracle is wrong => undecided"""
    val = R.validate_encoding(scenario, vectors, lambda v: {}, [])
    VALIDATION[what] = val
    if val.get("native_violations") and all(r.get("status") == "discharged" for r in out):
        out.append(R.Result(engine="mirsym", name="validation:" + what, kind="validation", status="native-battery-disagrees",
                            detail=f"{val['native_violations']} native violation(s) on the validation vectors although every obligation is discharged", bodies=[]))
    return out


def obligations(tier, seed):
    bods = R.bodies("fixture17")
    apis = declarations()
    out = []
    replay = dict(scenario="c17_roundtrip", vars={}, fixed={}, region=z3.BoolVal(True))

    def emit(name, kind, b, viol, reach, bad, desc, bounds, keydetail):
        reach_l = R.live_reach(viol, reach, bad)
        if bad or not all(reach_l):
            out.append(R.Result(engine="mirsym", name=name, kind=kind, status="unsupported" if bad else "vacuous",
                                detail=str(bad[:1] or ({k: len(v) for k, v in reach.items()} if isinstance(reach, dict) else "no path"))[:300], bodies=[b.name] if b is not None else []))
            return
        q = [v if isinstance(v, z3.ExprRef) else z3.BoolVal(bool(v)) for v in viol]
        r = R.decide(name, kind, z3.Or(*q) if q else z3.BoolVal(False), [z3.Or(*v) for v in reach_l], bodies=[b.name], desc=desc, bounds=bounds, keydetail=keydetail, replay=replay)
        out.append(r)
    for api in apis:
        b, viol, reach, bad = registration_obligation(bods, api)
        emit(f"registration:{api['trait']}", "provenance", b, viol, reach, bad,
             "into_rpc registers one callback per declared item under its namespaced name, with the declared kind (sync / async / blocking / subscription with notification and "
             "unsubscribe names), and every alias for exactly its method", "every path of into_rpc", "registration:" + api["trait"])
        # the macro registers the methods first, then the subscriptions (each group in declaration order): closure #k follows that order
        reg_order = [it for it in api["items"] if it["kind"] != "subscription"] + [it for it in api["items"] if it["kind"] == "subscription"]
        for k, it in enumerate(reg_order):
            label = f"{api['trait']}::{it['fn']}"
            b, viol, reach, bad = client_obligation(bods, api, it)
            emit(f"client:{label}", "provenance", b, viol, reach, bad,
                 f"the generated stub puts its arguments, each exactly once and in declaration order ({'by name' if it['param_kind'] == 'map' else 'positionally'}), into one params builder and "
                 f"sends it under {it['rpc']!r}" + (f" / {it['unsub']!r}" if it["kind"] == "subscription" else "") + "; it panics only when an argument cannot be serialised",
                 "all argument values (opaque symbols of the declared types); every insert outcome", "client:" + label)
            b, viol, reach, bad = server_obligation(bods, api, k, it)
            emit(f"server:{label}", "provenance", b, viol, reach, bad,
                 "the registered callback decodes the parameters positionally in declaration order - optional_next for every Option parameter, next for the others, at the declared "
                 "types - or by name, and invokes exactly this trait method once with exactly those values; any decoding error is answered without invoking it",
                 "params object / array; every success / failure choice of each read", "server:" + label)
            if it["params"]:
                b, viol, reach, bad = byname_fields_obligation(bods, api, k, it)
                emit(f"byname:{label}", "kernel", b, viol, reach, bad,
                     "by-name decoding: each parameter's name and its camelCase form select that parameter's slot, every other key is ignored",
                     "all key strings (one Boolean per compared literal, mutually exclusive)", "byname:" + label)
    return _native_battery(out, "c17_roundtrip", [{}], "native-roundtrip")
