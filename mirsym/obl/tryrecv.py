"""try_recv (server/src/transport/ws.rs): the receive step of a WebSocket connection, explored as the coroutine it compiles to. Every poll of the combined future
(stream item | ping tick | stop signal) is an arbitrary outcome; the obligations say what each outcome must lead to. Shared by C10 (the stop signal is reported as
`Stopped`, whatever the ping bookkeeping says) and C11 (a peer silent beyond the limit is counted on every tick and closed at the configured number of failures)."""
import re
import z3
from .. import run as R, models as M, prov as P, seqmodels as SQ
from ..sym import Node, Opaque, OBJ, to_term

POLL = r"Select<futures_util::future::Select<.*>, S> as (futures_util::)?(\w+::)*Future>::poll$"


def _entailed(ex, pc, d, n):
    if d is None:
        return None
    d = z3.simplify(d)
    if z3.is_bv_value(d):
        return d.as_long()
    for v in range(n):
        if not ex.feasible(list(pc) + [d != v]):
            return v
    return None


def _child(ex, node, key):
    try:
        if isinstance(node, Opaque):
            return ex.project_opaque(node, key, "aggregate")
        if isinstance(node, Node) and isinstance(node.val, Opaque) and key not in node.kids:
            return ex.project_opaque(node.val, key, "aggregate")
        c = ex.child(node, key, None)
        return ex.read_node(c) if isinstance(c, Node) and c.val is not None and not c.kids else c
    except Exception:
        return None


def _discr(ex, v):
    try:
        return ex.discr_of(v)
    except Exception:
        return None


def classify(ex, pc, ret):
    """which outcome of the combined future did this path take at this poll: pending | stop | stream-end | data | pong | error | tick | None (not inspected)"""
    d = _entailed(ex, pc, _discr(ex, ret), 2)
    if d is None:
        return None
    if d == 1:
        return "pending"
    outer = _child(ex, ret, ("Ready", 0))
    d = _entailed(ex, pc, _discr(ex, outer), 2)
    if d is None:
        return None
    if d == 1:
        return "stop"
    inner = _child(ex, _child(ex, outer, ("Left", 0)), 0)
    d = _entailed(ex, pc, _discr(ex, inner), 2)
    if d is None:
        return None
    if d == 1:
        return "tick"
    item = _child(ex, _child(ex, inner, ("Left", 0)), 0)
    d = _entailed(ex, pc, _discr(ex, item), 2)
    if d is None:
        return None
    if d == 0:
        return "stream-end"
    res = _child(ex, item, ("Some", 0))
    d = _entailed(ex, pc, _discr(ex, res), 2)
    if d is None:
        return None
    if d == 1:
        return "error"
    inc = _child(ex, res, ("Ok", 0))
    names = R.source_tables()["enums"].get("Incoming") or ["Data", "Pong"]
    d = _entailed(ex, pc, _discr(ex, inc), len(names))
    return None if d is None else names[d].lower()


def explore(srv):
    b = R.find_body(srv, r"^fn try_recv::\{closure#0\}\(_1: Pin<&mut \{async fn body of try_recv<")
    idle = []

    def m_gt(ex, st, callee, args, dty, site):
        # elapsed-since-last-activity > inactive_limit: one arbitrary truth value per evaluation
        a0, a1 = str(to_term(args[0])), str(to_term(args[1]))
        v = z3.Bool(ex.ctx.fresh_name("idle_beyond_limit"))
        idle.append((v, a0, a1))
        return v
    models = [(r"^<Duration as PartialOrd>::gt$", m_gt)] + list(SQ.TRY_MODELS) + list(M.TRACING_MODELS)
    ex, ctx, paths = P.explore(srv, b, extra_models=models, max_paths=6000, max_visits=3)
    return b, ex, paths, idle


def obligations(srv, which):
    """which: 'stop' (C10) or 'ticks' (C11)"""
    b, ex, paths, idle = explore(srv)
    bad = [(p.kind, p.detail) for p in paths if p.kind in ("unsupported", "limit")]
    variants = R.source_tables()["enums"]["Receive"]
    fi_max = R.field_index("PingConfig", "max_failures")
    fi_lim = R.field_index("PingConfig", "inactive_limit")
    idle_by_name = {str(v): (v, a0, a1) for v, a0, a1 in idle}
    viol, reach = [], {"stop": [], "stream-end": [], "tick-closed": [], "tick-continues": []}
    for p in paths:
        if p.kind in ("unsupported", "limit", "panic"):
            continue
        pc = list(p.pc)
        polls = [e for e in p.events if e.kind == "call" and re.search(POLL, e.callee)]
        kinds = [classify(ex, pc, e.ret) for e in polls]
        if not polls or kinds[-1] is None and p.kind == "return":
            continue
        ready = None
        if p.kind == "return":
            if _entailed(ex, pc, _discr(ex, p.ret), 2) == 0:
                r = _child(ex, p.ret, ("Ready", 0))
                k = _entailed(ex, pc, _discr(ex, r), len(variants))
                ready = variants[k] if k is not None else "?"
        cond = p.cond()
        if which == "stop":
            if p.kind != "return" or ready is None:
                continue
            last = kinds[-1]
            if last == "stop":
                reach["stop"].append(cond)
                if ready != "Stopped":
                    viol.append(cond)
            elif ready == "Stopped":
                viol.append(cond)
            if last == "stream-end":
                reach["stream-end"].append(cond)
            if ready == "ConnectionClosed" and last not in ("stream-end", "tick"):
                viol.append(cond)
            continue
        # which == "ticks": every tick with pings configured evaluates `idle beyond limit` on (time since the last activity, configured limit); a tick is the
        # last thing before ConnectionClosed exactly when that held and the failures counted so far, plus this one, reach max_failures
        ping_some = not ex.feasible(pc + [z3.BitVec("arg1.0.*.2.discr", 64) != 1])
        if not ping_some:
            continue
        mx = None
        counted = 0
        used = [idle_by_name[str(c_)] for c_ in _atoms(pc) if str(c_) in idle_by_name]
        used.sort(key=lambda t: int(re.search(r"!(\d+)$", str(t[0])).group(1)))
        ticks = [i for i, k in enumerate(kinds) if k == "tick"]
        # the last tick of an unwound / pending path may not have been decided yet: judge only ticks followed by another poll, or ending the call
        for n_, ti in enumerate(ticks):
            final = ti == len(kinds) - 1
            if final and not (p.kind == "return" and ready is not None):
                continue
            if n_ >= len(used):
                viol.append(cond)            # a tick went by without asking whether the peer has been idle beyond the limit
                continue
            v, a0, a1 = used[n_]
            if "elapsed" not in a0 or f".{fi_lim}" not in a1:
                viol.append(cond)
            is_idle = not ex.feasible(pc + [z3.Not(v)])
            not_idle = not ex.feasible(pc + [v])
            if final:
                reach["tick-closed"].append(cond)
                if ready != "ConnectionClosed" or not is_idle:
                    viol.append(cond)
            else:
                reach["tick-continues"].append(cond)
            if is_idle:
                counted += 1
            elif not not_idle:
                viol.append(cond)
        # the failure count compared with max_failures is exactly the number of idle ticks (plus what was counted before this call)
        m0 = z3.BitVec("arg1.0.*.3.*", 64)
        mxv = z3.BitVec(f"arg1.0.*.2.Some:0.{fi_max}", 64)
        if p.kind == "return" and ready == "ConnectionClosed" and kinds[-1] == "tick":
            if ex.feasible(pc + [z3.ULT(m0, 1 << 62), z3.ULT(m0 + counted, mxv)]):
                viol.append(cond)
        elif ticks and counted and kinds[-1] is not None and (len(kinds) - 1 > ticks[-1]):
            if ex.feasible(pc + [z3.ULT(m0, 1 << 62), z3.UGE(m0 + counted, mxv)]):
                viol.append(cond)
    return b, viol, reach, bad


def _atoms(pc):
    out, seen = [], set()
    stack = list(pc)
    while stack:
        t = stack.pop()
        if not isinstance(t, z3.ExprRef) or t.get_id() in seen:
            continue
        seen.add(t.get_id())
        if z3.is_const(t) and t.decl().kind() == z3.Z3_OP_UNINTERPRETED and z3.is_bool(t):
            out.append(t)
        stack.extend(t.children())
    return out
