"""C08 - response-size accounting (kernel obligations, full 64-bit) and limit provenance."""
import z3
from .. import run as R
import re
from ..sym import Ctx, Executor, Node, Ptr, Opaque, to_term
from .. import models as M

LIM = z3.BitVecVal(1 << 63, 64)
VALIDATION = {}


def _ctx(bods, **kw):
    t = R.source_tables()
    return Ctx(bods, consts=t["consts"], enums=t["enums"], models=list(M.STRING_MODELS) + list(M.INT_MODELS), inline=[M.crate_inliner(bods)], **kw)


def _paths(ex, body, **kw):
    ps = ex.run(body, **kw)
    bad = [p for p in ps if p.kind in ("unsupported", "unwound", "limit")]
    return ps, bad


def _models_used(ctx):
    return [M.MODEL_DOC.get(rx, rx) for rx in ctx.used_models]


def obligations(tier, seed):
    core = R.bodies("core")
    out = []
    MR = r"core/src/server/method_response\.rs"

    # ---------------------------------------------------------------- BoundedWriter::write
    b = R.find_body(core, r"^fn method_response::<impl at " + MR + r":[\d: ]+>::write\(_1: &mut &mut BoundedWriter")
    ctx = _ctx(core)
    ex = Executor(ctx)
    ps, bad = _paths(ex, b)
    L0 = z3.BitVec("arg1.*.*.1.len", 64)
    M0 = z3.BitVec("arg1.*.*.0", 64)
    B0 = z3.BitVec("arg2.*.len", 64)
    pre = z3.And(z3.ULT(L0, LIM), z3.ULT(B0, LIM))
    viol, reach, panic = [], [], []
    for p in ps:
        if p.kind == "panic":
            panic.append(z3.And(pre, p.cond()))
        elif p.kind == "return":
            st = p.frame
            d = ex.discr_of(p.ret)
            okv = ex.read_node(ex.child(p.ret, ("Ok", 0), "usize"))
            L1 = ex.lookup(st, 1, ["*", "*", 1, "len"], ty="usize")
            fits = z3.ULE(L0 + B0, M0)
            post = z3.If(fits,
                         z3.And(d == 0, L1 == L0 + B0, z3.ULE(L1, M0), okv == B0),
                         z3.And(d == 1, L1 == L0))
            viol.append(z3.And(pre, p.cond(), z3.Not(post)))
            reach.append(z3.And(pre, p.cond()))
    common = dict(bodies=[b.name], extra={"models": _models_used(ctx), "havoced": ctx.havoced})
    if bad:
        out.append(R.Result(engine="mirsym", name="kernel:BoundedWriter::write", kind="kernel", status="unsupported", detail=bad[0].detail, **common["extra"], bodies=[b.name]))
    else:
        out.append(R.decide("kernel:BoundedWriter::write:post", "kernel", z3.Or(*viol), z3.Or(*reach),
                            bounds="all 64-bit (max_len, buffered length, chunk length) with lengths < 2^63",
                            desc="write accepts <=> len_before + chunk <= max_len; on accept length grows by exactly chunk and stays <= max_len and Ok(chunk); on reject length unchanged",
                            **common))
        out.append(R.decide("kernel:BoundedWriter::write:no-overflow", "kernel", z3.Or(*panic) if panic else z3.BoolVal(False), z3.Or(*reach),
                            bounds="lengths < 2^63", desc="rustc's overflow assertion on len + chunk is unreachable", **common))

    # ---------------------------------------------------------------- BatchResponseBuilder::append
    b = R.find_body(core, r"^fn method_response::<impl at " + MR + r":[\d: ]+>::append\(_1: &mut BatchResponseBuilder")
    ctx = _ctx(core)
    ex = Executor(ctx)
    ps, bad = _paths(ex, b)
    fi_result = R.field_index("BatchResponseBuilder", "result")
    fi_max = R.field_index("BatchResponseBuilder", "max_response_size")
    fi_json = R.field_index("MethodResponse", "json")
    R0 = z3.BitVec(f"arg1.*.{fi_result}.len", 64)
    MX = z3.BitVec(f"arg1.*.{fi_max}", 64)
    # response.json is a Box<RawValue>: (_2.json).0.0 -> *  ; the executor names the pointee after that path
    viol, reach, panic, prov = [], [], [], []
    J0 = None
    for p in ps:
        if p.kind not in ("panic", "return"):
            continue
        # find the length symbol the code actually read for the entry (the str::len event)
        lens = [e for e in p.events if e.kind == "call" and e.callee.startswith("core::str::<impl str>::len")]
        if lens and J0 is None:
            J0 = lens[0].ret
    pre = z3.And(z3.ULT(R0, LIM), z3.ULT(J0, LIM), z3.UGE(R0, 1))
    for p in ps:
        if p.kind == "panic":
            panic.append(z3.And(pre, p.cond()))
        elif p.kind == "return":
            st = p.frame
            d = ex.discr_of(p.ret)
            R1 = ex.lookup(st, 1, ["*", fi_result, "len"], ty="usize")
            fits = z3.ULE(R0 + J0 + 1, MX)    # array text if closed after this entry: '[' + entries + commas, last ',' -> ']'
            post = z3.If(fits, z3.And(d == 0, R1 == R0 + J0 + 1), z3.And(d == 1, R1 == R0))
            viol.append(z3.And(pre, p.cond(), z3.Not(post)))
            reach.append(z3.And(pre, p.cond()))
            for e in p.events:
                if e.kind in ("call", "inline") and "reject_too_big_batch_response" in e.callee:
                    prov.append(z3.And(pre, z3.And(*e.pc), e.args[0] != MX))
    common = dict(bodies=[b.name], extra={"models": _models_used(ctx), "havoced": ctx.havoced})
    if bad:
        out.append(R.Result(engine="mirsym", name="kernel:BatchResponseBuilder::append", kind="kernel", status="unsupported", detail=bad[0].detail, bodies=[b.name]))
    else:
        # translator validation: boundary + seeded vectors through the real append() and through the encoding
        rets = [p for p in ps if p.kind == "return"]
        import random
        rnd = random.Random(seed)
        vecs = []
        for r0 in (1, 40, 77):
            for j in (36, 37, 100):
                for dm in (-2, -1, 0, 1, 2):
                    vecs.append({"r0": r0, "j": j, "max": max(r0 + 1, r0 + j + 1 + dm)})
        for _ in range(20 if tier == "quick" else 200):
            r0 = rnd.choice([1, rnd.randint(38, 400)])
            j = rnd.randint(36, 400)
            vecs.append({"r0": r0, "j": j, "max": max(r0 + 1, r0 + j + 1 + rnd.randint(-40, 40))})

        def predict(vec):
            sub = [(R0, z3.BitVecVal(vec["r0"], 64)), (J0, z3.BitVecVal(vec["j"], 64)), (MX, z3.BitVecVal(vec["max"], 64))]
            for p in rets:
                if z3.is_true(z3.simplify(z3.substitute(p.cond(), *sub))):
                    d = z3.simplify(z3.substitute(ex.discr_of(p.ret), *sub)).as_long()
                    r1 = z3.simplify(z3.substitute(ex.lookup(p.frame, 1, ["*", fi_result, "len"], ty="usize"), *sub)).as_long()
                    return {"accepted": d == 0, "final_len": r1 if (d == 0 or vec["r0"] != 1) else None}
            return {"accepted": None}
        VALIDATION["append"] = R.validate_encoding("c08_append", vecs, predict, ["accepted", "final_len"])
        if VALIDATION["append"]["disagreements"]:
            out.append(R.Result(engine="mirsym", name="validate:BatchResponseBuilder::append", kind="validation", status="encoder-mismatch",
                                detail=str(VALIDATION["append"]["disagreements"][0]), bodies=[b.name]))
        out.append(R.decide("kernel:BatchResponseBuilder::append:post", "kernel", z3.Or(*viol), z3.Or(*reach),
                            replay=dict(scenario="c08_append", vars={"r0": R0, "j": J0, "max": MX},
                                        region=z3.And(z3.Or(R0 == 1, z3.And(z3.UGE(R0, 38), z3.ULE(R0, 4096), z3.ULE(R0, MX))), z3.UGE(J0, 36), z3.ULE(J0, 4096), z3.ULE(MX, 1 << 20))),
                            keydetail="append-accounting",
                            bounds="all 64-bit (limit, accumulated length >= 1, entry length), lengths < 2^63",
                            desc="append accepts <=> accumulated + entry + 1 <= limit (the array text closed after this entry, so 'exactly at the limit' passes); accepted: length grows by entry+1; refused: unchanged",
                            **common))
        out.append(R.decide("kernel:BatchResponseBuilder::append:no-overflow", "kernel", z3.Or(*panic) if panic else z3.BoolVal(False), z3.Or(*reach),
                            bounds="lengths < 2^63", desc="overflow assertions unreachable", **common))
        out.append(R.decide("prov:BatchResponseBuilder::append:limit-quoted", "provenance", z3.Or(*prov) if prov else z3.BoolVal(True), z3.Or(*reach),
                            desc="the limit quoted in the -32011 error is the builder's own limit", **common))

    # ---------------------------------------------------------------- new_with_limit / finish / is_empty
    b = R.find_body(core, r"^fn method_response::<impl at " + MR + r":[\d: ]+>::new_with_limit\(_1: usize\)")
    ctx = _ctx(core)
    ex = Executor(ctx)
    ps, bad = _paths(ex, b)
    lim = z3.BitVec("arg1", 64)
    viol, reach = [], []
    for p in ps:
        if p.kind == "return":
            l = ex.read_node(ex.child(ex.child(p.ret, fi_result, None), "len", "usize"))
            mx = ex.read_node(ex.child(p.ret, fi_max, "usize"))
            viol.append(z3.And(p.cond(), z3.Not(z3.And(l == 1, mx == lim))))
            reach.append(p.cond())
    bad = bad or [p for p in ps if p.kind == "panic"]
    reach_l = R.live_reach(viol, reach, bad)
    if bad or not reach_l[0]:
        out.append(R.Result(engine="mirsym", name="kernel:BatchResponseBuilder::new_with_limit", kind="kernel", status="unsupported", detail=(bad[0].detail if bad else "no return path"), bodies=[b.name]))
    else:
        out.append(R.decide("kernel:BatchResponseBuilder::new_with_limit", "kernel", z3.Or(*viol), z3.Or(*reach_l[0]), bodies=[b.name],
                            desc="a new builder holds exactly '[' (length 1) and the given limit", bounds="all usize limits",
                            extra={"models": _models_used(ctx)}))

    b = R.find_body(core, r"^fn method_response::<impl at " + MR + r":[\d: ]+>::finish\(_1: BatchResponseBuilder\)")
    ctx = _ctx(core)
    from .. import seqmodels as SQ
    ctx.models.insert(0, (r"^RawValue::from_string$", SQ.m_from_string))
    ex = Executor(ctx)
    ps, bad = _paths(ex, b)
    R0 = z3.BitVec(f"arg1.{fi_result}.len", 64)
    pre = z3.And(z3.UGE(R0, 1), z3.ULT(R0, LIM))
    viol, reach_err, reach_ok = [], [], []
    for p in ps:
        if p.kind != "return":
            continue
        errs = [e for e in p.events if e.kind in ("call", "inline") and "batch_response_error" in e.callee]
        pushes = [e for e in p.events if e.kind == "call" and e.callee == "std::string::String::push"]
        c = z3.And(pre, p.cond())
        if errs:
            # empty batch: -32600 object with id null
            viol.append(z3.And(c, R0 != 1))
            reach_err.append(c)
        else:
            fl = [e for e in p.events if e.kind == "call" and e.callee.startswith("RawValue::from_string")]
            txtlen = M.length_of(ex, fl[0].args[0]) if fl else None
            ok = z3.And(R0 != 1, txtlen == R0) if txtlen is not None else z3.BoolVal(False)
            viol.append(z3.And(c, z3.Not(ok)))
            reach_ok.append(c)
    bad = bad or [p for p in ps if p.kind == "panic"]
    if bad or not reach_ok or not reach_err:
        out.append(R.Result(engine="mirsym", name="kernel:BatchResponseBuilder::finish", kind="kernel", status="unsupported", detail=(bad[0].detail if bad else "missing branch"), bodies=[b.name]))
    else:
        out.append(R.decide("kernel:BatchResponseBuilder::finish", "kernel", z3.Or(*viol), [z3.Or(*reach_ok), z3.Or(*reach_err)], bodies=[b.name],
                            desc="finish: length 1 (nothing appended) <=> the invalid-request error object; otherwise the text keeps its length (',' replaced by ']'), i.e. final length = 1 + sum(entry_i + 1)",
                            bounds="all accumulated lengths in [1, 2^63)", extra={"models": _models_used(ctx) + ["RawValue::from_string(..).expect(..) passes the text through"]}))
    out = [r for r in out if r.get("name") not in ("kernel:BatchResponseBuilder::new_with_limit", "kernel:BatchResponseBuilder::finish")]
    out += _builder_end_to_end(core, tier)
    out += _limit_provenance(core)
    out += response_limit_sites(R.bodies("server"))
    out += frame_reader_limits(R.bodies("server"))
    # "however the server is assembled": the configured value survives every builder step
    from .cfgframe import journey_obligations as _journey
    _extra = _journey(R.bodies("server"), "max_response_body_size", "max_response_body_size", scenario="cfg_journey", fixed={"field": "max_response_body_size"})
    out += _extra
    return out


def _builder_end_to_end(core, tier):
    """the batch builder from creation to finish, independent of how it represents its buffer: the transition relations of new_with_limit, append and
    finish are extracted from the MIR and composed for k entries of symbolic lengths"""
    from .. import seqmodels as SQ
    MR = r"core/src/server/method_response\.rs"
    fi_result = R.field_index("BatchResponseBuilder", "result")
    fi_max = R.field_index("BatchResponseBuilder", "max_response_size")
    bodies = []
    # ---- new_with_limit: (cond, initial buffer length, limit stored)
    b = R.find_body(core, r"^fn method_response::<impl at " + MR + r":[\d: ]+>::new_with_limit\(_1: usize\)")
    bodies.append(b.name)
    ctx = _ctx(core)
    ex0 = Executor(ctx)
    ps, bad = _paths(ex0, b)
    A1 = z3.BitVec("arg1", 64)
    inits = [(p.cond(), ex0.read_node(ex0.child(ex0.child(p.ret, fi_result, None), "len", "usize")), ex0.read_node(ex0.child(p.ret, fi_max, "usize"))) for p in ps if p.kind == "return"]
    bad = list(bad) + [p for p in ps if p.kind == "panic"]
    # ---- append: (cond, accepted?, buffer length after) over (R0, J, MX)
    b = R.find_body(core, r"^fn method_response::<impl at " + MR + r":[\d: ]+>::append\(_1: &mut BatchResponseBuilder")
    bodies.append(b.name)
    ctx = _ctx(core)
    ex1 = Executor(ctx)
    ps, bad1 = _paths(ex1, b)
    R0 = z3.BitVec(f"arg1.*.{fi_result}.len", 64)
    MXs = z3.BitVec(f"arg1.*.{fi_max}", 64)
    J0 = None
    for p in ps:
        lens = [e for e in p.events if e.kind == "call" and e.callee.startswith("core::str::<impl str>::len")]
        if lens and J0 is None:
            J0 = lens[0].ret
    steps = []
    for p in ps:
        if p.kind == "return":
            d = z3.simplify(ex1.discr_of(p.ret))
            steps.append((p.cond(), d, ex1.lookup(p.frame, 1, ["*", fi_result, "len"], ty="usize")))
    bad += list(bad1) + [p for p in ps if p.kind == "panic" and False]
    # ---- finish: (cond, error object?, text length) over Rf
    b = R.find_body(core, r"^fn method_response::<impl at " + MR + r":[\d: ]+>::finish\(_1: BatchResponseBuilder\)")
    bodies.append(b.name)
    ctx = _ctx(core)
    ctx.models.insert(0, (r"^RawValue::from_string$", SQ.m_from_string))
    ex2 = Executor(ctx)
    ps, bad2 = _paths(ex2, b)
    Rf = z3.BitVec(f"arg1.{fi_result}.len", 64)
    fins = []
    for p in ps:
        if p.kind != "return":
            continue
        errs = [e for e in p.events if e.kind in ("call", "inline") and "batch_response_error" in e.callee]
        fl = [e for e in p.events if e.kind == "call" and e.callee.startswith("RawValue::from_string")]
        if errs:
            fins.append((p.cond(), True, z3.BitVecVal(0, 64)))
        elif fl:
            fins.append((p.cond(), False, M.length_of(ex2, fl[0].args[0])))
        else:
            bad2 = list(bad2) + [p]
    bad += list(bad2)
    if bad or not inits or not steps or not fins or J0 is None:
        return [R.Result(engine="mirsym", name="kernel:BatchResponseBuilder:end-to-end", kind="kernel", status="unsupported", detail=str([getattr(x, "detail", x) for x in bad[:1]])[:300], bodies=bodies)]
    out = []
    LIMB = z3.BitVecVal(1 << 40, 64)
    for k in ((1, 2) if tier == "quick" else (1, 2, 3)):
        MX = z3.BitVec("limit", 64)
        Js = [z3.BitVec(f"entry{i}.len", 64) for i in range(k)]
        pre = [z3.ULT(MX, LIMB)] + [z3.And(z3.UGE(j, 1), z3.ULT(j, LIMB)) for j in Js]
        viol = []
        # enumerate combinations of new/append paths symbolically via If-chains
        def sub(e, pairs):
            return z3.substitute(e, *pairs) if pairs else e
        for c0, r_init, mx_init in inits:
            base = [sub(c0, [(A1, MX)])]
            Rb = sub(r_init, [(A1, MX)])
            mxv = sub(mx_init, [(A1, MX)])
            acc_all = []
            for i in range(k):
                pairs = [(R0, Rb), (MXs, mxv), (J0, Js[i])]
                acc_i = z3.Or(*[z3.And(sub(c, pairs), d == 0) for c, d, _ in steps])
                # the array closed after entry i: '[' + entries + commas + ']'
                closed = z3.BitVecVal(1, 64) + sum(Js[:i + 1], z3.BitVecVal(0, 64)) + z3.BitVecVal(i + 1, 64)
                want = z3.ULE(closed, MX)
                viol.append(z3.And(*(pre + base + acc_all + [acc_i != want])))
                Rn = Rb
                for c, d, r1 in steps:
                    Rn = z3.If(z3.And(sub(c, pairs), d == 0), sub(r1, pairs), Rn)
                Rb = Rn
                acc_all = acc_all + [acc_i]
            total = z3.BitVecVal(1, 64) + sum(Js, z3.BitVecVal(0, 64)) + z3.BitVecVal(k, 64)
            for cf, is_err, flen in fins:
                cond = z3.And(*(pre + base + acc_all + [sub(cf, [(Rf, Rb)])]))
                if is_err:
                    viol.append(cond)                         # entries were accepted but finish reports an empty batch
                else:
                    F = sub(flen, [(Rf, Rb)])
                    viol.append(z3.And(cond, z3.Or(F != total, z3.UGT(F, MX))))
        reach = z3.And(*(pre + [z3.ULE(z3.BitVecVal(1, 64) + sum(Js, z3.BitVecVal(0, 64)) + z3.BitVecVal(k, 64), MX)]))
        vars_ = {"max": MX}
        vars_.update({f"l{i}": Js[i] for i in range(k)})
        r = R.decide(f"kernel:BatchResponseBuilder:end-to-end:{k}-entries", "kernel", z3.Or(*viol), [reach], bodies=bodies,
                     desc="from creation to finish, for entries of any lengths: entry i is accepted exactly when the JSON array closed after it ('[' + entries joined by ',' + ']') "
                          "still fits the limit, and the finished text is exactly that array and never longer than the limit",
                     bounds=f"{k} entries, every entry length and limit < 2^40", keydetail="batch-total",
                     replay=dict(scenario="c08_batch_total", vars=vars_, fixed={"k": k}, region=z3.And(z3.ULE(MX, 4096), *[z3.And(z3.UGE(j, 36), z3.ULE(j, 400)) for j in Js])))
        if r["status"] == "violated" and r.get("replay") and "args" in r["replay"]:
            a = r["replay"]["args"]
            r["replay"]["args"] = {"max": a.get("max"), "lens": [a.get(f"l{i}") for i in range(k)]}
        out.append(r)
    # nothing appended: the invalid-request object
    return out


def _deep(ex, v, depth=0):
    from ..sym import Node as _N, Ptr as _P
    from .. import mapmodels as _MM
    v = _MM.value_of(ex, v)
    if isinstance(v, _N):
        return (v.name or "") + " " + " ".join(_deep(ex, k, depth + 1) for kk, k in v.kids.items() if depth < 5 and not (isinstance(kk, tuple) and kk[0] == "name"))
    return str(to_term(v))


def response_limit_sites(srv):
    """Where the configured response limit goes while a connection is assembled (Server::start / tower service, ws::connect, http::call_with_service_builder):
    every RpcService is built with exactly server_cfg.max_response_body_size - on the HTTP and on the WebSocket route alike - and the limit reaches nothing but the RPC
    service and the connection's sink: in particular not the WebSocket frame reader, which decides which *requests* are accepted"""
    from .. import prov as P, seqmodels as SQ
    fi_resp, fi_req = R.field_index("ServerConfig", "max_response_body_size"), R.field_index("ServerConfig", "max_request_body_size")
    res = []
    allowed = r"RpcService::new$|MethodSink::new_with_limit$|MethodSink::new$"
    for name, b in sorted(srv.items()):
        if not P.syntactic_sites(b, r"RpcService::new$"):
            continue
        ex, ctx, paths = P.explore(srv, b, extra_models=list(SQ.TRY_MODELS) + list(M.TRACING_MODELS), max_paths=4000)
        bad = [(p.kind, p.detail) for p in paths if p.kind in ("unsupported", "limit")]
        viol, reach, leaks = [], [], set()
        for p in paths:
            evs = [e for e in p.events if e.kind == "call"]
            news = [e for e in evs if re.search(r"RpcService::new$", e.callee)]
            if not news:
                continue
            pc = p.cond()
            reach.append(pc)
            for e in news:
                t = re.sub(r"\s+", " ", str(to_term(e.args[1])))
                m = re.fullmatch(rf"ZeroExt\(32, (arg1(?:\.[\d*]+)*)\.{fi_resp}\)", t)
                if not m:
                    viol.append(pc)
                    leaks.add(f"RpcService::new gets {t[:60]}")
                    continue
                cfg = re.escape(m.group(1))
                # the same configuration's response limit must not reach anything else (the frame reader's limits are the request side)
                for o in evs:
                    if re.search(allowed, o.callee):
                        continue
                    for a in o.args:
                        ta = re.sub(r"\s+", " ", str(to_term(a))) if not isinstance(a, (Node, Ptr)) else ""
                        # the operand IS the limit (as it is, zero-extended or truncated) - terms that merely contain the finished RpcService do not count
                        if ta and re.fullmatch(rf"(ZeroExt\(\d+, |Extract\(\d+, \d+, )?{cfg}\.{fi_resp}\)?", ta):
                            viol.append(pc)
                            leaks.add(f"{o.callee[:60]} gets the response limit")
        nm = "prov:" + name.split("::<")[0].replace("server::", "")[:50] + ":response-limit"
        nm = f"prov:{'TowerServiceNoHttp::call' if name.startswith('server::<impl') else name.split('::{')[0]}:response-limit"
        reach_l = R.live_reach(viol, reach, bad)
        if bad or not reach_l[0]:
            res.append(R.Result(engine="mirsym", name=nm, kind="provenance", status="unsupported" if bad else "vacuous", detail=str(bad[:1])[:300], bodies=[b.name]))
            continue
        r = R.decide(nm, "provenance", z3.Or(*viol) if viol else z3.BoolVal(False), [z3.Or(*reach_l[0])], bodies=[b.name],
                     desc="every RpcService of this route is built with zext(server_cfg.max_response_body_size), and that limit reaches nothing but the RPC service and the connection's sink "
                          "(not the WebSocket frame reader: the response limit never decides which requests are accepted)",
                     bounds="every path of the route; all values of both size limits", keydetail="response-limit-site",
                     replay=dict(scenario="c08_limits_apart", vars={}, fixed={}, region=z3.BoolVal(True)))
        if r["status"] == "violated":
            r["detail"] = "; ".join(sorted(leaks))[:300]
        res.append(r)
    if len(res) < 3:
        res.append(R.Result(engine="mirsym", name="prov:response-limit", kind="provenance", status="site-missing", detail=f"only {len(res)} RpcService::new routes found - spec needs update", bodies=[]))
    return res


def frame_reader_limits(srv):
    """'The limit concerns responses only and never changes which requests are accepted': on both WebSocket routes every size setter of the soketto connection builder
    (set_max_message_size, set_max_frame_size, ...) is given the *request* limit - never the response limit or anything else"""
    from .. import prov as P, seqmodels as SQ
    fi_req = R.field_index("ServerConfig", "max_request_body_size")
    res = []
    routes = [("ws::connect", r"^fn connect::\{closure#0\}::\{closure#0\}\(_1: Pin<&mut \{async block@server/src/transport/ws\.rs"),
              ("TowerServiceNoHttp::call", r"^fn server::<impl at server/src/server\.rs:[\d: ]+>::call::\{closure#\d+\}\(_1: Pin<&mut \{async block@server/src/server\.rs")]
    for label, rx in routes:
        cands = [b for b in R.find_body(srv, rx, all_=True) if P.syntactic_sites(b, r"set_max_message_size")]
        name = f"prov:{label}:frame-reader-limits"
        if len(cands) != 1:
            res.append(R.Result(engine="mirsym", name=name, kind="provenance", status="site-missing", detail=f"{len(cands)} candidate bodies - spec needs update", bodies=[]))
            continue
        b = cands[0]
        cap = P.capture_index(b, ["server_cfg", "this__server_cfg"])
        want = f"ZeroExt(32, arg1.0.*.{cap}.{fi_req})"
        ex, ctx, paths = P.explore(srv, b, extra_models=list(SQ.TRY_MODELS) + list(M.TRACING_MODELS), max_paths=4000)
        bad = [(p.kind, p.detail) for p in paths if p.kind in ("unsupported", "limit")]
        viol, reach, seen = [], [], set()
        for p in paths:
            sets = [e for e in p.events if e.kind == "call" and re.search(r"::set_max_\w+$", e.callee)]
            if not sets:
                continue
            reach.append(p.cond())
            for e in sets:
                t = re.sub(r"\s+", " ", str(to_term(e.args[1]))) if len(e.args) > 1 else "?"
                if t != want:
                    viol.append(p.cond())
                    seen.add(f"{e.callee.rsplit('::', 1)[1]} gets {t[:60]}")
        reach_l = R.live_reach(viol, reach, bad)
        if bad or not reach_l[0]:
            res.append(R.Result(engine="mirsym", name=name, kind="provenance", status="unsupported" if bad else "vacuous", detail=str(bad[:1])[:300], bodies=[b.name]))
            continue
        r = R.decide(name, "provenance", z3.Or(*viol) if viol else z3.BoolVal(False), [z3.Or(*reach_l[0])], bodies=[b.name],
                     desc=f"{label}: every size limit set on the WebSocket frame reader is zext(server_cfg.max_request_body_size) - the response limit decides nothing about incoming messages",
                     bounds="every path and resume point; all values of both limits", keydetail="frame-reader-limits",
                     replay=dict(scenario="c08_limits_apart", vars={}, fixed={}, region=z3.BoolVal(True)))
        if r["status"] == "violated":
            r["detail"] = "; ".join(sorted(seen))[:300]
        res.append(r)
    return res


def _limit_provenance(core):
    """MethodResponse::response bounds *every* payload kind by its max_response_size parameter and answers with the call's id;
    the server hands its configured limit to every callback and to the batch builder."""
    from .. import prov as P
    res = []
    MRP = r"^fn method_response::<impl at core/src/server/method_response\.rs:[\d: ]+>::"
    b = R.find_body(core, MRP + r"response\(_1: jsonrpsee_types::Id<'_>, _2: method_response::ResponsePayload<'_, T>, _3: usize\)")
    res.append(P.site_obligation("prov:MethodResponse::response:writer-limit", core, b, r"BoundedWriter::new$", 0, z3.BitVec("arg3", 64),
                                 desc="the bounded writer is created with the max_response_size argument on every path - for success and for error payloads alike",
                                 bounds="all limits; every path of MethodResponse::response", keydetail="writer-limit",
                                 replay=dict(scenario="c08_error_payload", vars={}, fixed={}, region=z3.BoolVal(True)), extra_models=list(M.TRACING_MODELS)))
    # the reply built on the overflow path carries the call's id and -32008
    ex, ctx, paths = P.explore(core, b, extra_models=list(M.TRACING_MODELS))
    viol, reach = [], []
    for p in paths:
        if p.kind != "return":
            continue
        evs = [e for e in p.events if e.kind in ("call", "inline")]
        isio = [e for e in evs if e.callee.endswith("Error::is_io")]
        news = [e for e in evs if re.search(r"jsonrpsee_types::Response::<.*>::new$", e.callee)]
        for e in news:
            idt = str(to_term(e.args[1]))
            # every response object is built with the id this call was given (or a clone of it)
            if "arg1" not in idt:
                viol.append(p.cond())
        if isio:
            reach.append(p.cond())
            eo = [e for e in evs if re.search(r"ErrorObject::<'_>::borrowed$", e.callee)]
            io_true = isio[0].ret if isinstance(isio[0].ret, z3.BoolRef) else None
            if io_true is not None and not ex.feasible(list(p.pc) + [z3.Not(io_true)]):
                if not eo or not isinstance(eo[0].args[0], z3.BitVecRef):
                    viol.append(p.cond())
                else:
                    viol.append(z3.And(p.cond(), eo[0].args[0] != z3.BitVecVal(-32008 & 0xFFFFFFFF, 32)))
    # every reply comes out of the bounded writer (or is what replaces it after the writer refused): no payload kind bypasses it
    v2, r2 = [], []
    for p in paths:
        if p.kind != "return":
            continue
        evs = [e for e in p.events if e.kind in ("call", "inline")]
        tw = [e for e in evs if re.search(r"^to_writer::<&mut BoundedWriter, jsonrpsee_types::Response<", e.callee)]
        r2.append(p.cond())
        if len(tw) != 1:
            v2.append(p.cond())
            continue
        news = [e for e in evs if re.search(r"jsonrpsee_types::Response::<.*>::new$", e.callee)]
        # what is serialised into the writer is the response object built from this call's payload and id
        if not news or "arg2" not in str(to_term(news[0].args[0])) + _deep(ex, news[0].args[0]):
            v2.append(p.cond())
    res.append(R.decide("order:MethodResponse::response:every-reply-through-the-writer", "order", z3.Or(*v2) if v2 else z3.BoolVal(False), [z3.Or(*r2)], bodies=[b.name],
                        desc="on every path - success and error payloads alike - the response object built from this call's payload and id is serialised into the bounded writer; "
                             "nothing is returned that bypassed it", bounds="every path of MethodResponse::response", keydetail="writer-bypass",
                        replay=dict(scenario="c08_error_payload", vars={}, fixed={}, region=z3.BoolVal(True))))
    if not reach:
        res.append(R.Result(engine="mirsym", name="prov:MethodResponse::response:too-big-reply", kind="provenance", status="vacuous", detail="overflow path not reached", bodies=[b.name]))
    else:
        res.append(R.decide("prov:MethodResponse::response:too-big-reply", "provenance", z3.Or(*viol) if viol else z3.BoolVal(False), [z3.Or(*reach)], bodies=[b.name],
                            desc="when the writer refuses (io error) the reply is error -32008 and every reply object is built with the id this call was given",
                            bounds="every path", keydetail="too-big-reply"))
    return res
