"""C12 - batch results are positional (WS: process_batch_response over the real MIR; HTTP: slot arithmetic and sizing)."""
import itertools
import z3
from .. import run as R, clienttable as T, mapmodels as MM, listmodels as LM
from ..sym import Executor, Node, Ptr, Opaque, to_term

VALIDATION = {}


def _ws_case(core, n, k):
    """a pending batch over ids s..s+n answered by k responses with arbitrary u64 ids"""
    ctx = T.make_ctx(core, max_paths=6000, max_visits=n + k + 3)
    ex = Executor(ctx)
    b_ins = R.find_body(core, T.MGR + r"insert_pending_batch\(")
    b_proc = R.find_body(core, r"^fn process_batch_response\(_1: &mut RequestManager")
    s = z3.BitVec("batch.start", 64)
    pre = z3.ULE(s, (1 << 64) - 1 - n)           # generate_batch_id_range guarantees start + n does not overflow
    tables = T.new_tables(ex, core)
    for t in tables:
        t.pc.append(pre)
    nxt, ab = T.step(ex, core, tables, b_ins, lambda e: [T.range_u64(e, s, s + n), T.opaque("batch.tx")], "insert_batch")
    tables = [t for t, p in nxt]
    rids = [z3.BitVec(f"reply{j}.id", 64) for j in range(k)]
    # the only caller (handle_recv_message) passes range = min(reply ids) .. max(reply ids) + 1 - whatever those are: that a reply whose range is not the
    # batch's own finds no batch is part of what is decided here (the pending batch is looked up by its whole range)
    lo_r, hi_r = s, s + n
    if k:
        lo_r, mx = rids[0], rids[0]
        for r in rids[1:]:
            lo_r = z3.If(z3.ULT(r, lo_r), r, lo_r)
            mx = z3.If(z3.UGT(r, mx), r, mx)
        hi_r = mx + 1
        for t in tables:
            t.pc.append(z3.ULT(mx, z3.BitVecVal((1 << 64) - 1, 64)))

    def mk(e):
        rps = LM.new_list(e, [T.response_with_id(e, T.id_number(e, rids[j]), f"reply{j}") for j in range(k)], name="rps")
        return [rps, T.range_u64(e, lo_r, hi_r)]
    nxt, ab2 = T.step(ex, core, tables, b_proc, mk, "process_batch")
    fi_id = R.field_index("Response", "id")
    viol, reach_ok, reach_err, bad = [], [], [], []
    for t, p in nxt:
        pc = p.cond()
        d = z3.simplify(ex.discr_of(p.ret))
        sends = [e for e in p.events if e.kind == "call" and e.callee.startswith("tokio::sync::oneshot::Sender::")]
        if z3.is_bv_value(d) and d.as_long() == 0:
            reach_ok.append(pc)
            good = []
            if len(sends) != 1:
                viol.append(pc)
                continue
            val = sends[0].args[1]
            vec = ex.read_node(ex.child(val, ("Ok", 0), None)) if isinstance(val, Node) else None
            if not (isinstance(vec, Node) and LM.is_list(vec)):
                viol.append(pc)
                continue
            es = LM.elems(vec)
            if len(es) != n:
                viol.append(pc)                      # a list of another length was delivered
                continue
            conds = []
            for i, el in enumerate(es):
                idn = ex.read_node(ex.child(ex.child(el, 0, None), fi_id, None))
                dv = z3.simplify(ex.read_node(idn.kids["discr"])) if isinstance(idn, Node) and "discr" in idn.kids else None
                if dv is None or not z3.is_bv_value(dv):
                    conds.append(z3.BoolVal(False))
                    continue
                which = R.source_tables()["enums"]["Id"][dv.as_long()]
                if which == "Null":
                    conds.append(z3.BoolVal(True))   # placeholder error for an unanswered entry
                elif which == "Number":
                    conds.append(ex.read_node(idn.kids[("Number", 0)]) == s + i)
                else:
                    conds.append(z3.BoolVal(False))
            viol.append(z3.And(pc, z3.Not(z3.And(*conds))))
            # the batch entry is gone
            if T.sizes(ex, t.mgr)[2] != 0:
                viol.append(pc)
        else:
            reach_err.append(pc)
            # a failed batch must not complete the caller with a (short) list
            if any(isinstance(e.args[1], Node) and z3.is_bv_value(z3.simplify(ex.discr_of(e.args[1]))) and z3.simplify(ex.discr_of(e.args[1])).as_long() == 0 for e in sends):
                viol.append(pc)
    abnormal = [(p.kind, p.detail) for _, p, _ in ab + ab2 if p.kind != "panic"]
    panics = [p.cond() for _, p, _ in ab + ab2 if p.kind == "panic"]
    return ex, ctx, viol, reach_ok, reach_err, abnormal, panics, rids, s


COUNTS = []


def _http_case(http, n, k):
    """HttpClient::batch_request resumed after the reply arrived: a batch of n (ids s..s+n) answered by k responses with arbitrary u64 ids"""
    import re
    from .. import prov as P, models as M, seqmodels as SQ
    b = R.find_body(http, r"^fn client::<impl at client/http-client/src/client\.rs:[\d: ]+>::batch_request::\{closure#0\}\(_1: Pin<&mut \{async block@client/http-client/src/client\.rs")
    s = z3.BitVec("batch.start", 64)
    rids = [z3.BitVec(f"reply{j}.id", 64) for j in range(k)]
    # which suspended state awaits the service call, and where id_range is kept
    m = re.match(r"^\(\(\(\*_\d+\) as variant#(\d+)\)\.(\d+): ", b.debug.get("id_range", ""))
    if not m:
        raise LookupError("batch_request: no saved id_range - spec needs update")
    state, fidx = int(m.group(1)), int(m.group(2))

    def m_poll_reply(ex, st, callee, args, dty, site):
        rps = LM.new_list(ex, [T.response_with_id(ex, T.id_number(ex, rids[j]), f"reply{j}") for j in range(k)], name="rps")
        return ex.mk_variant("Poll", 0, "Ready", ex.mk_variant("Result", 0, "Ok", rps))

    def m_raw_id(ex, st, callee, args, dty, site):
        n_ = MM.value_of(ex, args[0])
        fi = R.field_index("Response", "id")
        if not isinstance(n_, Node):
            return NotImplemented
        return Ptr(ex.child(ex.child(n_, 0, None), fi, None))

    def m_batch_new(ex, st, callee, args, dty, site):
        return Opaque(z3.Const("BatchResponse", T.OBJ))
    extra = [(r"run_future_until_timeout<.*\(\)\} as (\w+::)*Future>::poll$", m_poll_reply), (r"^RawResponse::<'_>::id$", m_raw_id),
             (r"^BatchResponse::<'_, R>::new$", m_batch_new)]
    ctx = P.make_ctx(http, extra_models=extra + T.CLIENT_MODELS + LM.LIST_MODELS + SQ.TRY_MODELS + list(M.TRACING_MODELS), max_paths=20000, max_visits=n + k + 4)
    ctx.inline = [M.crate_inliner(http)]
    ex = Executor(ctx)

    def pre(e, st, body):
        pin = st["mem"][(0, body.params[0][0])]
        stn = e.pointee(e.child(pin, 0, "&mut S"))
        d = Node(stn.name + ".discr", "isize")
        d.val = z3.BitVecVal(state, 64)
        stn.kids["discr"] = d
        rng = T.range_u64(e, s, s + n)
        kk = Node(f"{stn.name}.variant#{state}:{fidx}", None)
        e.write(kk, rng)
        stn.kids[(f"variant#{state}", fidx)] = kk
    paths = ex.run(b, pre=pre, pc0=[z3.ULE(s, (1 << 64) - 1 - n)])
    del COUNTS[:]
    viol_len, viol_pos, reach_ok, reach_err, bad = [], [], [], [], []
    for p in paths:
        if p.kind in ("unsupported", "limit", "unwound"):
            bad.append((p.kind, p.detail))
            continue
        if p.kind != "return":
            continue
        news = [e for e in p.events if e.kind == "call" and re.search(r"^BatchResponse::<'_, R>::new$", e.callee)]
        pc = p.cond()
        if not news:
            reach_err.append(pc)
            continue
        reach_ok.append(pc)
        vec = news[0].args[1]
        if not (isinstance(vec, Node) and LM.is_list(vec)):
            viol_len.append(pc)
            continue
        es = LM.elems(vec)
        if len(es) != n:
            viol_len.append(pc)
            continue
        for i, el in enumerate(es):
            txt = str(to_term(ex.read_node(el)) if not isinstance(ex.read_node(el), Node) else _deep_str(ex, el))
            for j in range(k):
                if re.search(rf"(reply{j}|\.el{j})\b", txt):
                    viol_pos.append(z3.And(pc, rids[j] != s + i))
        # the counts handed to BatchResponse::new describe these very entries
        succ, fail = news[0].args[0], news[0].args[2]
        n_ok = z3.BitVecVal(0, 64)
        known = True
        for el in es:
            v = ex.read_node(el)
            d = ex.discr_of(v) if isinstance(v, Node) else None
            if d is None:
                known = False
                break
            n_ok = n_ok + z3.If(d == 0, z3.BitVecVal(1, 64), z3.BitVecVal(0, 64))
        if known and isinstance(succ, z3.BitVecRef) and isinstance(fail, z3.BitVecRef):
            COUNTS.append(z3.And(pc, z3.Or(succ != n_ok, fail != z3.BitVecVal(n, 64) - n_ok)))
        else:
            COUNTS.append(pc)
    return b, ctx, viol_len, viol_pos, reach_ok, reach_err, bad, rids, s


def _ws_front_case(core, k):
    """the async client's batch_request resumed after the back end delivered its (already positional) list of k responses: the caller's result list keeps
    that length and that order, entry i being the decoding of element i"""
    import re
    from .. import prov as P, models as M, seqmodels as SQ
    b = R.find_body(core, r"^fn async_client::<impl at core/src/client/async_client/mod\.rs:[\d: ]+>::batch_request::\{closure#0\}\(_1: Pin<&mut \{async block@core/src/client/async_client/mod\.rs")
    # the suspended state that awaits run_future_until_timeout
    m = re.search(r"variant#(\d+)\)\.\d+: \{async fn body of .*run_future_until_timeout", "\n".join(b.debug.values()) + "\n" + "\n".join(str(v) for v in b.locals.values()))
    state = None
    for name, dbg in b.debug.items():
        mm = re.match(r"^\(\(\(\*_\d+\) as variant#(\d+)\)\.(\d+): ", dbg or "")
        if mm and name == "__awaitee":
            state = int(mm.group(1))
    if state is None:
        state = 3
    okf = [z3.Bool(f"elem{j}.is_success") for j in range(k)]
    dec = [z3.Bool(f"elem{j}.decodes") for j in range(k)]

    def m_poll_reply(ex, st, callee, args, dty, site):
        rps = LM.new_list(ex, [Opaque(z3.Const(f"backend_elem{j}", T.OBJ)) for j in range(k)], name="json_values")
        return ex.mk_variant("Poll", 0, "Ready", ex.mk_variant("Result", 0, "Ok", rps))

    def idx_of(v):
        mm = re.search(r"backend_elem(\d+)", str(to_term(v)))
        return int(mm.group(1)) if mm else None

    def m_try_from(ex, st, callee, args, dty, site):
        j = idx_of(args[0])
        if j is None:
            return NotImplemented
        return Fork([(okf[j], lambda ex_, st_, tr: ex_.mk_variant("Result", 0, "Ok", Opaque(z3.Const(f"success_of_backend_elem{j}", T.OBJ)))),
                     (z3.Not(okf[j]), lambda ex_, st_, tr: ex_.mk_variant("Result", 1, "Err", Opaque(z3.Const(f"error_of_backend_elem{j}", T.OBJ))))])

    def m_from_str(ex, st, callee, args, dty, site):
        j = idx_of(args[0])
        if j is None:
            return NotImplemented
        return Fork([(dec[j], lambda ex_, st_, tr: ex_.mk_variant("Result", 0, "Ok", Opaque(z3.Const(f"value_of_backend_elem{j}", T.OBJ)))),
                     (z3.Not(dec[j]), lambda ex_, st_, tr: ex_.mk_variant("Result", 1, "Err", Opaque(z3.Const(f"decode_error{j}", T.OBJ))))])
    from ..sym import Fork
    extra = [(r"run_future_until_timeout<.*\(\)\} as (\w+::)*Future>::poll$", m_poll_reply), (r"^RawResponse::<'_>::into_inner$", M.m_identity),
             (r"^<ResponseSuccess<'_, Box<RawValue>> as TryFrom<", m_try_from), (r"^serde_json::from_str::<'_, R>$", m_from_str),
             (r"^RawValue::get$", lambda ex, st, c, a, d, s: Opaque(z3.Const("text:" + str(to_term(a[0])), T.OBJ)))]
    ctx = P.make_ctx(core, extra_models=extra + LM.LIST_MODELS + SQ.TRY_MODELS + list(M.TRACING_MODELS) + list(M.INT_MODELS), max_paths=20000, max_visits=k + 4)
    ctx.inline = []

    def on_havoc(ex_, st, node, callee):
        """an unmodelled call got `&mut` access to the delivered list: its length is kept but which element sits where is no longer known"""
        if LM.is_list(node):
            for i, el in enumerate(LM.elems(node)):
                el.val, el.kids = Opaque(z3.Const(f"unknown_position_after:{callee[:40]}:{i}", T.OBJ)), {}
            return True
        return False
    ctx.on_havoc = on_havoc
    ex = Executor(ctx)

    def pre(e, st, body):
        pin = st["mem"][(0, body.params[0][0])]
        stn = e.pointee(e.child(pin, 0, "&mut S"))
        d = Node(stn.name + ".discr", "isize")
        d.val = z3.BitVecVal(state, 64)
        stn.kids["discr"] = d
    paths = ex.run(b, pre=pre)
    viol, reach_ok, reach_err, bad = [], [], [], []
    for p in paths:
        if p.kind in ("unsupported", "limit", "unwound"):
            bad.append((p.kind, p.detail))
            continue
        if p.kind != "return" or not isinstance(p.ret, Node):
            continue
        rdy = ex.read_node(p.ret.kids[("Ready", 0)]) if ("Ready", 0) in p.ret.kids else None
        if not isinstance(rdy, Node):
            continue
        d = z3.simplify(ex.discr_of(rdy))
        pc = p.cond()
        if not z3.is_bv_value(d):
            bad.append(("unsupported", "result discriminant"))
            continue
        if d.as_long() == 1:
            reach_err.append(pc)
            # the whole call may fail only because some successful entry did not decode
            viol.append(z3.And(pc, *[z3.Or(z3.Not(okf[j]), dec[j]) for j in range(k)]))
            continue
        reach_ok.append(pc)
        br = ex.read_node(rdy.kids[("Ok", 0)])
        vec = ex.read_node(br.kids[("name", "responses")]) if isinstance(br, Node) and ("name", "responses") in br.kids else None
        if not (isinstance(vec, Node) and LM.is_list(vec)) or len(LM.elems(vec)) != k:
            viol.append(pc)
            continue
        for i, el in enumerate(LM.elems(vec)):
            txt = _deep_str(ex, el)
            if f"backend_elem{i}" not in txt or any(f"backend_elem{j}" in txt for j in range(k) if j != i):
                viol.append(pc)
        # the success / failure counts describe these very entries
        sc = ex.read_node(br.kids[("name", "successful_calls")]) if ("name", "successful_calls") in br.kids else None
        fc = ex.read_node(br.kids[("name", "failed_calls")]) if ("name", "failed_calls") in br.kids else None
        n_ok = z3.BitVecVal(0, 64)
        for el in LM.elems(vec):
            v = ex.read_node(el)
            n_ok = n_ok + (z3.If(ex.discr_of(v) == 0, z3.BitVecVal(1, 64), z3.BitVecVal(0, 64)) if isinstance(v, Node) else z3.BitVecVal(0, 64))
        if isinstance(sc, z3.BitVecRef) and isinstance(fc, z3.BitVecRef):
            viol.append(z3.And(pc, z3.Or(sc != n_ok, fc != z3.BitVecVal(k, 64) - n_ok)))
        else:
            viol.append(pc)
    return b, ctx, viol, reach_ok, reach_err, bad


def _deep_str(ex, node, depth=0):
    v = ex.read_node(node)
    if isinstance(v, Node):
        return "(" + ",".join(_deep_str(ex, k, depth + 1) for k in v.kids.values()) + ")" if depth < 8 else "..."
    return str(to_term(v))


def ws_front_obligations(core, ks):
    """(also part of C03: a batch entry is a call, and must get the response bearing its own id)"""
    out = []
    for k in ks:
        b, ctx, viol, reach_ok, reach_err, bad = _ws_front_case(core, k)
        name = f"ws:batch_request:front-end:k={k}:order-kept"
        if bad or not reach_ok:
            out.append(R.Result(engine="mirsym", name=name, kind="kernel", status="unsupported" if bad else "vacuous", detail=str(bad[:1])[:300], bodies=[b.name]))
            continue
        q = [v if isinstance(v, z3.ExprRef) else z3.BoolVal(bool(v)) for v in viol]
        out.append(R.decide(name, "kernel", z3.Or(*q) if q else z3.BoolVal(False), [z3.Or(*reach_ok)] + ([z3.Or(*reach_err)] if reach_err else []), bodies=[b.name],
                            desc=f"the async client hands its caller exactly the {k} entries the back end delivered, in that order, entry i decoded from element i (the back end made them positional: "
                                 "process_batch_response); its success / failure counts are the numbers of Ok / Err entries of that list; the call fails as a whole only when a successful entry does not decode",
                            bounds=f"{k} entries, each success / error object, each decodable or not", keydetail="ws-front-order",
                            replay=dict(scenario="c12_ws_batch_order", vars={}, fixed={"pre": 9, "n": 3}, region=z3.BoolVal(True))))
    return out


def ws_backend_obligations(core, cases):
    """process_batch_response over a pending batch (also part of C03: each entry of a batch is a call that must get the response bearing its own id)"""
    out = []
    for n, k in cases:
        ex, ctx, viol, reach_ok, reach_err, abnormal, panics, rids, s = _ws_case(core, n, k)
        name = f"ws:process_batch_response:n={n}:replies={k}"
        common = dict(bodies=sorted(ctx.encoded_bodies), extra={"models": T.CLIENT_DOC + MM.MAP_DOC + LM.LIST_DOC})
        if abnormal and all(a[0] == "unwound" for a in abnormal) and R.violation_reachable(viol):
            # a changed body that loops over a range taken from the reply: the paths cut at the unrolling bound decide nothing, a completed path that violates does
            abnormal = []
        if abnormal:
            out.append(R.Result(engine="mirsym", name=name, kind="kernel", status="unsupported", detail=str(abnormal[0])[:300], bodies=common["bodies"]))
            continue
        reach = [z3.Or(*reach_ok)] if (reach_ok and k >= 1) else []
        if reach_err:
            reach.append(z3.Or(*reach_err))
        if not reach:
            reach = [z3.Or(*(reach_ok + reach_err))]
        args = {"start": s}
        args.update({f"r{j}": rids[j] for j in range(k)})
        out.append(R.decide(name + ":positional", "kernel", z3.Or(*viol) if viol else z3.BoolVal(False), reach,
                            desc=f"a pending batch of {n} answered by {k} responses with ANY u64 ids (duplicates, foreign, missing included): if the call is completed, "
                                 f"it gets exactly {n} entries and entry i is the response with id start+i or the placeholder error; otherwise it fails as a whole",
                            bounds=f"batch start any u64 (no overflow), n={n}, {k} reply ids any u64 in any order; the range handed over is min..max+1 of those ids (what the caller handle_recv_message passes), equal to the batch's or not",
                            keydetail="positional", replay=dict(scenario="c12_ws_batch", vars=args, fixed={"n": n, "k": k}, region=z3.And(z3.ULE(s, 1000))), **common))
        out.append(R.decide(name + ":no-panic", "kernel", z3.Or(*panics) if panics else z3.BoolVal(False), reach,
                            desc="no overflow / unwrap panic for any ids", bounds="as above", keydetail="panic", **common))
    return out


def obligations(tier, seed):
    core = R.bodies("core")
    out = []
    http = R.bodies("http-client")
    for n, k in ([(2, 2), (3, 2), (2, 3)] if tier == "quick" else [(n, k) for n in (1, 2, 3) for k in (0, 1, 2, 3, 4)]):
        b, ctx, viol_len, viol_pos, reach_ok, reach_err, bad, rids, s = _http_case(http, n, k)
        name = f"http:batch_request:n={n}:replies={k}"
        common = dict(bodies=sorted(ctx.encoded_bodies), extra={"models": T.CLIENT_DOC + LM.LIST_DOC + ["the service future is ready with k replies whose ids are arbitrary u64"]})
        if bad or not (reach_ok or reach_err):
            out.append(R.Result(engine="mirsym", name=name, kind="kernel", status="unsupported" if bad else "vacuous", detail=str(bad[:1])[:300], bodies=common["bodies"]))
            continue
        reach = [z3.Or(*x) for x in (reach_ok, reach_err) if x]
        r = R.decide(name + ":exactly-n-results", "kernel", z3.Or(*viol_len) if viol_len else z3.BoolVal(False), reach,
                     desc=f"HTTP client: a batch of {n} that succeeds returns exactly {n} entries, however many responses the reply array holds",
                     bounds=f"n={n}, reply of {k} responses with any u64 ids", keydetail="", **common)
        if r["status"] == "violated":
            r["key"] = "mirsym:c12:http:result-sized-by-reply"
            r["replay"] = {"scenario": "c12_http_batch", "args": {"n": n, "offsets": list(range(k))}}
        out.append(r)
        args = {"start": s}
        args.update({f"r{j}": rids[j] for j in range(k)})
        viol_counts = list(COUNTS)
        rc_ = R.decide(name + ":counts-match-entries", "kernel", z3.Or(*viol_counts) if viol_counts else z3.BoolVal(False), reach,
                       desc="HTTP client: the success / failure counts of a completed batch are the numbers of Ok / Err entries of the very list it returns (an entry left unanswered is a failed one)",
                       bounds=f"n={n}, {k} reply ids any u64, each a success or an error", keydetail="http-counts",
                       replay=dict(scenario="c12_http_batch", vars=args, fixed={"n": n, "k": k}, region=z3.And(z3.UGE(s, 100), z3.ULE(s, 1000), *[z3.ULE((r_ - s) + 16, 32) for r_ in rids])), **common)
        if rc_["status"] == "violated":
            rc_["key"] = "mirsym:c12:http:counts-do-not-match-entries"
        out.append(rc_)
        out.append(R.decide(name + ":positional", "kernel", z3.Or(*viol_pos) if viol_pos else z3.BoolVal(False), reach,
                            desc="HTTP client: an entry of the result is only ever filled with the response whose id is start + its position",
                            bounds=f"n={n}, {k} reply ids any u64", keydetail="http-positional",
                            replay=dict(scenario="c12_http_batch", vars=args, fixed={"n": n, "k": k}, region=z3.And(z3.UGE(s, 100), z3.ULE(s, 1000), *[z3.ULE((r_ - s) + 16, 32) for r_ in rids])), **common))
    # the caller passes range = min(reply ids) .. max(reply ids)+1 and the pending batch is looked up by that range: a reply can only
    # meet a pending batch of n > 1 with at least two (distinct) ids, and one of n = 1 with ids that are all equal
    cases = [(1, 1), (2, 2), (3, 2), (2, 3), (3, 3)] if tier == "quick" else [(n, k) for n in (1, 2, 3) for k in (1, 2, 3, 4) if (n == 1 or k >= 2)] + [(4, 4)]
    out += ws_backend_obligations(core, cases)
    out += ws_front_obligations(core, (2, 3) if tier == "quick" else (1, 2, 3, 4))
    # a reply that lacks an entry must not be taken for the reply to another batch in flight: the ids of a batch are not handed out again
    from .C03 import batch_id_obligations
    out += batch_id_obligations(core)
    seen = set()
    for r_ in out:
        if r_.get("status") == "violated" and r_.get("key"):
            if r_["key"] in seen:
                r_["status"] = "violated-duplicate"
            seen.add(r_["key"])
    return out
