"""C12 - batch results are positional (WS: process_batch_response over the real MIR; HTTP: slot arithmetic and sizing)."""
import itertools
import z3
from .. import run as R, clienttable as T, mapmodels as MM, listmodels as LM
from ..sym import Executor, Node, Ptr, Opaque

VALIDATION = {}


def _ws_case(core, n, k):
    """a pending batch over ids s..s+n answered by k responses with arbitrary u64 ids"""
    ctx = T.make_ctx(core, max_paths=6000, max_visits=n + k + 3)
    ex = Executor(ctx)
    b_ins = R.find_body(core, T.MGR + r"insert_pending_batch\(")
    b_proc = R.find_body(core, r"^fn process_batch_response\(_1: &mut RequestManager")
    s = z3.BitVec("batch.start", 64)
    pre = z3.ULE(s, (1 << 64) - 1 - n)           # generate_batch_id_range guarantees start + n does not overflow
    tables = T.new_tables(ex, core)
    for t in tables:
        t.pc.append(pre)
    nxt, ab = T.step(ex, core, tables, b_ins, lambda e: [T.range_u64(e, s, s + n), T.opaque("batch.tx")], "insert_batch")
    tables = [t for t, p in nxt]
    rids = [z3.BitVec(f"reply{j}.id", 64) for j in range(k)]
    # the only caller (handle_recv_message) passes range = min(reply ids) .. max(reply ids) + 1
    if k:
        lo = z3.And(*[z3.ULE(s, r) for r in rids], z3.Or(*[r == s for r in rids]))
        hi = z3.And(*[z3.ULE(r, s + (n - 1)) for r in rids], z3.Or(*[r == s + (n - 1) for r in rids]))
        for t in tables:
            t.pc.append(z3.And(lo, hi))

    def mk(e):
        rps = LM.new_list(e, [T.response_with_id(e, T.id_number(e, rids[j]), f"reply{j}") for j in range(k)], name="rps")
        return [rps, T.range_u64(e, s, s + n)]
    nxt, ab2 = T.step(ex, core, tables, b_proc, mk, "process_batch")
    fi_id = R.field_index("Response", "id")
    viol, reach_ok, reach_err, bad = [], [], [], []
    for t, p in nxt:
        pc = p.cond()
        d = z3.simplify(ex.discr_of(p.ret))
        sends = [e for e in p.events if e.kind == "call" and e.callee.startswith("tokio::sync::oneshot::Sender::")]
        if z3.is_bv_value(d) and d.as_long() == 0:
            reach_ok.append(pc)
            good = []
            if len(sends) != 1:
                viol.append(pc)
                continue
            val = sends[0].args[1]
            vec = ex.read_node(ex.child(val, ("Ok", 0), None)) if isinstance(val, Node) else None
            if not (isinstance(vec, Node) and LM.is_list(vec)):
                viol.append(pc)
                continue
            es = LM.elems(vec)
            if len(es) != n:
                viol.append(pc)                      # a list of another length was delivered
                continue
            conds = []
            for i, el in enumerate(es):
                idn = ex.read_node(ex.child(ex.child(el, 0, None), fi_id, None))
                dv = z3.simplify(ex.read_node(idn.kids["discr"])) if isinstance(idn, Node) and "discr" in idn.kids else None
                if dv is None or not z3.is_bv_value(dv):
                    conds.append(z3.BoolVal(False))
                    continue
                which = R.source_tables()["enums"]["Id"][dv.as_long()]
                if which == "Null":
                    conds.append(z3.BoolVal(True))   # placeholder error for an unanswered entry
                elif which == "Number":
                    conds.append(ex.read_node(idn.kids[("Number", 0)]) == s + i)
                else:
                    conds.append(z3.BoolVal(False))
            viol.append(z3.And(pc, z3.Not(z3.And(*conds))))
            # the batch entry is gone
            if T.sizes(ex, t.mgr)[2] != 0:
                viol.append(pc)
        else:
            reach_err.append(pc)
            # a failed batch must not complete the caller with a (short) list
            if any(isinstance(e.args[1], Node) and z3.is_bv_value(z3.simplify(ex.discr_of(e.args[1]))) and z3.simplify(ex.discr_of(e.args[1])).as_long() == 0 for e in sends):
                viol.append(pc)
    abnormal = [(p.kind, p.detail) for _, p, _ in ab + ab2 if p.kind != "panic"]
    panics = [p.cond() for _, p, _ in ab + ab2 if p.kind == "panic"]
    return ex, ctx, viol, reach_ok, reach_err, abnormal, panics, rids, s


def obligations(tier, seed):
    core = R.bodies("core")
    out = []
    cases = [(1, 1), (2, 2), (3, 2), (2, 3), (3, 3)] if tier == "quick" else [(n, k) for n in (1, 2, 3, 4) for k in (1, 2, 3, 4, 5)]
    for n, k in cases:
        ex, ctx, viol, reach_ok, reach_err, abnormal, panics, rids, s = _ws_case(core, n, k)
        name = f"ws:process_batch_response:n={n}:replies={k}"
        common = dict(bodies=sorted(ctx.encoded_bodies), extra={"models": T.CLIENT_DOC + MM.MAP_DOC + LM.LIST_DOC})
        if abnormal:
            out.append(R.Result(engine="mirsym", name=name, kind="kernel", status="unsupported", detail=str(abnormal[0])[:300], bodies=common["bodies"]))
            continue
        reach = [z3.Or(*reach_ok)] if (reach_ok and k >= 1) else []
        if reach_err:
            reach.append(z3.Or(*reach_err))
        if not reach:
            reach = [z3.Or(*(reach_ok + reach_err))]
        args = {"start": s}
        args.update({f"r{j}": rids[j] for j in range(k)})
        out.append(R.decide(name + ":positional", "kernel", z3.Or(*viol) if viol else z3.BoolVal(False), reach,
                            desc=f"a pending batch of {n} answered by {k} responses with ANY u64 ids (duplicates, foreign, missing included): if the call is completed, "
                                 f"it gets exactly {n} entries and entry i is the response with id start+i or the placeholder error; otherwise it fails as a whole",
                            bounds=f"batch start any u64 (no overflow), n={n}, {k} reply ids any u64 in any order with min = start and max = start+n-1 (what the caller handle_recv_message passes)",
                            keydetail="positional", replay=dict(scenario="c12_ws_batch", vars=args, fixed={"n": n, "k": k}, region=z3.And(z3.ULE(s, 1000))), **common))
        out.append(R.decide(name + ":no-panic", "kernel", z3.Or(*panics) if panics else z3.BoolVal(False), reach,
                            desc="no overflow / unwrap panic for any ids", bounds="as above", keydetail="panic", **common))
    return out
