"""C18 - after complete life cycles the client's four tables are empty (symbolic execution of manager.rs / helpers.rs)."""
import itertools, re
import z3
from .. import run as R, clienttable as T, mapmodels as MM
from ..sym import Executor, Node, Ptr, Opaque, OBJ

VALIDATION = {}


class Drv:
    def __init__(self, core, max_paths=6000):
        self.core = core
        self.ctx = T.make_ctx(core, max_paths=max_paths)
        self.ex = Executor(self.ctx)
        b = lambda rx: R.find_body(core, rx)
        self.b_call = b(T.MGR + r"insert_pending_call\(")
        self.b_sub = b(T.MGR + r"insert_pending_subscription\(")
        self.b_getreq = b(T.MGR + r"get_request_id_by_subscription_id\(_1: &RequestManager")
        self.b_single = b(r"^fn process_single_response\(_1: &mut RequestManager")
        self.b_close = b(r"^fn process_subscription_close_response\(_1: &mut RequestManager")
        self.b_subresp = b(r"^fn process_subscription_response\(_1: &mut RequestManager")
        self.b_unsub = b(r"^fn build_unsubscribe_message\(_1: &mut RequestManager")
        self.b_notif_ins = b(T.MGR + r"insert_notification_handler\(")
        self.b_notif_rm = b(T.MGR + r"remove_notification_handler\(")
        self.b_notif_proc = b(r"^fn process_notification\(_1: &mut RequestManager")
        self.abnormal = []
        self.nsym = itertools.count()

    def sym(self, name):
        return z3.BitVec(f"{name}", 64)

    # -- helpers over a table -------------------------------------------------------------------------------------
    def sub_key_for(self, mgr, sid_bv):
        """the SubscriptionId under which request id Number(sid_bv) is registered in `subscriptions` (driver-side lookup)"""
        m = mgr.kids.get(R.field_index("RequestManager", "subscriptions"))
        for i, e in MM.entries(m):
            v = self.ex.read_node(e.kids["v"])
            if isinstance(v, Node) and ("Number", 0) in v.kids and self.ex.read_node(v.kids[("Number", 0)]).eq(sid_bv):
                return e.kids["k"].clone()
        return None

    def step(self, tables, body, mk, label):
        nxt, ab = T.step(self.ex, self.core, tables, body, mk, label)
        self.abnormal += ab
        return nxt

    def merged(self, tables):
        return T.merge(self.ex, tables)

    # -- operations -----------------------------------------------------------------------------------------------
    def op_call(self, tables, i):
        idv = self.sym(f"call{i}.id")
        return [t for t, _ in self.step(tables, self.b_call, lambda ex: [T.id_number(ex, idv), T.some(ex, T.opaque(f"call{i}.tx"))], f"call{i}")], idv

    def op_answer(self, tables, idv, label):
        return [t for t, _ in self.step(tables, self.b_single,
                                        lambda ex: [T.response_with_id(ex, T.id_number(ex, idv), f"resp.{label}"), z3.BitVecVal(4, 64)], label)]

    def op_sub(self, tables, i):
        sid, uid = self.sym(f"sub{i}.id"), self.sym(f"sub{i}.unsub_id")
        out = self.step(tables, self.b_sub, lambda ex: [T.id_number(ex, sid), T.id_number(ex, uid), T.opaque(f"sub{i}.tx"), T.opaque(f"sub{i}.unsub_method")], f"sub{i}")
        # the client allocates two different fresh ids: keep only the successful insertions
        keep = []
        for t, p in out:
            if not self.ex.feasible(t.pc + [self.ex.discr_of(p.ret) != 0]):
                keep.append(t)
        return keep, sid, uid

    def op_server_close(self, tables, sid, label):
        out = []
        for t in tables:
            key = self.sub_key_for(t.mgr, sid)
            if key is None:
                out.append(t)   # not an active subscription in this branch: nothing for the server to close
                continue
            fi_params = R.field_index("Notification", "params")
            fi_sub = R.field_index("SubscriptionPayloadError", "subscription")

            def mk(ex, key=key):
                n = Node(f"closemsg.{label}", "Notification")
                p = Node(n.name + f".{fi_params}", "SubscriptionPayloadError")
                k = Node(p.name + f".{fi_sub}", None)
                ex.write(k, key)
                p.kids[fi_sub] = k
                n.kids[fi_params] = p
                return [n]
            out += [t2 for t2, _ in self.step([t], self.b_close, mk, label)]
        return out

    def op_app_unsubscribe(self, tables, sid, label):
        """what handle_frontend_messages does for FrontToBack::SubscriptionClosed(sub_id):
        get_request_id_by_subscription_id(&sub_id).and_then(|req_id| build_unsubscribe_message(m, req_id, sub_id))"""
        out = []
        for t in tables:
            key = self.sub_key_for(t.mgr, sid)
            if key is None:
                out.append(t)
                continue
            out += [t2 for t2, _ in self.step([t], self.b_unsub, lambda ex, key=key: [T.id_number(ex, sid), key.clone()], label)]
        return out

    def op_notif_register(self, tables, i):
        m = Opaque(z3.Const(f"notif{i}.method", OBJ))

        def sender(ex):
            a = Node(f"notif{i}.handler", "SubscriptionSender")
            inner = Node(a.name + ".0", None)
            inner.val = Opaque(z3.Const("tx:" + a.name, OBJ))
            a.kids[0] = inner
            return a
        out = self.step(tables, self.b_notif_ins, lambda ex: [m, sender(ex)], f"notif_register{i}")
        return [t for t, p in out if not self.ex.feasible(t.pc + [self.ex.discr_of(p.ret) != 0])], m

    def op_notif_unregister(self, tables, m, label):
        return [t for t, _ in self.step(tables, self.b_notif_rm, lambda ex: [m], label)]

    def op_notif_arrives_closed(self, tables, m, label):
        """a notification for method m arrives after the application dropped its receiver: the send reports Closed"""
        fi_m = R.field_index("Notification", "method")

        def mk(ex):
            n = Node("mnotif." + label, "Notification")
            k = Node(f"{n.name}.{fi_m}", None)
            k.val = m
            n.kids[fi_m] = k
            return [n]
        out = []
        for t, p in self.step(tables, self.b_notif_proc, mk, label):
            sends = [e for e in p.events if e.kind == "call" and "::try_send" in e.callee]
            if not sends:
                continue
            r = sends[0].ret
            # keep the paths on which try_send answered Err(Closed)
            err = self.ex.child(r, ("Err", 0), None)
            if self.ex.feasible(t.pc + [self.ex.discr_of(r) != 1]) or self.ex.feasible(t.pc + [self.ex.discr_of(err) != 1]):
                continue
            out.append(t)
        return out

    def op_sub_notif_finds_gone(self, tables, sid, label, outcome):
        """a notification for the (still registered) subscription arrives after the application let go of its receiver without the close message getting through (outcome
        'closed'), or while its buffer is full (outcome 'full'): process_subscription_response's verdict, and - exactly when it names the subscription - what the
        background task then does with it (SubscriptionClosed => build_unsubscribe_message)"""
        fi_params = R.field_index("Notification", "params")
        fs, fr = R.field_index("SubscriptionPayload", "subscription"), R.field_index("SubscriptionPayload", "result")
        out = []
        for t in tables:
            key = self.sub_key_for(t.mgr, sid)
            if key is None:
                out.append(t)
                continue

            def mk(ex, key=key):
                n = Node("subnotif." + label, "Notification")
                p = Node(f"{n.name}.{fi_params}", "SubscriptionPayload")
                k = Node(f"{p.name}.{fs}", None)
                ex.write(k, key)
                p.kids[fs] = k
                r = Node(f"{p.name}.{fr}", None)
                r.val = Opaque(z3.Const(f"payload.{label}", OBJ))
                p.kids[fr] = r
                n.kids[fi_params] = p
                return [n]
            for t2, p in self.step([t], self.b_subresp, mk, label):
                sends = [e for e in p.events if e.kind == "call" and "::try_send" in e.callee]
                if len(sends) != 1:
                    continue
                r = sends[0].ret
                err = self.ex.child(r, ("Err", 0), None)
                want_ed = 1 if outcome == "closed" else 0           # TrySendError: Full = 0, Closed = 1
                if self.ex.feasible(t2.pc + [self.ex.discr_of(r) != 1]) or self.ex.feasible(t2.pc + [self.ex.discr_of(err) != want_ed]):
                    continue
                retd = z3.simplify(self.ex.discr_of(p.ret))
                if z3.is_bv_value(retd) and retd.as_long() == 1:
                    out += self.op_app_unsubscribe([t2], sid, label + ".closed")
                else:
                    out.append(t2)          # the verdict names nothing: nobody will close this subscription
        return out

    def active(self, t, sid):
        return self.sub_key_for(t.mgr, sid) is not None


def _lifecycles():
    """name -> (ops, class of subscribe answer this life cycle is about)"""
    return {
        "call": (["call", "answer"], None),
        "sub-refused": (["sub", "sub_answer"], "refused"),                      # error reply or unparsable subscription id
        "sub-server-close": (["sub", "sub_answer", "server_close"], "active"),
        "sub-unsubscribe-ack": (["sub", "sub_answer", "app_unsub", "unsub_ack"], "active"),
        # accepted, but the caller's future is already gone: the client builds an unsubscribe request at once and the
        # server acknowledges it
        "sub-dropped-then-ack": (["sub", "sub_answer", "unsub_ack"], "dropped"),
        # accepted and active; the application lets go of the stream while the drop-time close message is lost (full queue) - or falls behind its buffer; the next
        # notification for it makes the background task close it; the server acknowledges
        "sub-abandoned-then-notified": (["sub", "sub_answer", "notif_finds_closed", "unsub_ack"], "active"),
        "sub-lagging-then-notified": (["sub", "sub_answer", "notif_finds_full", "unsub_ack"], "active"),
        # a method-notification handler: unregistered by the application, or its receiver dropped and the next notification finds it closed
        "notif-handler-unregistered": (["notif_register", "notif_unregister"], None),
        "notif-handler-dropped": (["notif_register", "notif_closed"], None),
    }


def classify(d, t, sid):
    """outcome of the subscribe answer in table t: active (accepted, receiver alive) / dropped (accepted, receiver gone:
    unsubscribe message built) / refused"""
    if d.active(t, sid):
        return "active"
    last = t.log[-1][1]
    ret = last.ret
    # Ok(Some(unsubscribe message)) <=> dropped
    okv = d.ex.child(ret, ("Ok", 0), None)
    dv = z3.simplify(d.ex.discr_of(okv)) if ("discr" in okv.kids or okv.kids) else None
    if dv is not None and z3.is_bv_value(dv) and dv.as_long() == 1:
        return "dropped"
    return "refused"


def run_overlap(d, tables, i):
    """two subscriptions alive at the same time (the server may even hand both the same subscription id): A accepted, B answered
    (accepted or refused, as the table decides), A unsubscribed + acknowledged, B likewise if it became active"""
    ids = {}
    tables, ids["sid"], ids["uid"] = d.op_sub(tables, i)
    tables = d.op_answer(tables, ids["sid"], f"sub_answer{i}")
    tables = d.merged([t for t in tables if classify(d, t, ids["sid"]) == "active"])
    tables, ids["sid_b"], ids["uid_b"] = d.op_sub(tables, i + 50)
    tables = d.merged(d.op_answer(tables, ids["sid_b"], f"sub_answer{i + 50}"))
    tables = d.merged(d.op_app_unsubscribe(tables, ids["sid"], f"app_unsub{i}"))
    tables = d.merged(d.op_answer(tables, ids["uid"], f"unsub_ack{i}"))
    tables = d.merged(d.op_app_unsubscribe(tables, ids["sid_b"], f"app_unsub{i + 50}"))
    tables = d.merged(d.op_answer(tables, ids["uid_b"], f"unsub_ack{i + 50}"))
    return tables, ids


def run_cycle(d, tables, name, i):
    if name == "subs-overlap":
        return run_overlap(d, tables, i)
    ops, want = _lifecycles()[name]
    ids = {}
    for op in ops:
        if op == "call":
            tables, ids["id"] = d.op_call(tables, i)
        elif op == "answer":
            tables = d.op_answer(tables, ids["id"], f"answer{i}")
        elif op == "sub":
            tables, ids["sid"], ids["uid"] = d.op_sub(tables, i)
        elif op == "sub_answer":
            tables = d.op_answer(tables, ids["sid"], f"sub_answer{i}")
            tables = [t for t in tables if classify(d, t, ids["sid"]) == want]
        elif op == "server_close":
            tables = d.op_server_close(tables, ids["sid"], f"server_close{i}")
        elif op == "app_unsub":
            tables = d.op_app_unsubscribe(tables, ids["sid"], f"app_unsub{i}")
        elif op == "unsub_ack":
            tables = d.op_answer(tables, ids["uid"], f"unsub_ack{i}")
        elif op in ("notif_finds_closed", "notif_finds_full"):
            tables = d.op_sub_notif_finds_gone(tables, ids["sid"], f"{op}{i}", "closed" if op.endswith("closed") else "full")
        elif op == "notif_register":
            tables, ids["_method"] = d.op_notif_register(tables, i)
        elif op == "notif_unregister":
            tables = d.op_notif_unregister(tables, ids["_method"], f"notif_unregister{i}")
        elif op == "notif_closed":
            tables = d.op_notif_arrives_closed(tables, ids["_method"], f"notif_closed{i}")
        tables = d.merged(tables)
    return tables, ids


def obligations(tier, seed):
    core = R.bodies("core")
    out = []
    cycles = list(_lifecycles())
    seqs = [[c] for c in cycles] + [["subs-overlap"]]
    if tier == "thorough":
        seqs += [[a, b] for a in cycles for b in cycles]
    else:
        seqs += [["sub-unsubscribe-ack", "call"], ["sub-server-close", "sub-unsubscribe-ack"], ["sub-refused", "sub-dropped-then-ack"]]
    for seq in seqs:
        d = Drv(core)
        tables = T.new_tables(d.ex, core)
        allids = []
        for i, name in enumerate(seq):
            tables, ids = run_cycle(d, tables, name, i)
            allids.append(ids)
        nm = "lifecycle:" + "+".join(seq)
        # all request ids the client allocated are pairwise different (monotonic id allocator)
        idsyms = [v for ids in allids for k_, v in ids.items() if not k_.startswith("_")]
        distinct = z3.Distinct(*idsyms) if len(idsyms) > 1 else z3.BoolVal(True)
        reach, residues = [], {}
        kinds = R.source_tables()["enums"]["Kind"]
        for t in tables:
            pc = z3.And(distinct, *t.pc)
            reach.append(pc)
            for fld in ("requests", "subscriptions", "batches", "notification_handlers"):
                mp = t.mgr.kids.get(R.field_index("RequestManager", fld))
                for _, e in MM.entries(mp):
                    k = d.ex.read_node(e.kids["k"])
                    role = "other"
                    if isinstance(k, Node) and ("Number", 0) in k.kids:
                        role = re.sub(r"\d+", "", str(d.ex.read_node(k.kids[("Number", 0)])))
                    v = d.ex.read_node(e.kids["v"])
                    vk = "?"
                    if isinstance(v, Node) and "discr" in v.kids:
                        dv = z3.simplify(d.ex.read_node(v.kids["discr"]))
                        if z3.is_bv_value(dv):
                            vk = kinds[dv.as_long()]
                            pay = v.kids.get((vk, 0))
                            if vk == "PendingMethodCall" and pay is not None and "discr" in pay.kids:
                                pd = z3.simplify(d.ex.read_node(pay.kids["discr"]))
                                vk += "(None)" if z3.is_bv_value(pd) and pd.as_long() == 0 else "(Some)"
                    residues.setdefault(f"{fld}[{role}]={vk}", []).append((pc, [l for l, _ in t.log]))
        if not tables:
            out.append(R.Result(engine="mirsym", name=nm, kind="kernel", status="vacuous", detail="no path realises this life cycle", bodies=sorted(d.ctx.encoded_bodies)))
            continue
        ab = [(t, p, l) for t, p, l in d.abnormal if p.kind != "panic"]
        common = dict(bodies=sorted(d.ctx.encoded_bodies), extra={"models": T.CLIENT_DOC + MM.MAP_DOC, "paths": len(tables)})
        if ab:
            out.append(R.Result(engine="mirsym", name=nm, kind="kernel", status="unsupported", detail=f"{ab[0][2]}: {ab[0][1].kind} {ab[0][1].detail}"[:300], bodies=common["bodies"]))
            continue
        panics = [z3.And(distinct, *p.pc) for t, p, l in d.abnormal if p.kind == "panic"]
        DESC = ("after the life cycle(s) complete - every call answered, every subscription refused, closed by the server, or unsubscribed and acknowledged - "
                "requests, subscriptions, batches and notification_handlers are all empty")
        BND = "request ids: any pairwise-different u64; subscribe answers: accepted / refused / malformed and receiver alive / dropped as the solver chooses"
        if not residues:
            out.append(R.decide(nm + ":tables-empty", "kernel", z3.BoolVal(False), [z3.Or(*reach)], desc=DESC, bounds=BND, **common))
        for what, items in sorted(residues.items()):
            r = R.decide(nm + f":no-residue:{what}", "kernel", z3.Or(*[c for c, _ in items]), [z3.Or(*reach)], desc=DESC, bounds=BND, **common)
            if r["status"] == "violated":
                r["model"] = {"residue": what, "steps": items[0][1]}
                r["replay"] = {"scenario": "c18_lifecycle", "args": {"cycles": seq, "beyond_known": what != "requests[sub.id]=PendingMethodCall(None)"}}
                if what.startswith("notification_handlers"):
                    # over a socket the drop itself unregisters the handler; the leftover needs the drop-time message to be lost (full queue)
                    r["replay"] = {"scenario": "c05_drop_full_queue", "args": {"kind": "handler"}}
                r["key"] = "mirsym:c18:residue:" + what
            out.append(r)
        out.append(R.decide(nm + ":no-panic", "kernel", z3.Or(*panics) if panics else z3.BoolVal(False), [z3.Or(*reach)],
                            desc="no unwrap/expect/unreachable! fires in the table code along the life cycle", bounds="as above", **common))
    seen = set()
    for r in out:
        if r.get("status") == "violated":
            if r["key"] in seen:
                r["status"] = "violated-duplicate"
            seen.add(r["key"])
    return out
