"""C14 - host filter: port matching, default ports, authority agreement and the gate in front of the inner service."""
import re
import z3
from .. import run as R, models as M, mapmodels as MM, prov as P, clienttable as T, seqmodels as SQ
from ..sym import Ctx, Executor, Node, Ptr, Opaque, OBJ, to_term, StrConst, Fork

VALIDATION = {}
HF = r"^fn host_filter::<impl at server/src/middleware/http/host_filter\.rs:[\d: ]+>::"
AU = r"^fn authority::<impl at server/src/middleware/http/authority\.rs:[\d: ]+>::"


def m_u16_eq(ex, st, callee, args, dty, site):
    a, b = MM.value_of(ex, args[0]), MM.value_of(ex, args[1])
    if isinstance(a, z3.BitVecRef) and isinstance(b, z3.BitVecRef):
        c = a == b
        return z3.Not(c) if callee.endswith("::ne") else c
    return NotImplemented


def m_str_eq_const(ex, st, callee, args, dty, site):
    a, b = MM.value_of(ex, args[0]), MM.value_of(ex, args[1])
    if isinstance(a, StrConst) and isinstance(b, StrConst):
        return z3.BoolVal(a.s == b.s)
    return MM.keq(ex, a, b)


def _ctx(srv, extra=()):
    t = R.source_tables()
    return Ctx(srv, consts=t["consts"], enums=t["enums"],
               models=list(extra) + [(r"^<&?u16 as PartialEq(<&?u16>)?>::(eq|ne)$", m_u16_eq), (r"^<&?str as PartialEq(<&?str>)?>::(eq|ne)$", m_str_eq_const)]
               + SQ.TRY_MODELS + list(M.TRACING_MODELS) + list(M.INT_MODELS) + P.COMMON_MODELS,
               inline=[M.crate_inliner(srv)], max_paths=4000)


def port(ex, prefix):
    """an arbitrary Port value: discriminant in {Default, Any, Fixed} and a 16-bit number"""
    n = Node(prefix, "Port")
    d = Node(prefix + ".discr", "isize")
    d.val = z3.BitVec(prefix + ".discr", 64)
    n.kids["discr"] = d
    k = Node(prefix + ".Fixed:0", "u16")
    k.val = z3.BitVec(prefix + ".n", 16)
    n.kids[("Fixed", 0)] = k
    return n, d.val, k.val


def obligations(tier, seed):
    srv = R.bodies("server")
    out = []
    ports = R.source_tables()["enums"]["Port"]
    DEF, ANY, FIX = ports.index("Default"), ports.index("Any"), ports.index("Fixed")

    # ---- 1. the port matching closure -------------------------------------------------------------------------------
    b = R.find_body(srv, HF + r"recognize::\{closure#0\}\(")
    ctx = _ctx(srv)
    ex = Executor(ctx)
    allow, ad, an = port(ex, "allow")
    req, rd, rn = port(ex, "req")
    auth = Node("other", "Authority")
    fi_port = R.field_index("Authority", "port")
    pk = Node(f"other.{fi_port}", "Port")
    ex.write(pk, req)
    auth.kids[fi_port] = pk
    clo = Node("closure", "closure")
    c0 = Node("closure.0", None)
    c0.val = Ptr(auth)
    clo.kids[0] = c0
    valid = z3.And(z3.ULE(ad, 2), z3.ULE(rd, 2))
    ps = ex.run(b, args=[Ptr(clo), Ptr(allow)], pc0=[valid])
    viol, reach_t, reach_f = [], [], []
    spec = z3.Or(ad == ANY, z3.And(ad == DEF, rd == DEF), z3.And(ad == FIX, rd == FIX, an == rn))
    bad = [p for p in ps if p.kind in ("unsupported", "limit", "unwound", "panic")]
    for p in ps:
        if p.kind == "return":
            r = ex.read_node(p.ret)
            viol.append(z3.And(p.cond(), r != spec))
            reach_t.append(z3.And(p.cond(), r))
            reach_f.append(z3.And(p.cond(), z3.Not(r)))
    if bad:
        out.append(R.Result(engine="mirsym", name="kernel:port-match", kind="kernel", status="unsupported", detail=bad[0].detail[:300], bodies=[b.name]))
    else:
        out.append(R.decide("kernel:port-match", "kernel", z3.Or(*viol), [z3.Or(*reach_t), z3.Or(*reach_f)], bodies=[b.name],
                            desc="an allow-list port admits a request port <=> entry port is '*', or both are the default port, or both are fixed and equal (never the other way round: "
                                 "a '*' or default port sent by the client does not match a fixed entry)",
                            bounds="all (entry port, request port) in {Default, Any, Fixed(u16)}^2 - 3*3*2^32 combinations", keydetail="port-match",
                            replay=dict(scenario="c14_ports", vars={}, fixed={}, region=z3.BoolVal(True))))

    # ---- 2. default_port table ----------------------------------------------------------------------------------------
    b = R.find_body(srv, r"^fn default_port\(_1: std::option::Option<&str>\)")
    table = {"http": 80, "ws": 80, "https": 443, "wss": 443, "ftp": 21, "gopher": None, None: None}
    viol, reach = [], []
    unsupported = None
    for scheme, want in table.items():
        ctx = _ctx(srv)
        ex = Executor(ctx)
        arg = MM.option(ex, scheme is not None, StrConst(scheme) if scheme is not None else None)
        for p in ex.run(b, args=[arg]):
            if p.kind in ("unsupported", "limit", "unwound", "panic"):
                unsupported = p.detail
            if p.kind != "return":
                continue
            d = ex.discr_of(p.ret)
            v = ex.read_node(ex.child(p.ret, ("Some", 0), "u16"))
            ok = (d == 0) if want is None else z3.And(d == 1, v == want)
            viol.append(z3.And(p.cond(), z3.Not(ok)))
            reach.append(p.cond())
    if unsupported:
        out.append(R.Result(engine="mirsym", name="kernel:default_port", kind="kernel", status="unsupported", detail=unsupported[:300], bodies=[b.name]))
    else:
        out.append(R.decide("kernel:default_port", "kernel", z3.Or(*viol), [z3.Or(*reach)], bodies=[b.name],
                            desc="scheme default ports: http/ws 80, https/wss 443, ftp 21, anything else none", bounds="the five known schemes, an unknown one, and no scheme",
                            keydetail="default-port"))

    # ---- 3. port normalisation in Authority::inner_from_str -------------------------------------------------------------
    b = R.find_body(srv, AU + r"inner_from_str\(_1: &str\)")
    portnum = z3.BitVec("parsed.port", 16)
    star = z3.Bool("port_text_is_star")
    has_colon = z3.Bool("has_colon")
    defp = z3.BitVec("scheme.default", 17)          # 0x10000 = no default

    def m_split_once(ex, st, callee, args, dty, site):
        o = Node(ex.ctx.fresh_name("split"), "Option<(&str,&str)>")
        d = Node(o.name + ".discr", "isize")
        d.val = z3.If(has_colon, z3.BitVecVal(1, 64), z3.BitVecVal(0, 64))
        o.kids["discr"] = d
        tup = Node(o.name + ".Some:0", "(&str,&str)")
        a, bb = Node(tup.name + ".0", None), Node(tup.name + ".1", None)
        a.val, bb.val = Opaque(z3.Const("before_colon", OBJ)), Opaque(z3.Const("port_text", OBJ))
        tup.kids[0], tup.kids[1] = a, bb
        o.kids[("Some", 0)] = tup
        return o

    def m_eq_star(ex, st, callee, args, dty, site):
        a, bq = MM.value_of(ex, args[0]), MM.value_of(ex, args[1])
        for x, y in ((a, bq), (bq, a)):
            if isinstance(y, StrConst) and y.s == "*" and isinstance(x, Opaque) and "port_text" in str(x.term):
                return star
        return NotImplemented

    def m_parse_u16(ex, st, callee, args, dty, site):
        okb = z3.Bool(ex.ctx.fresh_name("port_parses"))
        r = Node(ex.ctx.fresh_name("parse"), "Result<u16, ParseIntError>")
        d = Node(r.name + ".discr", "isize")
        d.val = z3.If(okb, z3.BitVecVal(0, 64), z3.BitVecVal(1, 64))
        r.kids["discr"] = d
        k = Node(r.name + ".Ok:0", "u16")
        k.val = portnum
        r.kids[("Ok", 0)] = k
        return r

    def m_default_port(ex, st, callee, args, dty, site):
        o = Node(ex.ctx.fresh_name("defport"), "Option<u16>")
        d = Node(o.name + ".discr", "isize")
        d.val = z3.If(defp == 0x10000, z3.BitVecVal(0, 64), z3.BitVecVal(1, 64))
        o.kids["discr"] = d
        k = Node(o.name + ".Some:0", "u16")
        k.val = z3.Extract(15, 0, defp)
        o.kids[("Some", 0)] = k
        return o

    def m_parse_uri_ok(ex, st, callee, args, dty, site):
        return ex.mk_variant("Result", 0, "Ok", Opaque(z3.Const("uri", OBJ)))

    def m_authority_some(ex, st, callee, args, dty, site):
        return ex.mk_variant("Option", 1, "Some", Ptr(Node("uri.authority", "http::uri::Authority")))

    extra = [(r"^core::str::<impl str>::split_once::<", m_split_once), (r"^<&?str as PartialEq(<&?str>)?>::(eq|ne)$", m_eq_star),
             (r"^core::str::<impl str>::parse::<u16>$", m_parse_u16), (r"^default_port$", m_default_port),
             (r"^core::str::<impl str>::parse::<Uri>$", m_parse_uri_ok), (r"^Uri::authority$", m_authority_some)]
    ctx = _ctx(srv, extra)
    ex = Executor(ctx)
    ps = ex.run(b, pc0=[z3.ULE(defp, 0x10000)])
    bad = [p for p in ps if p.kind in ("unsupported", "limit", "unwound")]
    viol, reach = [], {"any": [], "default": [], "fixed": [], "nocolon": []}
    for p in ps:
        if p.kind != "return":
            continue
        d = z3.simplify(ex.discr_of(p.ret))
        if not (z3.is_bv_value(d) and d.as_long() == 0):
            continue
        a = ex.read_node(ex.child(p.ret, ("Ok", 0), None))
        pn = ex.child(a, fi_port, "Port")
        pd = ex.discr_of(pn)
        pv = ex.read_node(ex.child(pn, ("Fixed", 0), "u16"))
        is_default_num = z3.And(defp != 0x10000, z3.Extract(15, 0, defp) == portnum)
        spec = z3.If(z3.Not(has_colon), pd == DEF, z3.If(star, pd == ANY, z3.If(is_default_num, pd == DEF, z3.And(pd == FIX, pv == portnum))))
        viol.append(z3.And(p.cond(), z3.Not(spec)))
        reach["nocolon"].append(z3.And(p.cond(), z3.Not(has_colon)))
        reach["any"].append(z3.And(p.cond(), has_colon, star))
        reach["default"].append(z3.And(p.cond(), has_colon, z3.Not(star), is_default_num))
        reach["fixed"].append(z3.And(p.cond(), has_colon, z3.Not(star), z3.Not(is_default_num)))
    reach_l = R.live_reach(viol, reach, bad)
    if bad or not all(reach_l):
        out.append(R.Result(engine="mirsym", name="kernel:port-normalisation", kind="kernel", status="unsupported" if bad else "vacuous", detail=str([x.detail for x in bad[:1]])[:300], bodies=[b.name]))
    else:
        out.append(R.decide("kernel:port-normalisation", "kernel", z3.Or(*viol), [z3.Or(*v) for v in reach_l], bodies=[b.name],
                            desc="authority port: no ':' -> Default; ':*' -> Any; ':<n>' with n the scheme's default port -> Default; otherwise Fixed(n)",
                            bounds="all u16 port numbers x scheme default in {none, any u16}; URI parsing itself uninterpreted (http crate)", keydetail="port-normalisation",
                            extra={"models": ["str::split_once(':'), str::parse::<u16>, Uri parsing: uninterpreted outcomes (symbolic)", "default_port: symbolic table value (checked separately)"]}))

    # ---- 4. from_http_request: agreement table and untouched texts ---------------------------------------------------------
    b = R.find_body(srv, AU + r"from_http_request\(_1: &hyper::Request<T>\)")

    def m_read_header(ex, st, callee, args, dty, site):
        o = Node(ex.ctx.fresh_name("hdr"), "Option<&str>")
        d = Node(o.name + ".discr", "isize")
        d.val = z3.If(z3.Bool("host_header_present"), z3.BitVecVal(1, 64), z3.BitVecVal(0, 64))
        o.kids["discr"] = d
        k = Node(o.name + ".Some:0", None)
        k.val = Opaque(z3.Const("host_header_text", OBJ))
        o.kids[("Some", 0)] = k
        return o

    def m_uri_authority(ex, st, callee, args, dty, site):
        o = Node(ex.ctx.fresh_name("uriauth"), "Option<&Authority>")
        d = Node(o.name + ".discr", "isize")
        d.val = z3.If(z3.Bool("uri_authority_present"), z3.BitVecVal(1, 64), z3.BitVecVal(0, 64))
        o.kids["discr"] = d
        k = Node(o.name + ".Some:0", None)
        k.val = Opaque(z3.Const("uri_authority", OBJ))
        o.kids[("Some", 0)] = k
        return o

    parsed = {}

    def m_try_from(ex, st, callee, args, dty, site):
        src = str(to_term(MM.value_of(ex, args[0])))
        okb = z3.Bool("parses:" + src)
        r = Node(ex.ctx.fresh_name("auth_result"), "Result<Authority, AuthorityError>")
        d = Node(r.name + ".discr", "isize")
        d.val = z3.If(okb, z3.BitVecVal(0, 64), z3.BitVecVal(1, 64))
        r.kids["discr"] = d
        a = Node(r.name + ".Ok:0", "Authority")
        a.val = Opaque(z3.Const("authority_of:" + src, OBJ))
        r.kids[("Ok", 0)] = a
        parsed[src] = okb
        return r

    def m_auth_eq(ex, st, callee, args, dty, site):
        a, bq = to_term(MM.value_of(ex, args[0])), to_term(MM.value_of(ex, args[1]))
        return z3.Bool(f"equal:{a}~{bq}")

    extra = [(r"read_header_value$", m_read_header), (r"^Uri::authority$", m_uri_authority), (r"^http::uri::Authority::as_str$", M.m_identity),
             (r"as TryFrom<(&str|std::string::String|String)>>::try_from$", m_try_from), (r"^<authority::Authority as PartialEq>::(eq|ne)$", m_auth_eq),
             (r"^hyper::Request::<T>::(headers|uri)$", lambda ex, st, c, a, d, s: Opaque(z3.Const("req." + c.split("::")[-1], OBJ)))]
    ctx = _ctx(srv, extra)
    ctx.inline = [M.crate_inliner(srv)]
    ex = Executor(ctx)
    ps = ex.run(b)
    bad = [p for p in ps if p.kind in ("unsupported", "limit", "unwound", "panic")]
    hh, ua = z3.Bool("host_header_present"), z3.Bool("uri_authority_present")
    viol, reach, prov = [], {"both": [], "neither": []}, []
    srcs = set()
    for p in ps:
        if p.kind != "return":
            continue
        for e in p.events:
            if e.kind == "call" and re.search(r"as TryFrom<(&str|std::string::String|String)>>::try_from$", e.callee):
                srcs.add(str(to_term(MM.value_of(ex, e.args[0]))))
        d = ex.discr_of(p.ret)
        res = to_term(ex.read_node(ex.child(p.ret, ("Some", 0), None)))
        # the two parse results, identified by which source text (possibly rewritten) they were parsed from
        hs = [x for x in parsed if "host_header_text" in x]
        us = [x for x in parsed if "uri_authority" in x]
        hsrc = hs[0] if hs else "host_header_text"
        usrc = us[0] if us else "uri_authority"
        ok1 = z3.And(hh, parsed.get(hsrc, z3.BoolVal(False)))
        ok2 = z3.And(ua, parsed.get(usrc, z3.BoolVal(False)))
        a1, a2 = z3.Const("authority_of:" + hsrc, OBJ), z3.Const("authority_of:" + usrc, OBJ)
        eq = z3.Bool(f"equal:{a1}~{a2}")
        both = z3.And(ok1, ok2)
        neither = z3.And(z3.Not(ok1), z3.Not(ok2))
        spec_both = z3.If(eq, z3.And(d == 1, res == a1), d == 0)
        viol.append(z3.And(p.cond(), both, z3.Not(spec_both)))
        viol.append(z3.And(p.cond(), neither, d != 0))
        # whatever is returned is one of the two parsed authorities
        viol.append(z3.And(p.cond(), d == 1, z3.Not(z3.Or(z3.And(ok1, res == a1), z3.And(ok2, res == a2)))))
        reach["both"].append(z3.And(p.cond(), both))
        reach["neither"].append(z3.And(p.cond(), neither))
        reach.setdefault("any", []).append(p.cond())
    reach_l = R.live_reach(viol, reach, bad)
    if bad or not all(reach_l):
        out.append(R.Result(engine="mirsym", name="kernel:from_http_request", kind="kernel", status="unsupported" if bad else "vacuous", detail=str([x.detail for x in bad[:1]])[:300], bodies=[b.name]))
    else:
        out.append(R.decide("kernel:from_http_request:agreement", "kernel", z3.Or(*viol), [z3.Or(*v) for v in reach_l], bodies=[b.name],
                            desc="Host header and URI authority both parse: admitted for matching iff they are equal (else no single authority -> 400); neither parses: none; "
                                 "the result is always one of the parsed authorities (mixed cells - one parses, one does not - are not asserted)",
                            bounds="presence and parse outcome of both sources and their equality: all combinations", keydetail="authority-agreement",
                            replay=dict(scenario="c14_authority_sources", vars={}, fixed={}, region=z3.BoolVal(True))))
        srcs = set(parsed)          # every text the authority parser was invoked on, on any path
        ok_src = srcs == {"host_header_text", "uri_authority"}
        out.append(R.decide("prov:from_http_request:texts-untouched", "provenance", z3.BoolVal(not ok_src), [z3.Or(*reach["any"])], bodies=[b.name],
                            desc="the texts handed to the authority parser are the Host header value and the URI authority themselves (no case folding or other rewriting on the "
                                 "request side that the allow-list side does not get)", bounds="all paths", keydetail="authority-text-rewritten",
                            extra={"parser_inputs": sorted(srcs)}, replay=dict(scenario="c14_authority_sources", vars={}, fixed={}, region=z3.BoolVal(True))))

    # ---- 5. the gate: inner service only behind a recognised authority --------------------------------------------------------
    b = R.find_body(srv, HF + r"call\(_1: &mut HostFilter<S>, _2: hyper::Request<B>\)")
    ctx = _ctx(srv)
    ctx.inline = []
    ex = Executor(ctx)
    ps = ex.run(b)
    bad = [p for p in ps if p.kind in ("unsupported", "limit", "unwound")]
    viol, reach_in, reach_400, reach_403 = [], [], [], []
    for p in ps:
        if p.kind != "return":
            continue
        evs = [e for e in p.events if e.kind == "call"]
        inner = [e for e in evs if re.search(r"as (tower::)?Service<.*>>::call$", e.callee)]
        auth = [e for e in evs if e.callee.endswith("from_http_request") or "from_http_request::<" in e.callee]
        # Option::is_none_or(filter, |f| f.recognize(&authority)): no filter -> true; a filter -> whatever recognize answers (closure inlined)
        rec = [e for e in evs if re.search(r"is_none_or", e.callee) or re.search(r"::recognize$", e.callee)]
        pc = p.cond()
        if inner:
            reach_in.append(pc)
            if not auth or not rec:
                # (the statement is about an *enabled* filter: what a disabled one forwards is not its subject)
                viol.append(z3.And(pc, z3.BitVec(f"arg1.*.{R.field_index('HostFilter', 'filter')}.discr", 64) == 1))
            else:
                # inner.call only when from_http_request returned Some and the filter check returned true
                a_some = ex.discr_of(auth[0].ret) == 1
                viol.append(z3.And(pc, z3.Not(z3.And(a_some, rec[-1].ret if isinstance(rec[-1].ret, z3.BoolRef) else z3.BoolVal(False)))))
                # and the authority handed to recognize is the one determined from this request
                rz = [e for e in rec if e.callee.endswith("::recognize")]
                if rz and str(to_term(auth[0].ret)) not in str(to_term(MM.value_of(ex, rz[0].args[1]))) and "Some:0" not in str(to_term(MM.value_of(ex, rz[0].args[1]))):
                    viol.append(pc)
        else:
            made = [e for e in evs if "{async block@" in e.callee or "boxed" in e.callee]
            (reach_400 if not rec else reach_403).append(pc)
    reach_l = R.live_reach(viol, {"in": reach_in, "400": reach_400, "403": reach_403}, bad)
    if bad or not all(reach_l):
        out.append(R.Result(engine="mirsym", name="order:HostFilter::call:gate", kind="order", status="unsupported" if bad else "vacuous",
                            detail=str([x.detail for x in bad[:1]] or [len(reach_in), len(reach_400), len(reach_403)])[:300], bodies=[b.name]))
    else:
        out.append(R.decide("order:HostFilter::call:gate", "order", z3.Or(*viol) if viol else z3.BoolVal(False), [z3.Or(*v) for v in reach_l], bodies=[b.name],
                            desc="the inner service is called only after an authority was determined and the filter (if enabled) recognised it; otherwise the request ends in the filter (400 / 403)",
                            bounds="all paths of HostFilter::call", keydetail="gate",
                            extra={"models": ["Option::is_none_or(filter, closure): true without a filter, else the inlined closure, whose WhitelistedHosts::recognize call has a symbolic result", "from_http_request: recorded call with symbolic Option"]},
                            replay=dict(scenario="c14_authority_sources", vars={}, fixed={}, region=z3.BoolVal(True))))
    out += _layer_enabled(srv)
    # "answered 403 - or 400 when no single authority can be determined": the statuses the two refusals carry
    from .httpstatus import obligation as _status
    for helper, code, scen in (("host_not_allowed", 403, "c14_ports"), ("malformed", 400, "c14_authority_sources")):
        out.append(_status(srv, helper, f"kernel:response::{helper}:status-{code}", (lambda c: lambda s: s == c)(code),
                           f"the response built by response::{helper} carries HTTP status {code}",
                           dict(scenario=scen, vars={}, fixed={}, region=z3.BoolVal(True)), f"status-{code}"))
    return out


def _layer_enabled(srv):
    """HostFilterLayer::new(list) enables filtering for every list - also an empty one (which then admits nothing): the layer it returns holds a filter built from exactly
    that list; only disable() builds a layer without one; layer() hands the layer's own filter to the service"""
    res = []
    S_ = r"^fn host_filter::<impl at server/src/middleware/http/host_filter\.rs:[\d: ]+>::"
    b_new = R.find_body(srv, S_ + r"new\(_1: T\) -> Result<HostFilterLayer, AuthorityError>")
    b_dis = R.find_body(srv, S_ + r"disable\(\) -> HostFilterLayer")
    b_lay = R.find_body(srv, S_ + r"layer\(_1: &HostFilterLayer, _2: S\) -> HostFilter<S>")
    parsed_ok = z3.Bool("allow_list.parses")

    def m_collect(ex, st, callee, args, dty, site):
        return Fork([(parsed_ok, lambda ex_, st_, tr: ex_.mk_variant("Result", 0, "Ok", Opaque(z3.Const("the_parsed_allow_list", OBJ)))),
                     (z3.Not(parsed_ok), lambda ex_, st_, tr: ex_.mk_variant("Result", 1, "Err", Opaque(z3.Const("authority_error", OBJ))))])
    models = [(r"as Iterator>::collect::<Result<Vec<", m_collect),
              (r"^<WhitelistedHosts as From<.*>>::from$", lambda ex, st, c, a, d, s_: Opaque(z3.Const("hosts_from:" + str(to_term(a[0])), OBJ)))] + list(SQ.TRY_MODELS) + MM.ARC_MODELS
    viol, reach, bad = [], {"enabled": [], "bad-list": [], "disabled": [], "layer": []}, []
    ctx = _ctx(srv)
    ctx.models = [(re.compile(rx), f) for rx, f in models] + ctx.models
    ctx.inline = []
    ex = Executor(ctx)
    for p in ex.run(b_new):
        if p.kind != "return":
            bad.append((p.kind, p.detail))
            continue
        d = z3.simplify(ex.discr_of(p.ret))
        pc = p.cond()
        if not z3.is_bv_value(d):
            bad.append(("unsupported", "result discriminant"))
            continue
        if d.as_long() == 1:
            reach["bad-list"].append(z3.And(pc, z3.Not(parsed_ok)))
            viol.append(z3.And(pc, parsed_ok))
            continue
        reach["enabled"].append(z3.And(pc, parsed_ok))
        lay = ex.read_node(p.ret.kids[("Ok", 0)])
        opt = ex.read_node(lay.kids[0]) if isinstance(lay, Node) and 0 in lay.kids else None
        od = z3.simplify(ex.discr_of(opt)) if isinstance(opt, Node) else None
        good = od is not None and z3.is_bv_value(od) and od.as_long() == 1 and "hosts_from:the_parsed_allow_list" in _deep(ex, opt)
        viol.append(z3.Or(z3.And(pc, z3.Not(parsed_ok)), z3.And(pc, z3.BoolVal(not good))))
    for p in ex.run(b_dis):
        if p.kind != "return":
            bad.append((p.kind, p.detail))
            continue
        reach["disabled"].append(p.cond())
        opt = ex.read_node(p.ret.kids[0]) if isinstance(p.ret, Node) and 0 in p.ret.kids else None
        od = z3.simplify(ex.discr_of(opt)) if isinstance(opt, Node) else None
        if not (od is not None and z3.is_bv_value(od) and od.as_long() == 0):
            viol.append(p.cond())
    fi_f = R.field_index("HostFilter", "filter")
    for p in ex.run(b_lay):
        if p.kind != "return":
            bad.append((p.kind, p.detail))
            continue
        reach["layer"].append(p.cond())
        f = p.ret.kids.get(fi_f) if isinstance(p.ret, Node) else None
        if f is None or "arg1.*.0" not in _deep(ex, f):
            viol.append(p.cond())
    reach_l = R.live_reach(viol, reach, bad)
    if bad or not all(reach_l):
        return [R.Result(engine="mirsym", name="kernel:HostFilterLayer::new:enabled", kind="kernel", status="unsupported" if bad else "vacuous",
                         detail=str(bad[:1] or {k: len(v) for k, v in reach.items()})[:300], bodies=[b_new.name, b_dis.name, b_lay.name])]
    return [R.decide("kernel:HostFilterLayer::new:enabled", "kernel", z3.Or(*viol) if viol else z3.BoolVal(False), [z3.Or(*v) for v in reach_l], bodies=[b_new.name, b_dis.name, b_lay.name],
                     desc="HostFilterLayer::new(list) returns a layer with a filter built from exactly that list whenever the list parses - for an empty list too (it then admits nothing) - "
                          "and an error otherwise; only disable() builds a layer without a filter; layer() gives the service the layer's own filter",
                     bounds="every path of new / disable / layer; the list parses or not", keydetail="layer-enabled",
                     replay=dict(scenario="c14_authority_sources", vars={}, fixed={}, region=z3.BoolVal(True)))]


def _deep(ex, v, depth=0):
    v = ex.read_node(v) if isinstance(v, Node) else v
    if isinstance(v, Ptr):
        return "ptr(" + _deep(ex, v.node, depth + 1) + ")"
    if isinstance(v, Node):
        if not v.kids:
            return v.name
        return v.name + "{" + ",".join(_deep(ex, k, depth + 1) for kk, k in v.kids.items() if depth < 8 and not (isinstance(kk, tuple) and kk[0] == "name")) + "}"
    return re.sub(r"\s+", " ", str(to_term(v)))
