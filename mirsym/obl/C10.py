"""C10 (reduced claim) - graceful stop: the token discipline that makes `stopped` wait for every connection and every started call.

What is decided is the sequential part of the mechanism, from the MIR of jsonrpsee-server:
 * Server::start_inner returns only after the accept loop ended, its own completion token was dropped and the token channel reported
   that every connection task dropped its clone; every connection task gets a clone;
 * a connection task drops its completion token only after its hyper connection future completed (after graceful_shutdown() when stopping);
 * a WebSocket per-message task holds its RpcService clone (the pending-call token) until the answer has been handed to the sink;
 * ws::background_task drops its own RpcService clone and then always awaits graceful_shutdown, which - when the server is stopping - waits
   for the pending-call tokens (or the peer's disconnect) before it tells the writer task to finish, and then waits for the writer.
That tokio delivers these signals, that hyper's graceful shutdown finishes in-flight HTTP requests, and every relative timing are outside.
"""
import re
import z3
from .. import run as R, models as M, mapmodels as MM, prov as P, seqmodels as SQ
from ..sym import Ctx, Executor, Node, Ptr, Opaque, OBJ, to_term, Fork, Unsupported, Event

VALIDATION = {}


def _poll_model(table):
    """table: [(substring of the polled future's type, name)] -> model returning Ready(value) / Pending by a Boolean `<name>.ready`; value builder optional"""
    def m_poll(ex, st, callee, args, dty, site):
        for sub, name, val in table:
            if sub in callee:
                flag = z3.Bool(name + ".ready")

                def rd(ex_, st_, tr, val=val):
                    return ex_.mk_variant("Poll", 0, "Ready", val(ex_) if val else MM.UNIT)
                return Fork([(flag, rd), (z3.Not(flag), lambda ex_, st_, tr: ex_.mk_variant("Poll", 1, "Pending"))])
        return NotImplemented
    return (r"as (futures_util::|std::future::)?Future>::poll$", m_poll)


def _idx(seq, pred):
    return [i for i, e in enumerate(seq) if pred(e)]


def _graceful_shutdown(srv, collect=None):
    b = R.find_body(srv, r"^fn graceful_shutdown::\{closure#0\}\(_1: Pin<&mut \{async fn body of graceful_shutdown<S>\(\)\}>")
    cap = P.capture_index(b, "result")
    shutdown = R.source_tables()["enums"]["Shutdown"]
    r_discr = z3.BitVec(f"arg1.0.*.{cap}.discr", 64)
    s_discr = z3.BitVec(f"arg1.0.*.{cap}.Ok:0.discr", 64)
    stopping = z3.And(r_discr == 0, s_discr == shutdown.index("Stopped"))
    def sel_out(ex_):
        # tokio::select! output: one of the three branches completed (Disabled cannot happen: no branch has a precondition)
        o = Node(ex_.ctx.fresh_name("select_out"), "Out")
        d = Node(o.name + ".discr", "isize")
        d.val = z3.BitVec("select.branch", 64)
        o.kids["discr"] = d
        for vn in ("_0", "_1", "_2"):
            k = Node(f"{o.name}.{vn}:0", None)
            if vn == "_1":
                r = Node(k.name + ".res", "Result")
                rd = Node(r.name + ".discr", "isize")
                rd.val = z3.BitVec("disconnect.result", 64)
                r.kids["discr"] = rd
                ex_.write(k, r)
            else:
                k.val = Opaque(z3.Const("unit", OBJ))
            o.kids[(vn, 0)] = k
        return o
    ex, ctx, paths = P.explore(srv, b, extra_models=[_poll_model([("PollFn<", "select", sel_out), ("JoinHandle<", "writer_join", None)])] + list(SQ.TRY_MODELS) + list(M.TRACING_MODELS), max_paths=4000)
    ctx_pc = [z3.ULE(z3.BitVec("select.branch", 64), 2), z3.ULE(z3.BitVec("disconnect.result", 64), 1)]
    paths = [p for p in paths if ex.feasible(list(p.pc) + ctx_pc)]
    bad = [(p.kind, p.detail) for p in paths if p.kind in ("unsupported", "limit", "unwound", "panic")]
    viol, reach = [], {"waited": [], "not-stopping": [], "writer-awaited": []}
    for p in paths:
        if p.kind != "return":
            continue
        pc = p.cond()
        seq = [e for e in p.events if e.kind == "call"]
        sends = _idx(seq, lambda e: re.search(r"oneshot::Sender::<\(\)>::send$", e.callee))
        waits = _idx(seq, lambda e: "PollFn<" in e.callee and e.callee.endswith("::poll"))
        joins = _idx(seq, lambda e: "JoinHandle<" in e.callee and e.callee.endswith("::poll"))
        state = getattr(p, "state", None) or 0
        if sends:
            waited = bool(waits) and waits[-1] < sends[0] and not ex.feasible(list(p.pc) + [z3.Not(z3.Bool("select.ready"))])
            if waited:
                reach["waited"].append(pc)
                if collect is not None and state == 0:
                    # (C11; judged on the paths from the start of the function, where the test of `result` is part of the path) a wait for the peer's running calls when the server is NOT stopping: the connection's slot stays taken for as long as they run
                    collect.setdefault("waited_not_stopping", []).append(z3.And(pc, z3.Not(stopping)))
                    collect.setdefault("reach", []).append(pc)
            elif state == 0:
                # the writer is told to finish without waiting: only allowed when the server is not stopping
                reach["not-stopping"].append(z3.And(pc, z3.Not(stopping)))
                viol.append(z3.And(pc, stopping))
            else:
                viol.append(pc)
            if not joins or joins[0] < sends[0]:
                viol.append(pc)                   # the writer task is awaited after it was told to finish
            if len(sends) != 1:
                viol.append(pc)
        done = not isinstance(p.ret, Node) or True
        if joins and not ex.feasible(list(p.pc) + [z3.Not(z3.Bool("writer_join.ready"))]):
            reach["writer-awaited"].append(pc)
    # completion (Poll::Ready) only on paths that awaited the writer: the return value's discriminant
    for p in paths:
        if p.kind != "return" or not isinstance(p.ret, Node):
            continue
        d = z3.simplify(ex.discr_of(p.ret))
        if z3.is_bv_value(d) and d.as_long() == 0:
            seq = [e for e in p.events if e.kind == "call"]
            if not _idx(seq, lambda e: "JoinHandle<" in e.callee and e.callee.endswith("::poll")):
                viol.append(p.cond())
    return b, viol, reach, bad


def _background_task(srv):
    """own RpcService clone dropped, then graceful_shutdown awaited, on every way out of the receive loop"""
    b = R.find_body(srv, r"^fn background_task::\{closure#0\}\(_1: Pin<&mut \{async fn body of background_task<S>\(\)\}>")
    recvs = R.source_tables()["enums"].get("Receive")

    def m_poll(ex, st, callee, args, dty, site):
        if "graceful_shutdown" in callee:
            flag = z3.Bool("graceful_shutdown.ready")
            return Fork([(flag, lambda ex_, st_, tr: ex_.mk_variant("Poll", 0, "Ready", MM.UNIT)), (z3.Not(flag), lambda ex_, st_, tr: ex_.mk_variant("Poll", 1, "Pending"))])
        if re.search(r"async fn body of try_recv<", callee):
            r = Node(ex.ctx.fresh_name("received"), "Receive")
            d = Node(r.name + ".discr", "isize")
            d.val = z3.BitVec(ex.ctx.fresh_name("try_recv.outcome"), 64)
            st["pc"].append(z3.ULE(d.val, len(recvs) - 1))
            r.kids["discr"] = d
            for vn in recvs:
                for j in range(2):
                    kk = Node(f"{r.name}.{vn}:{j}", None)
                    kk.val = Opaque(z3.Const(f"{r.name}.{vn}.{j}", OBJ))
                    r.kids[(vn, j)] = kk
            return ex.mk_variant("Poll", 0, "Ready", r)
        return NotImplemented
    ex, ctx, paths = P.explore(srv, b, extra_models=[(r"as (futures_util::|std::future::)?Future>::poll$", m_poll)] + list(SQ.TRY_MODELS) + list(M.TRACING_MODELS), max_paths=30000, max_visits=3)
    bad = [(p.kind, p.detail) for p in paths if p.kind in ("unsupported", "limit")]
    viol, reach = [], {"shutdown-awaited": [], "finished": []}
    for p in paths:
        if p.kind != "return":
            continue
        pc = p.cond()
        seq = [e for e in p.events if e.kind in ("call", "drop")]
        gs_call = _idx(seq, lambda e: e.kind == "call" and re.search(r"^graceful_shutdown::<", e.callee))
        gs_poll = _idx(seq, lambda e: e.kind == "call" and "graceful_shutdown" in e.callee and e.callee.endswith("::poll"))
        svc_drop = _idx(seq, lambda e: e.kind == "call" and re.search(r"mem::drop::<Arc<S>>$", e.callee))
        if gs_call:
            reach["shutdown-awaited"].append(pc)
            if not svc_drop or svc_drop[-1] > gs_call[0]:
                viol.append(pc)                  # the task's own pending-call token must be gone before it waits for the others
            if not gs_poll:
                viol.append(pc)
        d = z3.simplify(ex.discr_of(p.ret)) if isinstance(p.ret, Node) else None
        if d is not None and z3.is_bv_value(d) and d.as_long() == 0:
            reach["finished"].append(pc)
            if not gs_poll or ex.feasible(list(p.pc) + [z3.Not(z3.Bool("graceful_shutdown.ready"))]):
                viol.append(pc)                  # the connection task never finishes without having awaited its graceful shutdown
    return b, viol, reach, bad


def _message_task(srv):
    """per-message task: the answer is handed to the sink before the task's RpcService clone (pending-call token) is released"""
    cands = [b for b in R.find_body(srv, r"^fn background_task::\{closure#0\}::\{closure#\d+\}\(_1: Pin<&mut \{async block@server/src/transport/ws\.rs", all_=True) if P.syntactic_sites(b, r"^handle_rpc_call::<")]
    if len(cands) != 1:
        return None, [z3.BoolVal(True)], {"x": []}, [("site-missing", f"{len(cands)} bodies")]
    b = cands[0]
    cap = P.capture_index(b, "rpc_service")
    kind = z3.Bool("response.is_sendable")
    models = [_poll_model([("handle_rpc_call", "call", lambda ex_: Opaque(z3.Const("the_response", OBJ))), ("MethodSink::send()", "sink_send", lambda ex_: ex_.mk_variant("Result", 0, "Ok", MM.UNIT)),
                           ("MethodSink::send_error()", "sink_send_error", lambda ex_: ex_.mk_variant("Result", 0, "Ok", MM.UNIT))]),
              (r"MethodResponse::is_method_call$", lambda ex, st, c, a, d, s: kind), (r"MethodResponse::is_batch$", lambda ex, st, c, a, d, s: z3.BoolVal(False)),
              (r"^<\[u8\] as Index", None)]
    models = [m for m in models if m[1] is not None]
    from .C01 import _ws_message_block  # noqa: F401  (the same block's classification is decided there)
    found = z3.Bool("nonws.found")
    fb = z3.BitVec("nonws.byte", 8)

    def m_find(ex, st, callee, args, dty, site):
        o = Node(ex.ctx.fresh_name("found"), "Option<(usize,&u8)>")
        d = Node(o.name + ".discr", "isize")
        d.val = z3.If(found, z3.BitVecVal(1, 64), z3.BitVecVal(0, 64))
        o.kids["discr"] = d
        t = Node(o.name + ".Some:0", None)
        a_, b_ = Node(t.name + ".0", "usize"), Node(t.name + ".1", None)
        a_.val = z3.BitVec("nonws.idx", 64)
        byte_n = Node(t.name + ".byte", "u8")
        byte_n.val = fb
        b_.val = Ptr(byte_n)
        t.kids[0], t.kids[1] = a_, b_
        o.kids[("Some", 0)] = t
        return o
    extra = [(r"as Iterator>::take$", M.m_identity), (r"as Iterator>::find::<", m_find), (r"as Iterator>::enumerate$", M.m_identity), (r"^core::slice::<impl \[u8\]>::iter$", M.m_identity)]
    ex, ctx, paths = P.explore(srv, b, extra_models=models + extra + list(SQ.TRY_MODELS) + list(M.TRACING_MODELS), max_paths=20000)
    bad = [(p.kind, p.detail) for p in paths if p.kind in ("unsupported", "limit", "unwound")]
    viol, reach = [], {"answered": [], "ended": []}

    def is_token_drop(e):
        return e.kind == "drop" and isinstance(e.args[0], Node) and re.search(rf"\.\*\.{cap}($|[^\d])", e.args[0].name or "") is not None
    for p in paths:
        if p.kind != "return":
            continue
        pc = p.cond()
        seq = [e for e in p.events if e.kind in ("call", "drop")]
        tok = _idx(seq, is_token_drop)
        sends = _idx(seq, lambda e: e.kind == "call" and e.callee.endswith("::poll") and "MethodSink::send()" in e.callee)
        calls = _idx(seq, lambda e: e.kind == "call" and e.callee.endswith("::poll") and "handle_rpc_call" in e.callee)
        d = z3.simplify(ex.discr_of(p.ret)) if isinstance(p.ret, Node) else None
        finished = d is not None and z3.is_bv_value(d) and d.as_long() == 0
        if finished:
            reach["ended"].append(pc)
            if len(tok) != 1:
                viol.append(pc)                  # the token is released exactly when the task ends
        elif tok:
            viol.append(pc)                      # ... and not while it is still waiting for the call or the sink
        if sends and not ex.feasible(list(p.pc) + [z3.Not(z3.Bool("sink_send.ready"))]):
            reach["answered"].append(pc)
            if tok and tok[0] < sends[-1]:
                viol.append(pc)
        if tok and calls and tok[0] < calls[-1]:
            viol.append(pc)
    return b, viol, reach, bad


def _connection_task(srv):
    """process_connection's task: the completion token is dropped only after the hyper connection future completed; when stopping, graceful_shutdown()
    is requested and the connection is still awaited"""
    b = R.find_body(srv, r"^fn process_connection::\{closure#0\}\(_1: Pin<&mut \{async block@server/src/server\.rs")
    cap = P.capture_index(b, "drop_on_completion")
    which = z3.Bool("select.connection_finished_first")

    def sel_val(ex_):
        e = Node(ex_.ctx.fresh_name("either"), "Either")
        d = Node(e.name + ".discr", "isize")
        d.val = z3.If(which, z3.BitVecVal(0, 64), z3.BitVecVal(1, 64))
        e.kids["discr"] = d
        for vn in ("Left", "Right"):
            k = Node(f"{e.name}.{vn}:0", None)
            k.val = Opaque(z3.Const(f"select_{vn}", OBJ))
            e.kids[(vn, 0)] = k
        return e
    models = [_poll_model([("Select<", "select", sel_val), ("UpgradeableConnection<", "conn_await", lambda ex_: Opaque(z3.Const("conn_result", OBJ))),
                           ("Pin<&mut", "conn_await", lambda ex_: Opaque(z3.Const("conn_result", OBJ)))])]
    ex, ctx, paths = P.explore(srv, b, extra_models=models + list(SQ.TRY_MODELS) + list(M.TRACING_MODELS), max_paths=8000)
    bad = [(p.kind, p.detail) for p in paths if p.kind in ("unsupported", "limit", "unwound")]
    viol, reach = [], {"token-dropped": [], "stopping": []}

    def is_token_drop(e):
        if e.kind == "call" and re.search(r"mem::drop::<tokio::sync::mpsc::Sender<\(\)>>$", e.callee):
            return True
        return e.kind == "drop" and isinstance(e.args[0], Node) and re.search(rf"\.\*\.{cap}($|[^\d])", e.args[0].name or "") is not None
    for p in paths:
        if p.kind != "return":
            continue
        pc = p.cond()
        seq = [e for e in p.events if e.kind in ("call", "drop")]
        tok = _idx(seq, is_token_drop)
        sel = _idx(seq, lambda e: e.kind == "call" and e.callee.endswith("::poll") and "Select<" in e.callee)
        gs = _idx(seq, lambda e: e.kind == "call" and re.search(r"::graceful_shutdown$", e.callee))
        aw = _idx(seq, lambda e: e.kind == "call" and e.callee.endswith("::poll") and "Select<" not in e.callee)
        # what is awaited after the stop is the connection itself - not something wrapped around it that may give up first (a timeout, a select with a timer)
        wrapped = [seq[i].callee for i in aw if not re.match(r"^<(Pin<&mut )*(hyper_util::server::conn::auto::)?UpgradeableConnection<", seq[i].callee)]
        if wrapped:
            viol.append(pc)
        if gs:
            reach["stopping"].append(pc)
        if tok:
            reach["token-dropped"].append(pc)
            state = getattr(p, "state", None) or 0
            # either the connection finished first in the select, or graceful_shutdown was requested and the connection awaited to completion
            direct = bool(sel) and sel[-1] < tok[0] and not ex.feasible(list(p.pc) + [z3.Not(z3.And(z3.Bool("select.ready"), which))])
            after_gs = bool(aw) and aw[-1] < tok[0] and not ex.feasible(list(p.pc) + [z3.Not(z3.Bool("conn_await.ready"))]) and (bool(gs) or state != 0)
            if not (direct or after_gs):
                viol.append(pc)
        if gs and sel and not (sel[-1] < gs[0]):
            viol.append(pc)
    return b, viol, reach, bad


def _serve_with_graceful_shutdown(srv):
    """utils::serve_with_graceful_shutdown (the low-level API's connection driver): the function finishes only with the connection's own completion; when the stop future
    completes first, graceful_shutdown() is requested once and the connection is still driven to its end; no future is polled again after it completed"""
    b = R.find_body(srv, r"^fn serve_with_graceful_shutdown::\{closure#0\}\(_1: Pin<&mut \{async fn body of serve_with_graceful_shutdown<")
    which = z3.Bool("select.connection_first")

    def sel_val(ex_):
        e = Node(ex_.ctx.fresh_name("either"), "Either")
        d = Node(e.name + ".discr", "isize")
        d.val = z3.If(which, z3.BitVecVal(0, 64), z3.BitVecVal(1, 64))
        e.kids["discr"] = d
        for vn in ("Left", "Right"):
            k = Node(f"{e.name}.{vn}:0", None)
            t = Node(k.name + ".t", "tuple")
            for j in range(2):
                kk = Node(f"{t.name}.{j}", None)
                kk.val = Opaque(z3.Const(f"select_{vn}.{j}", OBJ))
                t.kids[j] = kk
            ex_.write(k, t)
            e.kids[(vn, 0)] = k
        return e
    stop_polls = []

    def m_other_poll(ex, st, callee, args, dty, site):
        # any other future polled directly by this function (a rewritten body may poll the stop future or the connection by hand): its completions are counted
        if "impl Future<Output = ()>" in callee or "PollFn<" in callee or "Fuse<" in callee:
            n = len([e for e in st["events"] if e.kind == "c10" and e.callee == "stop_ready"])
            flag = z3.Bool(ex.ctx.fresh_name("stop_poll.ready"))

            def rd(ex_, st_, tr):
                st_["events"].append(Event("c10", "stop_ready", [], [], None, None, "", ""))
                return ex_.mk_variant("Poll", 0, "Ready", MM.UNIT)
            if n >= 1:
                st["events"].append(Event("c10", "stop_polled_after_completion", [], [], None, None, "", ""))
            return Fork([(flag, rd), (z3.Not(flag), lambda ex_, st_, tr: ex_.mk_variant("Poll", 1, "Pending"))])
        return NotImplemented
    def m_poll_fn_new(ex, st, callee, args, dty, site):
        n = Node(ex.ctx.fresh_name("pollfn"), "PollFn")
        k = Node(n.name + ".0", None)
        if isinstance(args[0], Node):
            ex.write(k, args[0])
        else:
            k.val = args[0]
        n.kids[0] = k
        return n

    def m_rng(ex, st, callee, args, dty, site):
        v = z3.BitVec(ex.ctx.fresh_name("select.start"), 32)
        if args and isinstance(args[0], z3.BitVecRef):
            st["pc"].append(z3.ULT(v, args[0]))
        return v

    def m_pollfn_poll(ex, st, callee, args, dty, site):
        # a tokio::select! written into this function: its closure is executed as it stands
        if "PollFn<" not in callee:
            return NotImplemented
        pin = args[0]
        try:
            f = MM.value_of(ex, ex.read_node(ex.child(pin, 0, None)) if isinstance(pin, Node) else pin)
        except Exception:
            f = None
        if isinstance(f, Node) and 0 in f.kids:
            f = ex.read_node(f.kids[0])
        cb = ex.closure_body(f, near=b.name) if f is not None else None
        if cb is None:
            return NotImplemented
        from ..sym import Inline
        first = Ptr(f) if (cb.params[0][1] or "").strip().startswith("&") else f
        return Inline(cb, [first, args[1]], callee)
    models = [(r"^std::future::poll_fn::<", m_poll_fn_new), (r"as (futures_util::|std::future::)?Future>::poll$", m_pollfn_poll),
              _poll_model([("Select<", "select", sel_val), ("UpgradeableConnection<", "conn_await", lambda ex_: Opaque(z3.Const("conn_result", OBJ)))]),
              (r"as (futures_util::|std::future::)?Future>::poll$", m_other_poll),
              (r"^tokio::macros::support::thread_rng_n$", m_rng),
              (r"poll_budget_available$", lambda ex, st, c, a, d, s_: ex.mk_variant("Poll", 0, "Ready", MM.UNIT))]
    from .. import listmodels as LM
    ctx = P.make_ctx(srv, extra_models=models + LM.LIST_MODELS + list(SQ.TRY_MODELS) + list(M.TRACING_MODELS) + list(M.INT_MODELS), max_paths=8000, max_visits=4)
    ctx.visit_overrides = [(r"tokio-[\d.]+/src/macros/select\.rs", 6)]
    ctx.consts = dict(ctx.consts, **R.mir_consts("server"))
    ctx.inline = []
    ex = Executor(ctx)
    paths = ex.run_coroutine(b)
    bad = [(p.kind, p.detail) for p in paths if p.kind in ("unsupported", "limit", "unwound", "panic")]
    viol, reach = [], {"connection-first": [], "stopped-first": []}
    for p in paths:
        if p.kind != "return":
            continue
        pc = p.cond()
        seq = [e for e in p.events if e.kind in ("call", "c10")]
        sel = _idx(seq, lambda e: e.kind == "call" and e.callee.endswith("::poll") and "Select<" in e.callee)
        gs = _idx(seq, lambda e: e.kind == "call" and re.search(r"::graceful_shutdown$", e.callee))
        aw = _idx(seq, lambda e: e.kind == "call" and e.callee.endswith("::poll") and "UpgradeableConnection<" in e.callee and "Select<" not in e.callee)
        again = _idx(seq, lambda e: e.kind == "c10" and e.callee == "stop_polled_after_completion")
        if again:
            viol.append(pc)                    # a completed `async fn` future polled again panics: the connection task dies with calls in flight
        d = z3.simplify(ex.discr_of(p.ret)) if isinstance(p.ret, Node) else None
        finished = d is not None and z3.is_bv_value(d) and d.as_long() == 0
        state = getattr(p, "state", None) or 0
        if len(gs) > 1:
            viol.append(pc)
        if gs and state == 0:
            # requested only after the race said: the stop future completed first
            if not sel or sel[-1] > gs[0] or ex.feasible(list(p.pc) + [z3.Not(z3.And(z3.Bool("select.ready"), z3.Not(which)))]):
                viol.append(pc)
        if finished:
            direct = bool(sel) and not aw and not ex.feasible(list(p.pc) + [z3.Not(z3.And(z3.Bool("select.ready"), which))])
            after = bool(aw) and not ex.feasible(list(p.pc) + [z3.Not(z3.Bool("conn_await.ready"))]) and (bool(gs) or state != 0)
            if direct:
                reach["connection-first"].append(pc)
            elif after:
                reach["stopped-first"].append(pc)
            else:
                viol.append(pc)                # finished although the connection did not
    # (a select! written into the body brings its own `all branches disabled` panic arm, which no branch without a precondition can reach)
    bad = [x for x in bad if not (x[0] == "panic" and "panic_fmt" in str(x[1]))]
    if [x for x in bad if x[0] != "unwound"] == [] and R.violation_reachable(viol):
        # a rewritten body that loops: the paths cut at the unrolling bound decide nothing, the completed ones that violate do
        bad = []
    return b, viol, reach, bad


def _accept_paths(srv):
    """explores Server::start_inner (two accept-loop iterations from every resume point); returns body, executor, paths, the 'token channel closed' symbol"""
    b = R.find_body(srv, r"^fn server::<impl at server/src/server\.rs:[\d: ]+>::start_inner::\{closure#0\}\(_1: Pin<&mut \{async fn body of")
    acc = R.source_tables()["enums"]["AcceptConnection"]
    outcome = z3.BitVec("accept.outcome", 64)
    closed = z3.Bool("token_channel.closed")

    def acc_val(ex_):
        r = Node(ex_.ctx.fresh_name("accepted"), "AcceptConnection")
        d = Node(r.name + ".discr", "isize")
        d.val = z3.BitVec(ex_.ctx.fresh_name("accept.outcome"), 64)
        r.kids["discr"] = d
        return r

    def m_poll(ex, st, callee, args, dty, site):
        if "try_accept_conn" in callee:
            r = acc_val(ex)
            st["pc"].append(z3.ULE(ex.read_node(r.kids["discr"]), len(acc) - 1))
            return ex.mk_variant("Poll", 0, "Ready", r)
        if "Recv<" in callee or "recv()" in callee:
            flag = z3.Bool(ex.ctx.fresh_name("recv.ready"))

            def rd(ex_, st_, tr):
                o = Node(ex_.ctx.fresh_name("recv_item"), "Option<()>")
                d = Node(o.name + ".discr", "isize")
                d.val = z3.If(closed, z3.BitVecVal(0, 64), z3.BitVecVal(1, 64))
                o.kids["discr"] = d
                return ex_.mk_variant("Poll", 0, "Ready", o)
            return Fork([(flag, rd), (z3.Not(flag), lambda ex_, st_, tr: ex_.mk_variant("Poll", 1, "Pending"))])
        return NotImplemented
    ex, ctx, paths = P.explore(srv, b, extra_models=[(r"as (futures_util::|std::future::)?Future>::poll$", m_poll)] + list(SQ.TRY_MODELS) + list(M.TRACING_MODELS) + list(M.INT_MODELS), max_paths=20000, max_visits=3)
    return b, ex, paths, closed


def _accept_loop(srv):
    """Server::start_inner: every connection task gets a clone of the completion token; the function returns only after its own token was dropped and
    the token channel reported that all clones are gone"""
    b, ex, paths, closed = _accept_paths(srv)
    bad = [(p.kind, p.detail) for p in paths if p.kind in ("unsupported", "limit")]
    viol, reach = [], {"connection": [], "finished": []}
    fi_tok = R.field_index("ProcessConnection", "drop_on_completion")
    for p in paths:
        if p.kind != "return":
            continue
        pc = p.cond()
        seq = [e for e in p.events if e.kind in ("call", "drop")]
        pcs = _idx(seq, lambda e: e.kind == "call" and re.search(r"^process_connection::<", e.callee))
        for i in pcs:
            reach["connection"].append(pc)
            prm = MM.value_of(ex, seq[i].args[0])
            tokv = ex.read_node(prm.kids[fi_tok]) if isinstance(prm, Node) and fi_tok in prm.kids else None
            txt = str(to_term(MM.value_of(ex, tokv))) if tokv is not None else ""
            if "Clone>::clone" not in txt and "drop_on_completion" not in txt and "mpsc::Sender" not in txt:
                clones = [e for e in seq[:i] if e.kind == "call" and re.search(r"<tokio::sync::mpsc::Sender<\(\)> as Clone>::clone$", e.callee)]
                if not clones:
                    viol.append(pc)
        d = z3.simplify(ex.discr_of(p.ret)) if isinstance(p.ret, Node) else None
        if d is not None and z3.is_bv_value(d) and d.as_long() == 0:
            reach["finished"].append(pc)
            own = _idx(seq, lambda e: e.kind == "call" and re.search(r"mem::drop::<tokio::sync::mpsc::Sender<\(\)>>$", e.callee))
            rec = _idx(seq, lambda e: e.kind == "call" and e.callee.endswith("::poll") and ("Recv<" in e.callee or "recv()" in e.callee))
            state = getattr(p, "state", None) or 0
            if not rec or ex.feasible(list(p.pc) + [z3.Not(closed)]):
                viol.append(pc)                  # finished although the token channel did not report 'all clones gone'
            if state == 0 and rec and (not own or own[0] > rec[0]):
                viol.append(pc)
    return b, viol, reach, bad


# ------------------------------------------------------------------------------------------------ the writer task
def _fut(name, kind, **kids):
    n = Node(name, "future")
    n.variant = ("fut", kind)
    for k, v in kids.items():
        c = Node(f"{name}.{k}", None)
        if isinstance(v, Node):
            c.val, c.kids, c.variant, c.ty = v.val, v.kids, v.variant, v.ty
            c.name = v.name
        else:
            c.val = v
        n.kids[k] = c
    return n


def _is_fut(n):
    return isinstance(n, Node) and isinstance(n.variant, tuple) and n.variant and n.variant[0] == "fut"


def _writer_task(srv):
    """ws::send_task: whenever an answer is waiting in the connection queue it is written before the stop signal is honoured, and what is written is
    exactly the item taken from the queue (one write per item, before the next item is taken)"""
    b = R.find_body(srv, r"^fn send_task::\{closure#0\}\(_1: Pin<&mut \{async fn body of (transport::)?ws::send_task\(\)\}>")

    def npolls(st):
        return len([e for e in st["events"] if e.kind == "c10" and e.callee.startswith("poll:")])

    def leaf_of(callee):
        if re.search(r"ReceiverStream<Box<JsonRawValue>>", callee):
            return "queue"
        if "IntervalStream" in callee:
            return "ping"
        if "oneshot::Receiver<()>" in callee:
            return "stop"
        return None

    def m_next(ex, st, callee, args, dty, site):
        lf = leaf_of(callee)
        return _fut("fut:next:" + lf, "leaf", leaf=Opaque(z3.Const("leaf:" + lf, OBJ))) if lf else NotImplemented

    def m_pin_stop(ex, st, callee, args, dty, site):
        return _fut("fut:stop", "leaf", leaf=Opaque(z3.Const("leaf:stop", OBJ)))

    def m_select(ex, st, callee, args, dty, site):
        a, b2 = MM.value_of(ex, args[0]), MM.value_of(ex, args[1])
        if not (_is_fut(a) and _is_fut(b2)):
            raise Unsupported(f"future::select over futures the model did not create: {a!r} / {b2!r}"[:300])
        return _fut(f"fut:select({a.name},{b2.name})", "select", a=a, b=b2)

    def either(ex, idx, first, second):
        tup = Node(ex.ctx.fresh_name("pair"), "(A, B)")
        for i, v in enumerate((first, second)):
            k = Node(f"{tup.name}.{i}", None)
            if isinstance(v, Node):
                ex.write(k, v)
            else:
                k.val = v
            tup.kids[i] = k
        return ex.mk_variant("Either", idx, "Left" if idx == 0 else "Right", tup)

    def leaf_out(ex, lf, k):
        if lf == "queue":
            some = z3.Bool(f"queue.some@{k}")
            o = Node(ex.ctx.fresh_name("item"), "Option<Box<RawValue>>")
            d = Node(o.name + ".discr", "isize")
            d.val = z3.If(some, z3.BitVecVal(1, 64), z3.BitVecVal(0, 64))
            o.kids["discr"] = d
            p = Node(o.name + ".Some:0", None)
            p.val = Opaque(z3.Const(f"queued_item@{k}", OBJ))
            o.kids[("Some", 0)] = p
            return o
        if lf == "ping":
            return ex.mk_variant("Option", 1, "Some", Opaque(z3.Const("instant", OBJ)))
        return ex.mk_variant("Result", 0, "Ok", MM.UNIT)

    def outcomes(ex, fut, k):
        """[(cond, builder(ex) -> output value | None for Pending)] of polling this future once"""
        if fut.variant[1] == "leaf":
            lf = str(fut.kids["leaf"].val.term).split(":")[-1]
            r = z3.Bool(f"{lf}.ready@{k}")
            return [(r, lambda ex_, lf=lf: leaf_out(ex_, lf, k)), (z3.Not(r), None)]
        a, b2 = fut.kids["a"], fut.kids["b"]
        out = []
        for ca, ba in outcomes(ex, a, k):
            if ba is not None:
                out.append((ca, lambda ex_, ba=ba: either(ex_, 0, ba(ex_), b2)))
            else:
                for cb, bb in outcomes(ex, b2, k):
                    if bb is not None:
                        out.append((z3.And(ca, cb), lambda ex_, bb=bb: either(ex_, 1, bb(ex_), a)))
                    else:
                        out.append((z3.And(ca, cb), None))
        return out

    def m_poll(ex, st, callee, args, dty, site):
        pin = args[0]
        tgt = None
        try:
            inner = ex.read_node(ex.child(pin, 0, None)) if isinstance(pin, Node) else pin
            tgt = MM.value_of(ex, inner)
        except Exception:
            tgt = None
        k = npolls(st)
        if _is_fut(tgt):
            st["events"].append(Event("c10", f"poll:{k}:{tgt.name}", [], [], None, None, "", ""))
            alts = []
            for cond, bld in outcomes(ex, tgt, k):
                if bld is None:
                    alts.append((cond, lambda ex_, st_, tr: ex_.mk_variant("Poll", 1, "Pending")))
                else:
                    alts.append((cond, lambda ex_, st_, tr, bld=bld: ex_.mk_variant("Poll", 0, "Ready", bld(ex_))))
            return Fork(alts)
        if re.match(r"^<(futures_util::future::)?Select<", callee):
            raise Unsupported(f"poll of a Select the model did not build: {tgt!r}"[:300])
        lf = leaf_of(callee) if re.match(r"^<(&mut )?(futures_util::stream::)?(Next<|Pin<&mut tokio::sync::oneshot::Receiver<\(\)>>|tokio::sync::oneshot::Receiver<\(\)>)", callee) else None
        if lf:
            st["events"].append(Event("c10", f"poll:{k}:leaf:{lf}", [], [], None, None, "", ""))
            r = z3.Bool(f"{lf}.ready@{k}")
            return Fork([(r, lambda ex_, st_, tr: ex_.mk_variant("Poll", 0, "Ready", leaf_out(ex_, lf, k))), (z3.Not(r), lambda ex_, st_, tr: ex_.mk_variant("Poll", 1, "Pending"))])
        if "PollFn<" in callee:
            f = tgt
            if isinstance(f, Node) and 0 in f.kids:
                f = ex.read_node(f.kids[0])
            cb = ex.closure_body(f, near=b.name) if f is not None else None
            if cb is None:
                raise Unsupported("poll_fn closure not found")
            from ..sym import Inline
            first = Ptr(f) if (cb.params[0][1] or "").strip().startswith("&") else f
            return Inline(cb, [first, args[1]], callee)
        for sub, name in (("send_message()", "write"), ("send_ping()", "ping_write"), ("::close()", "close")):
            if sub in callee:
                okf, rdy = z3.Bool(ex.ctx.fresh_name(name + ".ok")), z3.Bool(ex.ctx.fresh_name(name + ".ready"))
                return Fork([(z3.And(rdy, okf), lambda ex_, st_, tr: ex_.mk_variant("Poll", 0, "Ready", ex_.mk_variant("Result", 0, "Ok", MM.UNIT))),
                             (z3.And(rdy, z3.Not(okf)), lambda ex_, st_, tr: ex_.mk_variant("Poll", 0, "Ready", ex_.mk_variant("Result", 1, "Err", Opaque(z3.Const("io_error", OBJ))))),
                             (z3.Not(rdy), lambda ex_, st_, tr: ex_.mk_variant("Poll", 1, "Pending"))])
        return NotImplemented

    def m_poll_fn(ex, st, callee, args, dty, site):
        n = Node(ex.ctx.fresh_name("pollfn"), "PollFn")
        k = Node(n.name + ".0", None)
        if isinstance(args[0], Node):
            ex.write(k, args[0])
        else:
            k.val = args[0]
        n.kids[0] = k
        return n
    models = [(r"as futures_util::StreamExt>::next$", m_next), (r"^Pin::<&mut tokio::sync::oneshot::Receiver<\(\)>>::new_unchecked$", m_pin_stop),
              (r"^futures_util::future::select::<", m_select), (r"^std::future::poll_fn::<", m_poll_fn),
              (r"as (futures_util::|std::future::)?Future>::poll$", m_poll)] + list(SQ.TRY_MODELS) + list(M.TRACING_MODELS) + list(M.INT_MODELS)
    from .. import listmodels as LM
    models = models[:-0] if False else models
    ctx = P.make_ctx(srv, extra_models=models + LM.LIST_MODELS + [(r"^tokio::macros::support::poll_budget_available$", lambda ex_, st, c, a, d, s: ex_.mk_variant("Poll", 0, "Ready", MM.UNIT)),
                                                                   (r"^tokio::macros::support::thread_rng_n$", lambda ex_, st, c, a, d, s: z3.BitVec(ex_.ctx.fresh_name("select.start"), 32))],
                     max_paths=6000, max_visits=2)
    # the branch loop of a tokio::select! closure runs once per branch
    ctx.visit_overrides = [(r"tokio-[\d.]+/src/macros/select\.rs", 6)]
    ctx.consts = dict(ctx.consts, **R.mir_consts("server"))
    ex = Executor(ctx)
    paths = ex.run_coroutine(b)
    bad = [(p.kind, p.detail) for p in paths if p.kind in ("unsupported", "limit")]
    viol, reach = [], {"written": [], "stop-honoured": []}
    for p in paths:
        if p.kind != "return":
            continue
        seq = [e for e in p.events if e.kind in ("call", "c10")]
        polls = [(i, e) for i, e in enumerate(seq) if e.kind == "c10" and e.callee.startswith("poll:")]
        writes = [i for i, e in enumerate(seq) if e.kind == "call" and re.search(r"^send_message$", e.callee)]
        closes = [i for i, e in enumerate(seq) if e.kind == "call" and re.search(r"soketto::Sender::<.*>::close$", e.callee)]
        pc = p.cond()
        # group polls by ordinal
        ords = sorted({int(e.callee.split(":")[1]) for _, e in polls})
        for k in ords:
            idxs = [i for i, e in polls if int(e.callee.split(":")[1]) == k]
            last = idxs[-1]
            nxt = min([i for i, e in polls if int(e.callee.split(":")[1]) > k] + [len(seq)])
            w = [i for i in writes if last < i < nxt]
            got = z3.And(z3.Bool(f"queue.ready@{k}"), z3.Bool(f"queue.some@{k}"))
            took = not ex.feasible(list(p.pc) + [z3.Not(got)])
            if took:
                reach["written"].append(pc)
                if len(w) != 1 or f"queued_item@{k}" not in str(to_term(MM.value_of(ex, seq[w[0]].args[1]))):
                    viol.append(pc)              # the item taken from the queue is written, once, before anything else is taken
            exits = [i for i in closes if last < i < nxt]
            if exits and not w:
                reach["stop-honoured"].append(pc)
                # the task decides to finish after this poll: not while an answer is waiting in the queue
                if ex.feasible(list(p.pc) + [got]):
                    viol.append(z3.And(pc, got))
    return b, viol, reach, bad


def obligations(tier, seed):
    srv = R.bodies("server")
    out = []
    rp = dict(scenario="c10_graceful_stop", vars={}, fixed={}, region=z3.BoolVal(True))

    def _sat(c):
        sv = z3.Solver()
        sv.add(c)
        return sv.check() == z3.sat

    def emit(name, b, viol, reach, bad, desc, bounds, keydetail):
        bodies = [b.name] if b is not None else []
        reach_l = list(reach.values())
        qs = [v for v in viol if isinstance(v, z3.ExprRef)]
        if not bad and qs and _sat(z3.Or(*qs)):
            reach_l = [r for r in reach_l if r] or [[z3.BoolVal(True)]]
        if bad or not all(reach_l):
            out.append(R.Result(engine="mirsym", name=name, kind="order", status="unsupported" if bad else "vacuous", detail=str(bad[:1] or {k: len(v) for k, v in reach.items()})[:300], bodies=bodies))
            return
        q = [v if isinstance(v, z3.ExprRef) else z3.BoolVal(bool(v)) for v in viol]
        out.append(R.decide(name, "order", z3.Or(*q) if q else z3.BoolVal(False), [z3.Or(*v) for v in reach_l], bodies=bodies, desc=desc, bounds=bounds, keydetail=keydetail, replay=rp))
    from . import tryrecv as _tr
    bt, violt, reacht, badt = _tr.obligations(srv, "stop")
    emit("order:try_recv:stop-is-reported-as-stopped", bt, violt, {k: v for k, v in reacht.items() if k in ("stop", "stream-end")}, badt,
         "the WebSocket receive step reports `Stopped` exactly when the stop signal is what completed - whatever the ping bookkeeping says - so the connection drains its started calls "
         "(graceful_shutdown waits for them only on `Stopped`); `ConnectionClosed` is reported only when the stream ended or the inactivity limit was exceeded",
         "every outcome of the combined future (stream item / ping tick / stop) over up to three loop rounds; any ping configuration and failure count", "try-recv-stop")
    b, viol, reach, bad = _accept_loop(srv)
    b_, viol_, reach_, bad_ = _serve_with_graceful_shutdown(srv)
    emit("order:serve_with_graceful_shutdown", b_, viol_, reach_, bad_,
         "the low-level API's connection driver finishes only with the connection's own completion; when the stop future completes first, graceful_shutdown() is requested once - after that "
         "completion was observed - and the connection is still driven to its end; no completed future is polled again",
         "every resume point; every readiness of the race and of the connection", "serve-graceful")
    emit("order:Server::start_inner:waits-for-connection-tokens", b, viol, reach, bad,
         "every connection task is given a clone of the completion token; start_inner finishes only after it dropped its own token and the token channel reported that all clones are gone",
         "accept outcomes Established / Err / Shutdown in any sequence (3 visits per loop head); every resume point", "accept-loop")
    b, viol, reach, bad = _connection_task(srv)
    emit("order:process_connection:token-after-connection", b, viol, reach, bad,
         "a connection task drops its completion token only after the hyper connection future completed; when the stop signal wins the race it requests graceful_shutdown() and still awaits the connection",
         "connection finished first / stop first; connection ready / pending", "connection-task")
    b, viol, reach, bad = _background_task(srv)
    emit("order:ws::background_task:always-awaits-graceful_shutdown", b, viol, reach, bad,
         "the WebSocket connection task drops its own RpcService clone (pending-call token) and then awaits graceful_shutdown on every way out of the receive loop; it never finishes without that",
         "every resume point; every receive outcome", "ws-background")
    from . import C11
    b, viol, reach, bad = C11._background_task(srv)
    emit("order:ws::background_task:stop-handle-held-until-shutdown", b, viol, reach, bad,
         "the WebSocket connection task lets go of its ConnectionState - which holds the StopHandle that keeps `stopped` pending - only after its graceful shutdown completed",
         "every resume point; every receive outcome", "ws-stop-handle")
    b, viol, reach, bad = _graceful_shutdown(srv)
    emit("order:ws::graceful_shutdown:waits-before-stopping-the-writer", b, viol, reach, bad,
         "when the server is stopping, the writer task is told to finish only after the wait for {all pending-call tokens released | peer gone | writer gone} completed; the writer is then awaited; exactly one signal",
         "result Ok(Stopped) / Ok(ConnectionClosed) / Err; every readiness combination", "ws-graceful")
    b, viol, reach, bad = _writer_task(srv)
    emit("order:ws::send_task:queue-before-stop", b, viol, reach, bad,
         "the writer task writes every item it takes from the connection queue (exactly that item, once, before taking the next) and honours the stop signal only when no answer is waiting in the queue",
         "every readiness combination of {queue item, ping tick, stop signal} at each poll; 3 visits per loop head", "ws-writer")
    b, viol, reach, bad = _message_task(srv)
    emit("order:ws-message-task:token-released-after-answer", b, viol, reach, bad,
         "a per-message task releases its RpcService clone (the pending-call token graceful_shutdown waits for) only when it ends, i.e. after the answer was handed to the sink",
         "every resume point; call / sink readiness", "ws-message-token")
    return out
