"""C03 - every pending call completes with the response bearing its own id (one routing step from any reachable table state),
requests are registered before they are written to the transport, and id ranges never wrap."""
import itertools, re
import z3
from .. import run as R, clienttable as T, mapmodels as MM, listmodels as LM, prov as P, models as M
from ..sym import Executor, Node, Ptr, Opaque, to_term
from .C18 import Drv, classify

VALIDATION = {}


def _prestates(core, kinds):
    """build a table by real operations: kinds is a tuple over {'call','pending_sub','active_sub'}; returns (drv, tables, items)"""
    d = Drv(core)
    tables = T.new_tables(d.ex, core)
    items = []
    for i, k in enumerate(kinds):
        if k == "call":
            tables, idv = d.op_call(tables, i)
            items.append(dict(kind="call", id=idv, tx=f"call{i}.tx"))
        else:
            tables, sid, uid = d.op_sub(tables, i)
            if k == "active_sub":
                tables = d.op_answer(tables, sid, f"sub_answer{i}")
                tables = [t for t in tables if classify(d, t, sid) == "active"]
                items.append(dict(kind="active_sub", id=sid, uid=uid, tx=f"sub{i}.tx"))
            else:
                items.append(dict(kind="pending_sub", id=sid, uid=uid, tx=f"sub{i}.tx"))
        tables = d.merged(tables)
    return d, tables, items


def _route_step(core, kinds, resp_kind="number"):
    """resp_kind: the kind of id the arriving response carries - "number" (any u64), "str" (any text) or "null"; the table's own ids are numbers"""
    d, tables, items = _prestates(core, kinds)
    ex = d.ex
    X = z3.BitVec("resp.id", 64)
    ids = [it["id"] for it in items] + [it["uid"] for it in items if "uid" in it]
    distinct = z3.Distinct(*ids) if len(ids) > 1 else z3.BoolVal(True)
    before = {id(t): T.sizes(ex, t.mgr) for t in tables}
    def _resp_id(e):
        if resp_kind == "str":
            return T.mk_enum(e, "Id", "Str", [T.opaque("resp.id.text")])
        if resp_kind == "null":
            return T.mk_enum(e, "Id", "Null")
        return T.id_number(e, X)
    nxt = d.step(tables, d.b_single, lambda e: [T.response_with_id(e, _resp_id(e), "resp"), z3.BitVecVal(4, 64)], "route")
    fi_id = R.field_index("Response", "id")
    viol, reach = [], {"hit-call": [], "miss": [], "hit-sub": [], "hit-active": [], "hit-reserved": []}
    inv_viol = []
    txs = {it["tx"]: z3.Const(it["tx"], T.OBJ) for it in items}
    for t, p in nxt:
        pc = z3.And(distinct, *t.pc)
        sends = [e for e in p.events if e.kind == "call" and e.callee.startswith("tokio::sync::oneshot::Sender::")]
        inv_viol.append(z3.And(pc, z3.Not(T.index_invariant(ex, t.mgr))))
        ret_d = z3.simplify(ex.discr_of(p.ret))
        is_err = z3.is_bv_value(ret_d) and ret_d.as_long() == 1
        # which item (if any) does X equal on this path?
        which = None
        for it in (items if resp_kind == "number" else ()):       # an id of another kind equals no numeric id
            for role, sym in (("id", it["id"]), ("uid", it.get("uid"))):
                if sym is not None and not ex.feasible([pc, X != sym]):
                    which = (it, role)
        if len(sends) > 1:
            viol.append(pc)                                   # never two completions from one response
            continue
        if which is None:
            reach["miss"].append(pc)
            # nothing pending under this id: no call completed, error returned
            if sends or not is_err:
                viol.append(pc)
            continue
        it, role = which
        if it["kind"] == "call":
            reach["hit-call"].append(pc)
            ok = len(sends) == 1 and to_term(sends[0].args[0]).eq(txs[it["tx"]])
            if ok:
                val = sends[0].args[1]
                resp = ex.read_node(ex.child(val, ("Ok", 0), None)) if isinstance(val, Node) else None
                ok = isinstance(resp, Node) and resp.name in ("resp", "arg2")       # the very response object that arrived, unchanged
            if not ok or is_err:
                viol.append(pc)
        elif role == "uid":
            reach["hit-reserved"].append(pc)
            if sends or is_err:                                # reserved unsubscribe slot: swallowed silently
                viol.append(pc)
        elif it["kind"] == "pending_sub":
            reach["hit-sub"].append(pc)
            if len(sends) != 1 or not to_term(sends[0].args[0]).eq(txs[it["tx"]]) or is_err:
                viol.append(pc)
        else:
            reach["hit-active"].append(pc)
            # a response naming an already active subscription matches nothing pending
            if sends or not is_err:
                viol.append(pc)
    ab = [(p.kind, p.detail) for _, p, _ in d.abnormal if p.kind != "panic"]
    panics = [z3.And(distinct, *p.pc) for _, p, _ in d.abnormal if p.kind == "panic"]
    return d, viol, reach, ab, panics, inv_viol


def obligations(tier, seed):
    core = R.bodies("core")
    out = []
    kinds_all = ["call", "pending_sub", "active_sub"]
    combos = [("call",), ("call", "call"), ("call", "pending_sub"), ("call", "active_sub"), ("pending_sub", "active_sub")]
    if tier == "thorough":
        combos = [c for n in (1, 2, 3) for c in itertools.product(kinds_all, repeat=n)]
    out += route_obligations(core, combos)
    out += _id_range_kernel(core)
    out += _insert_before_send(core)
    out += batch_id_obligations(core)
    from . import C05 as _c05, C12 as _c12
    for r in _c05.array_obligations(core, (2,) if tier == "quick" else (2, 3), skip_scenario="c03_mixed_frame"):
        if r["name"].endswith(":none-skipped"):
            out.append(r)
    for r in _c12.ws_front_obligations(core, (2,) if tier == "quick" else (2, 3)):
        out.append(r)
    for r in _c12.ws_backend_obligations(core, [(2, 2), (3, 2)] if tier == "quick" else [(2, 2), (3, 2), (2, 3), (3, 3)]):
        if r.get("name", "").endswith(":positional"):
            out.append(r)
    return out


def route_obligations(core, combos):
    """(also part of C09: a pending subscribe must be answered on its own channel whatever the server sends - a channel dropped silently leaves the caller waiting beyond its timeout)"""
    out = []
    for kinds in combos:
        d, viol, reach, ab, panics, inv_viol = _route_step(core, kinds)
        name = "route:" + "+".join(kinds)
        common = dict(bodies=sorted(d.ctx.encoded_bodies), extra={"models": T.CLIENT_DOC + MM.MAP_DOC})
        if ab:
            out.append(R.Result(engine="mirsym", name=name, kind="kernel", status="unsupported", detail=str(ab[0])[:300], bodies=common["bodies"]))
            continue
        rs = [z3.Or(*v) for k, v in reach.items() if v]
        need = {"miss"} | ({"hit-call"} if "call" in kinds else set()) | ({"hit-sub", "hit-reserved"} if "pending_sub" in kinds else set()) | ({"hit-active"} if "active_sub" in kinds else set())
        missing = [k for k in need if not reach[k]]
        if missing:
            out.append(R.Result(engine="mirsym", name=name, kind="kernel", status="vacuous", detail=f"cases not reached: {missing}", bodies=common["bodies"]))
            continue
        out.append(R.decide(name + ":own-response", "kernel", z3.Or(*viol) if viol else z3.BoolVal(False), rs,
                            desc="one response with ANY u64 id arriving at this table: at most one completion; a pending call is completed on its own channel with that very response; "
                                 "a pending subscribe is answered on its own channel; the reserved unsubscribe slot swallows its ack; an id matching nothing pending (or an active "
                                 "subscription) completes nothing and is reported as an error",
                            bounds=f"table built by real operations: {', '.join(kinds)}; all ids any pairwise-different u64; response id any u64",
                            keydetail="routing", replay=dict(scenario="c03_routing", vars={}, fixed={}, region=z3.BoolVal(True)), **common))
        # the same table, the arriving response carrying an id of another kind (any text, or null): it is nobody's id
        for rk in (("str", "null") if len(kinds) <= 2 else ()):        # tables of <= 2 entries: an id of another kind misses whatever the table holds
            d2, viol2, reach2, ab2, panics2, _ = _route_step(core, kinds, rk)
            nm2 = f"{name}:{rk}-id:completes-nothing"
            if ab2:
                out.append(R.Result(engine="mirsym", name=nm2, kind="kernel", status="unsupported", detail=str(ab2[0])[:300], bodies=sorted(d2.ctx.encoded_bodies)))
                continue
            out.append(R.decide(nm2, "kernel", z3.Or(*(viol2 + panics2)) if viol2 + panics2 else z3.BoolVal(False), [z3.Or(*reach2["miss"])] if reach2["miss"] else [z3.BoolVal(False)],
                                desc="a response whose id is a text (any) or null arrives at a table whose pending ids are numbers: it equals none of them, so no channel is completed "
                                     "and the step reports an error - in particular the text \"7\" is not the id 7",
                                bounds=f"table built by real operations: {', '.join(kinds)}; all ids any pairwise-different u64; response id any text / null",
                                keydetail="routing-id-kind", replay=dict(scenario="c03_id_kind", vars={}, fixed={}, region=z3.BoolVal(True)),
                                bodies=sorted(d2.ctx.encoded_bodies), extra={"models": T.CLIENT_DOC + MM.MAP_DOC}))
        out.append(R.decide(name + ":no-panic", "kernel", z3.Or(*panics) if panics else z3.BoolVal(False), rs, desc="no panic in the routing step", bounds="as above", keydetail="panic", **common))
        out.append(R.decide(name + ":index-invariant", "kernel", z3.Or(*inv_viol) if inv_viol else z3.BoolVal(False), rs,
                            desc="after the step the reverse index (subscription id -> request id) and the active subscriptions still correspond one to one - "
                                 "also when the server hands out a subscription id that is already in use", bounds="as above; server-chosen subscription ids arbitrary (may collide)",
                            keydetail="index-invariant", replay=dict(scenario="c03_subid_collision", vars={}, fixed={}, region=z3.BoolVal(True)), **common))
    return out


def _atomic_models():
    def m_fetch_add(ex, st, callee, args, dty, site):
        """Atomic::<usize>::fetch_add(&a, v, order): returns the old value, stores old + v (wrapping)"""
        a = args[0]
        if not isinstance(a, Ptr):
            return NotImplemented
        old = ex.read_node(a.node)
        if isinstance(old, Node):
            # the atomic's cell: one more level (UnsafeCell / value)
            return NotImplemented
        old = ex.as_bv(old)
        a.node.val = old + ex.as_bv(args[1])
        return old
    return [(r"^Atomic::<usize>::fetch_add$", m_fetch_add),
            (r"^<usize as TryInto<u64>>::try_into$", lambda ex, st, c, a, d, s: ex.mk_variant("Result", 0, "Ok", ex.as_bv(a[0])))]


def _same_reading(a, b):
    """two uninterpreted readings (e.g. Vec::len of the same, untouched vector, made by two separate calls) denote the same value: compare modulo the calls' sequence numbers"""
    norm = lambda t: re.sub(r"/\d+\(", "(", re.sub(r",\s*\d+\)", ")", re.sub(r"\s+", " ", str(z3.simplify(t)))))
    return norm(a) == norm(b)


def batch_id_obligations(core, httpc=None):
    """The wire ids of a batch stay its own while it is in flight: (1) both clients take the batch's first id from the id manager and derive the range from exactly the
    batch's length; (2) after that allocation, no id the manager hands out later - to a call, a subscription or another batch - lies inside the range."""
    out = []
    kinds = R.source_tables()["enums"]["IdKind"]
    fi_cur, fi_kind = R.field_index("RequestIdManager", "current_id"), R.field_index("RequestIdManager", "id_kind")
    clients = [("ws", core, r"^fn async_client::<impl at core/src/client/async_client/mod\.rs:[\d: ]+>::batch_request::\{closure#0\}\(_1: Pin<&mut \{async block@core/src/client/async_client/mod\.rs"),
               ]
    # (the HTTP client sends every batch in an exchange of its own: ids shared between exchanges have no consequence there, so nothing is claimed about them)
    for label, crate, rx in clients:
        b = R.find_body(crate, rx)
        ex, ctx, paths = P.explore(crate, b, extra_models=list(T.CLIENT_MODELS[:0]) + list(M.TRACING_MODELS), max_paths=3000)
        bad = [(p.kind, p.detail) for p in paths if p.kind in ("unsupported", "limit")]
        sites = {}
        for p in paths:
            for e in p.events:
                if e.kind == "call" and e.callee == "generate_batch_id_range":
                    sites.setdefault((str(to_term(e.args[0])), str(to_term(e.args[1]))), (e, p))
        name = f"prov:{label}:batch_request:id-allocation"
        if bad or len(sites) != 1:
            out.append(R.Result(engine="mirsym", name=name, kind="provenance", status="unsupported" if bad else "site-missing", detail=str(bad[:1] or f"{len(sites)} allocation sites")[:300], bodies=[b.name]))
            continue
        (e, p), = sites.values()
        t0 = to_term(e.args[0])
        m = re.match(r"call:RequestIdManager::(\w+)/\d+$", t0.decl().name()) if z3.is_app(t0) else None
        meth = m.group(1) if m else None
        ops = list(t0.children())[:-1] if m else []        # the last operand is the call's sequence number
        len_term = to_term(e.args[1])
        takes_len = len(ops) >= 2
        mgr_txt = re.sub(r"\s+", " ", str(ops[0])) if ops else ""
        own_mgr = re.fullmatch(r"(call:<Arc<RequestIdManager> as Deref>::deref/\d+\()?ptr:arg1\.0\.\*\.\d+\.\*\.\d+(, \d+\))?", mgr_txt) is not None
        ok = meth is not None and own_mgr and (not takes_len or _same_reading(ops[1], len_term))
        out.append(R.decide(name, "provenance", z3.BoolVal(not ok), [p.cond()], bodies=[b.name],
                            desc=f"the {label} client's batch_request derives its id range from an id taken from its own id manager and from exactly the number of entries of the batch "
                                 f"(here: RequestIdManager::{meth}{' with that same length' if takes_len else ''})", bounds="every path to the allocation", keydetail="batch-id-source"))
        if meth is None:
            continue
        # ---- kernel: allocate (real method, real generate_batch_id_range), then hand out the next id(s): none may fall inside the range
        S_ = r"^fn client::<impl at core/src/client/mod\.rs:[\d: ]+>::"
        b_alloc = R.find_body(core, S_ + meth + r"\(_1: &RequestIdManager")
        b_next = R.find_body(core, S_ + r"next_request_id\(_1: &RequestIdManager")
        b_range = R.find_body(core, r"^fn generate_batch_id_range\(_1: jsonrpsee_types::Id<'_>, _2: u64\)")
        kctx = T.make_ctx(core)
        kctx.models = [(re.compile(rx_), f) for rx_, f in _atomic_models()] + kctx.models
        kctx.inline = [M.crate_inliner(core)]
        kex = Executor(kctx)
        c, n = z3.BitVec("counter", 64), z3.BitVec("batch.len", 64)
        mgr = Node("mgr", "RequestIdManager")
        cur = Node("mgr.cur", "CurrentId")
        cell = Node("mgr.cur.0", "usize")
        cell.val = c
        cur.kids[0] = cell
        kd = Node("mgr.kind", "IdKind")
        kdd = Node("mgr.kind.discr", "isize")
        kdd.val = z3.BitVecVal(kinds.index("Number"), 64)
        kd.kids["discr"] = kdd
        mgr.kids[fi_cur], mgr.kids[fi_kind] = cur, kd
        pre = [z3.UGE(n, 1), z3.BVAddNoOverflow(c, n, False), z3.BVAddNoOverflow(c + n, z3.BitVecVal(2, 64), False)]
        viol, reach, kbad = [], [], []
        for p1 in kex.run(b_alloc, args=[Ptr(mgr)] + ([n] if takes_len else []), pc0=pre):
            if p1.kind != "return":
                kbad.append((p1.kind, p1.detail))
                continue
            mgr1 = kex.pointee(p1.frame["mem"][(0, b_alloc.params[0][0])]) if hasattr(p1, "frame") and p1.frame else mgr
            for p2 in kex.run(b_range, args=[p1.ret, n], pc0=list(p1.pc)):
                if p2.kind != "return":
                    kbad.append((p2.kind, p2.detail))
                    continue
                d = z3.simplify(kex.discr_of(p2.ret))
                if not z3.is_bv_value(d) or d.as_long() != 0:
                    continue
                rg = kex.read_node(kex.child(p2.ret, ("Ok", 0), None))
                lo, hi = kex.read_node(kex.child(rg, 0, "u64")), kex.read_node(kex.child(rg, 1, "u64"))
                for p3 in kex.run(b_next, args=[Ptr(mgr1)], pc0=list(p2.pc)):
                    if p3.kind != "return":
                        kbad.append((p3.kind, p3.detail))
                        continue
                    later = kex.read_node(kex.child(p3.ret, ("Number", 0), "u64"))
                    pc = p3.cond()
                    reach.append(pc)
                    viol.append(z3.And(pc, z3.UGE(later, lo), z3.ULT(later, hi)))
        kname = f"kernel:{label}:batch-ids-not-handed-out-again"
        reach_l = R.live_reach(viol, reach, kbad)
        if kbad or not reach_l[0]:
            out.append(R.Result(engine="mirsym", name=kname, kind="kernel", status="unsupported" if kbad else "vacuous", detail=str(kbad[:1])[:300], bodies=[b_alloc.name, b_range.name, b_next.name]))
            continue
        r = R.decide(kname, "kernel", z3.Or(*viol), [z3.Or(*reach_l[0])], bodies=[b_alloc.name, b_range.name, b_next.name],
                     desc=f"after a batch of n entries took its ids (RequestIdManager::{meth}, generate_batch_id_range), the next id the manager hands out - to a call, a subscription or "
                          "another batch made while the first is in flight - lies outside that batch's range, so no two requests in flight share a wire id and a reply that lacks an "
                          "entry can never be mistaken for the reply to another batch",
                     bounds="counter any u64, batch length any n >= 1 (no wrap-around of the counter); numeric ids", keydetail="batch-ids-reused",
                     replay=dict(scenario="c12_two_batches", vars={"n": n}, fixed={"client": label}, region=z3.And(z3.UGE(n, 2), z3.ULE(n, 6))))
        if r["status"] == "violated":
            r["key"] = "mirsym:c12:batch-ids-handed-out-again"
        out.append(r)
    return out


def _id_range_kernel(core):
    b = R.find_body(core, r"^fn generate_batch_id_range\(_1: jsonrpsee_types::Id<'_>, _2: u64\)")
    ctx = T.make_ctx(core)
    ex = Executor(ctx)
    s = z3.BitVec("id", 64)
    ln = z3.BitVec("arg2", 64)
    res = []
    ps = ex.run(b, args=[T.id_number(ex, s), None])
    bad = [p for p in ps if p.kind in ("unsupported", "limit", "unwound")]
    if bad:
        return [R.Result(engine="mirsym", name="kernel:generate_batch_id_range", kind="kernel", status="unsupported", detail=bad[0].detail[:300], bodies=[b.name])]
    viol, reach_ok, reach_err = [], [], []
    for p in ps:
        if p.kind == "panic":
            viol.append(p.cond())
        elif p.kind == "return":
            d = z3.simplify(ex.discr_of(p.ret))
            fits = z3.BVAddNoOverflow(s, ln, False)
            if z3.is_bv_value(d) and d.as_long() == 0:
                r = ex.read_node(ex.child(p.ret, ("Ok", 0), None))
                st_, en = ex.read_node(ex.child(r, 0, "u64")), ex.read_node(ex.child(r, 1, "u64"))
                viol.append(z3.And(p.cond(), z3.Not(z3.And(fits, st_ == s, en == s + ln, z3.ULE(st_, en)))))
                reach_ok.append(p.cond())
            else:
                viol.append(z3.And(p.cond(), fits))
                reach_err.append(p.cond())
    return [R.decide("kernel:generate_batch_id_range", "kernel", z3.Or(*viol), [z3.Or(*reach_ok), z3.Or(*reach_err)], bodies=[b.name],
                     desc="Ok(start..end) <=> start + len does not wrap, with start = id and end - start = len; Err exactly on wrap; never panics",
                     bounds="all (id, len) in u64 x u64 (numeric ids)", keydetail="id-range", extra={"models": T.CLIENT_DOC})]


def _insert_before_send(core):
    """handle_frontend_messages: a call / batch / subscribe is entered in the request table before it is handed to the transport"""
    b = R.find_body(core, r"^fn handle_frontend_messages::\{closure#0\}\(_1: Pin<&mut \{async fn body of handle_frontend_messages<S>")
    ex, ctx, paths = P.explore(core, b, extra_models=T.CLIENT_MODELS + MM.MAP_MODELS + list(M.TRACING_MODELS), max_paths=6000)
    send_rx = r"as TransportSenderT>::send$"
    ins_rx = r"RequestManager::insert_pending_(call|batch|subscription)"
    sites = P.syntactic_sites(b, send_rx)
    viol, reach = [], []
    seen_sites = set()
    for p in paths:
        evs = [e for e in p.events if e.kind in ("call", "inline")]
        for i, e in enumerate(evs):
            if e.body == b.name and re.search(send_rx, e.callee):
                seen_sites.add(e.block)
                before = [x for x in evs[:i] if re.search(ins_rx, x.callee)]
                # exempt: notifications, and unsubscribe calls built by the background task (stop_subscription / request without receiver)
                exempt = any(re.search(r"stop_subscription", x.callee) for x in evs[:i + 1])
                pc = z3.And(*e.pc) if e.pc else z3.BoolVal(True)
                reach.append(pc)
                if not before and not exempt:
                    # which message variant is this path about? only Request / Batch / Subscribe must have registered first
                    viol.append((pc, e.block))
    # classify violating blocks by the FrontToBack variant guarding them (read from the path condition)
    res = []
    name = "order:handle_frontend_messages:insert-before-send"
    if not sites or set(sites) - seen_sites:
        return [R.Result(engine="mirsym", name=name, kind="order", status="site-unreached", detail=f"send sites {sites}, reached {sorted(seen_sites)}", bodies=[b.name])]
    fv = R.source_tables()["enums"]["FrontToBack"]
    must = {fv.index(x) for x in ("Batch", "Request", "Subscribe")}
    q = []
    for pc, blk in viol:
        q.append(pc)
    # the message variant is the discriminant of capture `message`; paths for Notification may send without registering
    cap = P.capture_index(b, "message")
    dsym = z3.BitVec(f"arg1.0.*.{cap}.discr", 64)
    fi_sb = R.field_index("RequestMessage", "send_back")
    has_receiver = z3.BitVec(f"arg1.0.*.{cap}.Request:0.{fi_sb}.discr", 64) == 1
    guard = z3.Or(dsym == fv.index("Batch"), dsym == fv.index("Subscribe"), z3.And(dsym == fv.index("Request"), has_receiver))
    # a request without receiver is an unsubscribe built by the background task: its slot was reserved at subscribe time
    query = z3.And(guard, z3.Or(*q)) if q else z3.BoolVal(False)
    r = R.decide(name, "order", query, [z3.Or(*reach)], bodies=[b.name],
                 desc="for FrontToBack::{Request with a receiver, Batch, Subscribe}: the insert into the request table precedes the transport send on every path "
                      "(so an immediate answer always finds its entry)",
                 bounds="every resume point of the coroutine; every message variant", keydetail="insert-before-send",
                 replay=dict(scenario="c03_fast_reply", vars={}, fixed={"calls": 2, "delay_ms": 50}, region=z3.BoolVal(True)),
                 extra={"models": [M.MODEL_DOC.get(rx, rx) for rx in ctx.used_models][:12], "sites": sites})
    return [r]
