"""HTTP status of the transport's fixed responses (shared by C07 and C19).

The gate obligations decide *which* helper of `transport::http::response` answers a refused request; this one decides what
status that helper puts on the wire. The helper's MIR is executed; on every return path the response must come from
`from_template` (directly, or through another helper of the module, which is then resolved the same way from its own MIR),
the status operand is a `StatusCode` constant whose number is read from the `http` crate source Cargo.lock resolves, and
`from_template` itself must hand its first parameter - and nothing else - to `Builder::status`. The solver is asked for a
return path whose status lies outside the set the property allows.
"""
import os, re, glob
import z3
from .. import run as R, models as M, prov as P
from ..sym import to_term

_CODES = {}


def status_table():
    """name -> number, from the associated constants of http::StatusCode (the `status_codes!` table of the resolved http version)"""
    if _CODES:
        return _CODES
    lock = open(os.path.join(R.REPO, "Cargo.lock")).read()
    m = re.search(r'\[\[package\]\]\nname = "hyper"\nversion = "[^"]+"\n(?:source = [^\n]*\n)?(?:checksum = [^\n]*\n)?dependencies = \[(.*?)\]', lock, re.S)
    ver = None
    for d in re.findall(r'"([^"]+)"', m.group(1)) if m else []:
        parts = d.split(" ")
        if parts[0] == "http":
            ver = parts[1] if len(parts) > 1 else re.search(r'name = "http"\nversion = "([^"]+)"', lock).group(1)
    if ver is None:
        raise LookupError("hyper does not depend on http in Cargo.lock - spec needs update")
    cands = glob.glob(os.path.expanduser(f"~/.cargo/registry/src/*/http-{ver}/src/status.rs"))
    if not cands:
        raise LookupError(f"source of http {ver} not found in the cargo registry")
    for num, name in re.findall(r"^\s*\((\d{3}),\s*([A-Z_]+),\s*\"", open(cands[0]).read(), re.M):
        _CODES[name] = int(num)
    _CODES["__version__"] = ver
    return _CODES


def _helper_paths(srv, helper, depth=0):
    """[(path condition, status as a 16-bit value)] over the return paths of response::<helper>; problems; bodies"""
    tab = status_table()
    b = R.find_body(srv, r"^fn %s\(" % re.escape(helper))
    ex, ctx, paths = P.explore(srv, b, extra_models=list(M.TRACING_MODELS), max_paths=400)
    out, problems, bodies = [], [], [b.name]
    for p in paths:
        if p.kind in ("unsupported", "limit"):
            problems.append((p.kind, p.detail))
            continue
        if p.kind != "return":
            continue
        makers = [e for e in p.events if e.kind == "call" and re.match(r"^(from_template|ok_response|error_response)(::<|$)", e.callee)]
        if len(makers) != 1:
            problems.append(("shape", f"{helper}: {len(makers)} response constructors on a return path"))
            continue
        e = makers[0]
        if e.callee.startswith("from_template"):
            t = str(to_term(e.args[0]))
            m = re.match(r"^const:(?:hyper|http)::StatusCode::([A-Z_]+)$", t)
            if not m or m.group(1) not in tab:
                problems.append(("shape", f"{helper}: status operand {t[:80]} is not a StatusCode constant"))
                continue
            out.append((p.cond(), z3.BitVecVal(tab[m.group(1)], 16)))
        else:
            if depth >= 2:
                problems.append(("shape", f"{helper}: helper chain too deep"))
                continue
            sub, subprob, subbodies = _helper_paths(srv, e.callee.split("::<")[0], depth + 1)
            problems += subprob
            bodies += subbodies
            out += [(z3.And(p.cond(), c), s) for c, s in sub]
    return out, problems, bodies


def _template_passes_status(srv):
    """from_template: on every return path Builder::status is called exactly once, with the function's first parameter"""
    b = R.find_body(srv, r"^fn from_template\(")
    ex, ctx, paths = P.explore(srv, b, extra_models=list(M.TRACING_MODELS), max_paths=400)
    bad, problems, n = [], [], 0
    for p in paths:
        if p.kind in ("unsupported", "limit"):
            problems.append((p.kind, p.detail))
        if p.kind != "return":
            continue
        n += 1
        st = [e for e in p.events if e.kind == "call" and re.search(r"response::Builder::status::<", e.callee)]
        if len(st) != 1 or str(to_term(st[0].args[1])) != "obj:arg1":
            bad.append(p.cond())
    return bad, problems, n, b.name


def obligation(srv, helper, name, allowed, desc, replay, keydetail):
    """allowed: function from the 16-bit status to the z3 condition the property states for it"""
    try:
        pths, problems, bodies = _helper_paths(srv, helper)
        tbad, tprob, tn, tbody = _template_passes_status(srv)
    except LookupError as e:
        return R.Result(engine="mirsym", name=name, kind="kernel", status="unsupported", detail=str(e)[:300], bodies=[])
    problems += tprob
    if problems or not pths or not tn:
        return R.Result(engine="mirsym", name=name, kind="kernel", status="unsupported" if problems else "vacuous", detail=str(problems[:1] or "no return path")[:300], bodies=bodies + [tbody])
    viol = [z3.And(c, z3.Not(allowed(s))) for c, s in pths] + tbad
    return R.decide(name, "kernel", z3.Or(*viol), [z3.Or(*[c for c, _ in pths])], bodies=bodies + [tbody], desc=desc,
                    bounds=f"every return path of response::{helper} and of from_template; StatusCode constants numbered from http {status_table()['__version__']}'s table",
                    keydetail=keydetail, extra={"statuses": sorted({s.as_long() for _, s in pths})}, replay=replay)
