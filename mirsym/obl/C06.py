"""C06 - server subscription bookkeeping is exact and respects the per-connection cap.

The real MIR of BoundedSubscriptions::{new, acquire}, PendingSubscriptionSink::{accept, reject}, SubscriptionSink::{clone, is_closed, drop},
the unsubscribe callback and (server crate) RpcService::call is executed step by step over a driver-built world: the subscriber table
(HashMap as an association list behind a transparent Mutex), the per-connection semaphore (a counter), reference-counted Arcs and Rust's
drop glue (Drop::drop, then the fields; an Arc releases its contents with the last handle).  Sub ids, connection ids, the cap and all
channel outcomes are solver variables; the op sequence of a history is enumerated up to a bound and memoised on the abstract state.
"""
import re
import z3
from .. import run as R, models as M, mapmodels as MM, prov as P, seqmodels as SQ, clienttable as T, listmodels as LM
from ..sym import Ctx, Executor, Node, Ptr, Opaque, OBJ, to_term, Fork, Unsupported
from .C02 import ERROBJ_MODELS, _err_code

VALIDATION = {}
UNIT = MM.UNIT


def world_of(st):
    return st["mem"][("extra", 0)]


# ------------------------------------------------------------------------------------------------ models
def m_sem_new(ex, st, callee, args, dty, site):
    n = Node(ex.ctx.fresh_name("sem"), "Semaphore")
    n.variant = ("sem",)
    a = Node(n.name + ".avail", "usize")
    a.val = args[0]
    n.kids["avail"] = a
    return n


def _sem_of(ex, v):
    a = MM.arc_node(ex, v)
    if a is None:
        raise Unsupported("try_acquire_owned on a value that is not a modelled Arc<Semaphore>")
    return a.kids["ptr"].val.node.kids["v"]


def m_try_acquire_owned(ex, st, callee, args, dty, site):
    """tokio Semaphore::try_acquire_owned: a permit iff one is available (counter - 1); the permit returns it when dropped"""
    sem = _sem_of(ex, args[0])
    avail = ex.read_node(sem.kids["avail"])

    def ok(ex_, st_, tr):
        s2 = tr(sem)
        s2.kids["avail"].val = z3.simplify(ex_.read_node(s2.kids["avail"]) - 1)
        p = Node(ex_.ctx.fresh_name("permit"), "OwnedSemaphorePermit")
        p.variant = ("permit",)
        k = Node(p.name + ".sem", None)
        k.val = Ptr(s2)
        p.kids["sem"] = k
        return ex_.mk_variant("Result", 0, "Ok", p)

    def no(ex_, st_, tr):
        # tokio::sync::TryAcquireError { Closed, NoPermits }: a semaphore nobody closes only ever reports NoPermits
        return ex_.mk_variant("Result", 1, "Err", ex_.mk_variant("TryAcquireError", 1, "NoPermits"))
    return Fork([(z3.UGT(avail, 0), ok), (avail == 0, no)])


def release_permit(ex, p):
    sem = p.kids["sem"].val.node
    sem.kids["avail"].val = z3.simplify(ex.read_node(sem.kids["avail"]) + 1)


def m_arc_new(ex, st, callee, args, dty, site):
    a = MM.new_arc(ex, args[0])
    m = re.match(r"^Arc::<(.*)>::new$", callee)
    box = a.kids["ptr"].val.node
    box.kids["v"].ty = m.group(1) if m else None
    return a


def m_mutex_lock(ex, st, callee, args, dty, site):
    """parking_lot Mutex::lock: the guard is a pointer to the protected value (single-threaded step semantics)"""
    g = Node(ex.ctx.fresh_name("guard"), "MutexGuard")
    g.val = args[0] if isinstance(args[0], Ptr) else Ptr(MM.value_of(ex, args[0]))
    return g


def m_guard_deref(ex, st, callee, args, dty, site):
    g = args[0].node if isinstance(args[0], Ptr) else args[0]
    return ex.read_node(g)


def m_channel(ex, st, callee, args, dty, site):
    """tokio mpsc::channel: a fresh (Sender, Receiver) pair sharing a channel identity"""
    k = ex.ctx.fresh_name("chan")
    t = Node(k, "(Sender, Receiver)")
    a, b = Node(k + ".0", "Sender"), Node(k + ".1", "Receiver")
    a.val = Opaque(z3.Const("tx:" + k, OBJ))
    b.val = Opaque(z3.Const("rx:" + k, OBJ))
    t.kids[0], t.kids[1] = a, b
    return t


def _receivers_in_table(ex, st):
    w = world_of(st)
    box = w.kids["table"].kids["ptr"].val.node
    m = box.kids["v"]
    out = set()
    for _, e in MM.entries(m):
        out |= set(re.findall(r"rx:(chan!?\d+)", _deep_text(ex, e.kids["v"])))
    return out


def _deep_text(ex, n, depth=0):
    v = ex.read_node(n) if isinstance(n, Node) else n
    if isinstance(v, Node):
        return " ".join(_deep_text(ex, k, depth + 1) for k in v.kids.values()) if depth < 6 else ""
    if isinstance(v, Ptr):
        return ""
    return str(to_term(v))


def m_sender_is_closed(ex, st, callee, args, dty, site):
    """tokio mpsc Sender::is_closed: true iff the receiver is gone; the receiver of an unsubscribe channel only ever lives in the
    subscriber table (accept puts it there), so it is gone exactly when no table entry holds it"""
    txt = _deep_text(ex, args[0].node if isinstance(args[0], Ptr) else args[0])
    m = re.search(r"tx:(chan!?\d+)", txt)
    if not m:
        raise Unsupported("is_closed on a sender the model did not create: " + txt[:80])
    return z3.BoolVal(m.group(1) not in _receivers_in_table(ex, st))


def m_methodsink_is_closed(ex, st, callee, args, dty, site):
    """MethodSink::is_closed: the connection's outgoing channel is closed (a world flag the driver sets with the `close` op)"""
    return ex.read_node(world_of(st).kids["closed"])


def _poll_ready(ex, result):
    return ex.mk_variant("Poll", 0, "Ready", result)


def m_poll_send(ex, st, callee, args, dty, site):
    """polling MethodSink::send: Ready(Ok(())) or Ready(Err(DisconnectError)) as the solver chooses (Pending only delays)"""
    okb = z3.Bool(ex.ctx.fresh_name("sink_send_ok"))

    def ok(ex_, st_, tr):
        return _poll_ready(ex_, ex_.mk_variant("Result", 0, "Ok", UNIT))

    def er(ex_, st_, tr):
        return _poll_ready(ex_, ex_.mk_variant("Result", 1, "Err", Opaque(z3.Const("DisconnectError", OBJ))))
    return Fork([(okb, ok), (z3.Not(okb), er)])


def m_is_success(ex, st, callee, args, dty, site):
    return z3.Bool(ex.ctx.fresh_name("response_is_success"))


def m_opaque(tag):
    def f(ex, st, callee, args, dty, site):
        return Opaque(z3.Const(ex.ctx.fresh_name(tag), OBJ))
    return f


def m_params_one(ex, st, callee, args, dty, site):
    """Params::one::<SubscriptionId>: Ok(the id the driver put in the params) or Err as the solver chooses"""
    w = world_of(st)
    okb = z3.Bool(ex.ctx.fresh_name("params_parse_ok"))

    def ok(ex_, st_, tr):
        return ex_.mk_variant("Result", 0, "Ok", ex_.read_node(world_of(st_).kids["unsub_param"]))

    def er(ex_, st_, tr):
        return ex_.mk_variant("Result", 1, "Err", Opaque(z3.Const("ErrorObject:invalid_params", OBJ)))
    return Fork([(okb, ok), (z3.Not(okb), er)])


def m_response(ex, st, callee, args, dty, site):
    r = Node(ex.ctx.fresh_name("method_response"), "MethodResponse")
    r.val = Opaque(z3.Const(r.name, OBJ))
    return r


def m_success(ex, st, callee, args, dty, site):
    p = Node(ex.ctx.fresh_name("payload"), "ResponsePayload")
    k = Node(p.name + ".value", None)
    ex.write(k, args[0]) if isinstance(args[0], Node) else setattr(k, "val", args[0])
    p.kids["value"] = k
    return p


C06_MODELS = [
    (r"^(tokio::sync::)?Semaphore::new$", m_sem_new),
    (r"^(tokio::sync::)?Semaphore::try_acquire_owned$", m_try_acquire_owned),
    (r"^Arc::<.*>::new$", m_arc_new),
    (r"^parking_lot::lock_api::Mutex::<.*>::lock$", m_mutex_lock),
    (r"^<parking_lot::lock_api::MutexGuard<.*> as Deref(Mut)?>::deref(_mut)?$", m_guard_deref),
    (r"^tokio::sync::mpsc::channel::<\(\)>$", m_channel),
    (r"^tokio::sync::mpsc::Sender::<\(\)>::is_closed$", m_sender_is_closed),
    (r"^MethodSink::is_closed$", m_methodsink_is_closed),
    (r"^<\{async fn body of MethodSink::send\(\)\} as futures_util::Future>::poll$", m_poll_send),
    (r"^MethodSink::send$", m_opaque("send_future")),
    (r"^MethodSink::max_response_size$", lambda ex, st, c, a, d, s: z3.BitVec("max_response_size", 32)),
    (r"^method_response::MethodResponse::is_success$", m_is_success),
    (r"^method_response::MethodResponse::to_json$", m_opaque("json")),
    (r"^method_response::MethodResponse::(subscription_response|subscription_error|response)::<.*>$|^method_response::MethodResponse::(subscription_error|error)$", m_response),
    (r"^method_response::MethodResponse::with_extensions$", M.m_identity),
    (r"^method_response::ResponsePayload::<.*>::success(_borrowed)?$", m_success),
    (r"^Params::<'_>::one::<SubscriptionId<'_>>$", m_params_one),
    (r"^tokio::sync::oneshot::Sender::<.*>::send$", T.m_oneshot_send),
    (r"::into_owned$", M.m_identity),
    (r"^<SubscriptionKey as PartialEq>::(eq|ne)$", T.m_struct_eq),
]
MODEL_DOC = [
    "tokio Semaphore: a counter; try_acquire_owned succeeds iff the counter is positive (and decrements it); dropping the permit increments it",
    "Arc: reference count, contents dropped with the last handle; parking_lot Mutex::lock is transparent (one step at a time)",
    "tokio mpsc::channel(1) for the unsubscribe signal: Sender::is_closed() iff no subscriber-table entry holds the Receiver",
    "MethodSink::is_closed = the connection-closed flag of the world; polling MethodSink::send is Ready(Ok) or Ready(Err) (solver's choice), Pending only delays",
    "oneshot::Sender::send: Ok iff a fresh Boolean 'receiver alive'; MethodResponse constructors are opaque; is_success is a fresh Boolean",
    "Params::one::<SubscriptionId>: Ok(the id the driver sent) or Err (solver's choice)",
    "drop glue: `drop(place)` terminators and driver-level drops run Drop::drop of the value's type (when the crate has one) and then drop the fields; "
    "an Arc handle decrements the count and drops the contents at zero; a permit returns its slot",
]


# ------------------------------------------------------------------------------------------------ drop glue
def drop_shallow(ex, st, node, ty=None):
    """non-forking drop of a value met at a `drop(place)` terminator: permits return their slot, Arc handles are released. A value whose
    type has its own Drop impl in the crate cannot be handled here (the driver does those)."""
    v = ex.read_node(node) if isinstance(node, Node) else node
    if not isinstance(v, Node):
        return
    if isinstance(v.variant, tuple) and v.variant:
        if v.variant[0] == "permit":
            release_permit(ex, v)
            v.variant = ("permit-released",)
            return
        if v.variant[0] == "arc":
            box = v.kids["ptr"].val.node
            rc = box.variant[1] - 1
            box.variant = ("arcbox", rc)
            if rc == 0:
                inner = box.kids["v"]
                if _drop_impl(ex.ctx.bodies, inner.ty) is not None:
                    raise Unsupported(f"last handle of Arc<{inner.ty}> released inside a body: its Drop impl would have to run here")
                drop_shallow(ex, st, inner)
            return
        if v.variant[0] in ("map", "sem", "permit-released"):
            return
    if ty and _drop_impl(ex.ctx.bodies, ty) is not None:
        raise Unsupported(f"drop of a {ty} inside a body (has a Drop impl)")
    for k in sorted(v.kids, key=str):
        if k == "discr" or (isinstance(k, tuple) and k[0] == "name"):
            continue
        drop_shallow(ex, st, v.kids[k])


_drop_cache = {}


def _drop_impl(bods, ty):
    """the crate's `impl Drop for <ty>` body, if any"""
    if not ty:
        return None
    base = re.sub(r"<.*", "", ty.strip().lstrip("&").replace("mut ", "")).split("::")[-1].strip()
    if not re.fullmatch(r"[A-Za-z_][A-Za-z0-9_]*", base or ""):
        return None
    key = (id(bods), base)
    if key not in _drop_cache:
        hits = [b for b in bods.values() if re.search(r"::drop\(_1: &mut (?:[A-Za-z_0-9]+::)*" + re.escape(base) + r"\) -> \(\)", b.header) and "{closure" not in b.name]
        _drop_cache[key] = hits[0] if len(hits) == 1 else None
    return _drop_cache[key]


# ------------------------------------------------------------------------------------------------ the world and its driver
class World:
    def __init__(self, root, pc, ref, trail):
        self.root, self.pc, self.ref, self.trail = root, pc, ref, trail


class Ref:
    """reference bookkeeping of one history (concrete): what the property says the state must be"""

    def __init__(self):
        self.subs = []          # dict(handles=int, unsub=bool)
        self.closed = False
        self.pending = 0

    def copy(self):
        r = Ref()
        r.subs = [dict(s) for s in self.subs]
        r.closed, r.pending = self.closed, self.pending
        return r

    def active(self, i):
        s = self.subs[i]
        return s["handles"] > 0 and not s["unsub"]

    def used(self):
        return self.pending + sum(1 for s in self.subs if s["handles"] > 0)

    def sig(self):
        return (tuple((s["handles"], s["unsub"]) for s in self.subs), self.closed, self.pending)


class Drv:
    def __init__(self, core, max_paths=4000):
        self.core = core
        t = R.source_tables()
        self.ctx = Ctx(core, consts=t["consts"], enums=t["enums"],
                       models=C06_MODELS + MM.MAP_MODELS + MM.ARC_MODELS + list(SQ.TRY_MODELS) + list(M.TRACING_MODELS) + list(M.MEM_MODELS) + list(M.STRING_MODELS) + list(M.INT_MODELS) + P.COMMON_MODELS,
                       inline=[M.crate_inliner(core)], max_paths=max_paths)
        self.ctx.on_drop = drop_shallow
        self.ex = Executor(self.ctx)
        fb = lambda rx: R.find_body(core, rx)
        S = r"^fn subscription::<impl at core/src/server/subscription\.rs:[\d: ]+>::"
        self.b_new = fb(S + r"new\(_1: u32\) -> BoundedSubscriptions")
        self.b_acquire = fb(S + r"acquire\(_1: &BoundedSubscriptions\)")
        self.b_accept = fb(S + r"accept::\{closure#0\}\(_1: Pin<&mut \{async fn body of PendingSubscriptionSink::accept\(\)\}>")
        self.b_reject = fb(S + r"reject::<.*>::\{closure#0\}\(|" + S + r"reject::\{closure#0\}\(") if R.find_body(core, S + r"reject", all_=True) else None
        self.b_clone = fb(S + r"clone\(_1: &subscription::SubscriptionSink\) -> subscription::SubscriptionSink")
        self.b_is_closed = fb(S + r"is_closed\(_1: &subscription::SubscriptionSink\) -> bool")
        self.b_unsub = fb(r"^fn rpc_module::<impl at core/src/server/rpc_module\.rs:[\d: ]+>::verify_and_register_unsubscribe::\{closure#0\}\(_1: &\{closure@")
        self.abnormal = []
        self.cap = z3.BitVec("cap", 32)
        self.conn_a, self.conn_b = z3.BitVec("conn_a", 64), z3.BitVec("conn_b", 64)
        self.sids = []
        self.unknown_sid = z3.BitVec("unknown_sub_id", 64)

    # -- construction ----------------------------------------------------------------------------------------------
    def initial(self, cap_max):
        ex = self.ex
        root = Node("world", "World")
        table = MM.new_arc(ex, MM.new_map(ex, "subscribers"))   # one handle: the unsubscribe callback's capture
        table.kids["ptr"].val.node.kids["v"].ty = "Mutex<HashMap>"
        root.kids["table"] = table
        c = Node("world.closed", "bool")
        c.val = z3.BoolVal(False)
        root.kids["closed"] = c
        up = Node("world.unsub_param", None)
        up.val = Opaque(z3.Const("none", OBJ))
        root.kids["unsub_param"] = up
        pc0 = [z3.ULE(self.cap, cap_max), self.conn_a != self.conn_b]
        ws = []
        for p in ex.run(self.b_new, args=[self.cap], pc0=pc0, extra_roots=[root]):
            if p.kind != "return":
                self.abnormal.append(("BoundedSubscriptions::new", p.kind, p.detail))
                continue
            r2 = world_of(p.frame)
            b = Node("world.bounded", "BoundedSubscriptions")
            ex.write(b, p.ret)
            b.name = "world.bounded"
            r2.kids["bounded"] = b
            ws.append(World(r2, list(p.pc), Ref(), []))
        return ws

    def run(self, w, body, mkargs, label):
        """run `body` from a copy of world w; mkargs(root) -> argument values. Yields (World', Path)."""
        root = self.ex.deep_clone(w.root)
        out = []
        for p in self.ex.run(body, args=mkargs(root), pc0=w.pc, extra_roots=[root]):
            if p.kind == "return":
                out.append((World(world_of(p.frame), list(p.pc), w.ref.copy(), w.trail + [label]), p))
            elif p.kind in ("unsupported", "limit", "unwound", "diverge"):
                self.abnormal.append((label, p.kind, p.detail))
            # panic paths: PendingSubscriptionSink::accept documents its panic (response too big); nothing else may panic
            elif p.kind == "panic" and "accept" not in label:
                self.abnormal.append((label, p.kind, p.detail))
        return out

    def key(self, conn, sid):
        ex = self.ex
        k = Node(ex.ctx.fresh_name("key"), "SubscriptionKey")
        c = Node(k.name + ".0", "ConnectionId")
        c0 = Node(c.name + ".0", "usize")
        c0.val = conn
        c.kids[0] = c0
        s = Node(k.name + ".1", None)
        ex.write(s, T.subid_num(ex, sid))
        k.kids[R.field_index("SubscriptionKey", "conn_id")] = c
        k.kids[R.field_index("SubscriptionKey", "sub_id")] = s
        return k

    def method_sink(self, tag):
        n = Node(self.ex.ctx.fresh_name("methodsink"), "MethodSink")
        n.val = Opaque(z3.Const("methodsink:" + tag, OBJ))
        return n

    # -- operations ------------------------------------------------------------------------------------------------
    def op_acquire(self, w):
        """BoundedSubscriptions::acquire on the connection's semaphore -> [(World, permit | None)]"""
        out = []
        for w2, p in self.run(w, self.b_acquire, lambda root: [Ptr(root.kids["bounded"])], "acquire"):
            d = z3.simplify(self.ex.discr_of(p.ret))
            if not z3.is_bv_value(d):
                self.abnormal.append(("acquire", "unsupported", "Option discriminant not concrete"))
                continue
            if d.as_long() == 1:
                permit = self.ex.read_node(p.ret.kids[("Some", 0)])
                slot = Node("world.pending_permit", None)
                self.ex.write(slot, permit)
                w2.root.kids["pending_permit"] = slot
                out.append((w2, True))
            else:
                out.append((w2, False))
        return out

    def pending_sink(self, root, i):
        """the PendingSubscriptionSink the subscribe callback builds (see the provenance obligation): this connection's sink, the method's
        table, key (conn_a, fresh id), the call's id, a oneshot sender, the acquired permit"""
        ex = self.ex
        ps = Node(ex.ctx.fresh_name("pending"), "PendingSubscriptionSink")
        f = lambda name: R.field_index("PendingSubscriptionSink", name)

        def put(name, val):
            k = Node(f"{ps.name}.{f(name)}", None)
            if isinstance(val, Node):
                ex.write(k, val)
            else:
                k.val = val
            ps.kids[f(name)] = k
        put("inner", self.method_sink("conn_a"))
        put("method", Opaque(z3.Const("notif_method_name", OBJ)))
        put("subscribers", MM.m_arc_clone(ex, None, "", [root.kids["table"]], None, None))
        put("uniq_sub", self.key(self.conn_a, self.sids[i]))
        put("id", T.id_number(ex, z3.BitVec(f"sub{i}.call_id", 64)))
        put("subscribe", Opaque(z3.Const(f"sub{i}.oneshot_tx", OBJ)))
        put("permit", ex.read_node(root.kids["pending_permit"]))
        del root.kids["pending_permit"]
        return ps

    def coroutine_args(self, body, upvar):
        """(Pin<&mut State>, &mut Context) with State unresumed and holding `self`"""
        ex = self.ex
        state = Node(ex.ctx.fresh_name("coroutine"), None)
        d = Node(state.name + ".discr", "isize")
        d.val = z3.BitVecVal(0, 64)
        state.kids["discr"] = d
        k = Node(state.name + ".0", None)
        ex.write(k, upvar)
        state.kids[0] = k
        pin = Node(ex.ctx.fresh_name("pin"), "Pin")
        p0 = Node(pin.name + ".0", None)
        p0.val = Ptr(state)
        pin.kids[0] = p0
        return [pin, Opaque(z3.Const("task_context", OBJ))]

    def op_accept(self, w, i):
        """accept() on the pending sink of subscription i -> [(World, 'ok' | 'err')]; on ok the sink becomes handle 0 of sub i"""
        out = []
        for w2, p in self.run(w, self.b_accept, lambda root: self.coroutine_args(self.b_accept, self.pending_sink(root, i)), f"accept{i}"):
            ret = p.ret          # Poll<Result<SubscriptionSink, _>>
            pd = z3.simplify(self.ex.discr_of(ret))
            if not (z3.is_bv_value(pd) and pd.as_long() == 0):
                self.abnormal.append((f"accept{i}", "unsupported", f"poll returned discriminant {pd}"))
                continue
            res = self.ex.read_node(ret.kids[("Ready", 0)])
            rd = z3.simplify(self.ex.discr_of(res))
            if not z3.is_bv_value(rd):
                self.abnormal.append((f"accept{i}", "unsupported", "Result discriminant not concrete"))
                continue
            if rd.as_long() == 0:
                sink = self.ex.read_node(res.kids[("Ok", 0)])
                h = Node(f"world.h{i}.0", "SubscriptionSink")
                self.ex.write(h, sink)
                h.name = f"world.h{i}.0"
                w2.root.kids[("h", i, 0)] = h
                out.append((w2, "ok", p))
            else:
                out.append((w2, "err", p))
        return out

    def handles(self, root, i):
        return sorted(k for k in root.kids if isinstance(k, tuple) and k[0] == "h" and k[1] == i)

    def op_clone(self, w, i):
        out = []
        for w2, p in self.run(w, self.b_clone, lambda root: [Ptr(root.kids[self.handles(root, i)[0]])], f"clone{i}"):
            hs = self.handles(w2.root, i)
            nk = ("h", i, hs[-1][2] + 1)
            h = Node(f"world.h{i}.{nk[2]}", "SubscriptionSink")
            self.ex.write(h, p.ret)
            h.name = f"world.h{i}.{nk[2]}"
            w2.root.kids[nk] = h
            out.append(w2)
        return out

    def op_is_closed(self, w, i):
        """[(pc, value)] of SubscriptionSink::is_closed on every handle of sub i"""
        out = []
        for hk in self.handles(w.root, i):
            for w2, p in self.run(w, self.b_is_closed, lambda root, hk=hk: [Ptr(root.kids[hk])], f"is_closed{i}"):
                out.append((w2.pc, self.ex.read_node(p.ret) if isinstance(p.ret, Node) else p.ret))
        return out

    def op_drop_handle(self, w, i):
        """the handler drops its newest sink of subscription i: Rust drop glue on the real value"""
        root = self.ex.deep_clone(w.root)
        hk = self.handles(root, i)[-1]
        node = root.kids.pop(hk)
        root.kids[("dropping", 0)] = node
        w1 = World(root, list(w.pc), w.ref.copy(), w.trail + [f"drop{i}"])
        return self.glue([w1], ("dropping", 0), "SubscriptionSink", 0)

    def glue(self, worlds, slot, ty, depth):
        """drop glue of the value at root.kids[slot] (type ty) in every world: Drop::drop if the crate implements it, then the fields"""
        out = []
        b = _drop_impl(self.core, ty)
        staged = []
        if b is not None:
            for w in worlds:
                for w2, p in self.run(w, b, lambda root: [Ptr(root.kids[slot])], f"<{ty} as Drop>::drop"):
                    w2.trail = w.trail
                    staged.append(w2)
        else:
            staged = worlds
        for w in staged:
            ws = [w]
            node = w.root.kids[slot]
            keys = sorted((k for k in node.kids if k != "discr" and not (isinstance(k, tuple) and k[0] == "name")), key=str)
            for k in keys:
                nxt = []
                for wx in ws:
                    nxt += self.drop_field(wx, slot, k, depth)
                ws = nxt
            for wx in ws:
                wx.root.kids.pop(slot, None)
            out += ws
        return out

    def drop_field(self, w, slot, k, depth):
        ex = self.ex
        node = w.root.kids[slot].kids[k]
        v = ex.read_node(node)
        if not isinstance(v, Node):
            return [w]
        if isinstance(v.variant, tuple) and v.variant and v.variant[0] == "arc":
            box = v.kids["ptr"].val.node
            rc = box.variant[1] - 1
            box.variant = ("arcbox", rc)
            if rc > 0:
                return [w]
            inner = box.kids["v"]
            if isinstance(inner.variant, tuple) and inner.variant and inner.variant[0] == "permit":
                release_permit(ex, inner)
                return [w]
            nslot = ("dropping", depth + 1)
            w.root.kids[nslot] = inner
            return self.glue([w], nslot, inner.ty, depth + 1)
        if isinstance(v.variant, tuple) and v.variant and v.variant[0] == "permit":
            release_permit(ex, v)
            return [w]
        if isinstance(v.variant, tuple) and v.variant and v.variant[0] in ("map", "sem"):
            return [w]
        if v.kids:
            nslot = ("dropping", depth + 1)
            w.root.kids[nslot] = v
            return self.glue([w], nslot, v.ty if v.ty and _drop_impl(self.core, v.ty) is not None else None, depth + 1)
        return [w]

    def op_unsubscribe(self, w, conn, sid, label):
        """the unsubscribe callback with params [sid] on connection `conn` -> [(World, result)] (result: z3 Bool / python bool)"""
        out = []

        def mk(root):
            root.kids["unsub_param"] = Node("world.unsub_param", None)
            self.ex.write(root.kids["unsub_param"], T.subid_num(self.ex, sid))
            root.kids["unsub_param"].name = "world.unsub_param"
            clo = Node(self.ex.ctx.fresh_name("unsub_closure"), None)
            fi = P.capture_index(self.b_unsub, "subscribers")
            k = Node(clo.name + f".{fi}", None)
            self.ex.write(k, root.kids["table"])
            clo.kids[fi] = k
            cid = Node(self.ex.ctx.fresh_name("connid"), "ConnectionId")
            c0 = Node(cid.name + ".0", "usize")
            c0.val = conn
            cid.kids[0] = c0
            return [Ptr(clo), T.id_number(self.ex, z3.BitVec("unsub.call_id", 64)), Opaque(z3.Const("params", OBJ)), cid, z3.BitVec("max_response_size_usize", 64),
                    Opaque(z3.Const("extensions", OBJ))]
        for w2, p in self.run(w, self.b_unsub, mk, label):
            sv = [e for e in p.events if e.kind == "call" and re.search(r"ResponsePayload::<'_, bool>::success$", e.callee)]
            if len(sv) != 1:
                self.abnormal.append((label, "unsupported", f"{len(sv)} success payloads on a path"))
                continue
            v = sv[0].args[0]
            out.append((w2, v, p))
        return out

    # -- state predicates ------------------------------------------------------------------------------------------
    def table_keys(self, root):
        m = root.kids["table"].kids["ptr"].val.node.kids["v"]
        return [e.kids["k"] for _, e in MM.entries(m)]

    def in_table(self, root, conn, sid):
        probe = self.key(conn, sid)
        ks = self.table_keys(root)
        return z3.Or(*[MM.keq(self.ex, probe, k) for k in ks]) if ks else z3.BoolVal(False)

    def avail(self, root):
        sem = root.kids["bounded"]
        fi = R.field_index("BoundedSubscriptions", "guard")
        arc = self.ex.read_node(sem.kids[fi])
        return self.ex.read_node(arc.kids["ptr"].val.node.kids["v"].kids["avail"])

    def wsig(self, w):
        root = w.root
        m = root.kids["table"].kids["ptr"].val.node
        hs = tuple(sorted((k[1], k[2]) for k in root.kids if isinstance(k, tuple) and k[0] == "h"))
        return (w.ref.sig(), len(self.table_keys(root)), m.variant[1], hs, str(z3.simplify(self.avail(root))))


# ------------------------------------------------------------------------------------------------ history exploration
def _ops_of(trail):
    """native replay ops (c06_history) of a trail of driver labels"""
    ops = []
    for t in trail:
        m = re.match(r"^(accept_ok|clone|drop|unsub_own|close)(\d*)$", t)
        if not m:
            continue
        k, i = m.group(1), int(m.group(2) or 0)
        ops.append({"accept_ok": ["sub", 0], "clone": ["clone", i], "drop": ["dropone", i], "unsub_own": ["unsub", 0, i], "close": ["close", 0]}[k])
    return ops


def explore(d, max_subs, max_handles, depth, cap_max=3):
    ex = d.ex
    d.sids = [z3.BitVec(f"sub{i}.id", 64) for i in range(max_subs + 1)]
    distinct = [z3.Distinct(*(d.sids + [d.unknown_sid]))]
    viol = []         # (cond, kind, trail)
    reach = {"refused": [], "accepted": [], "unsub-true": [], "unsub-false": [], "clone": [], "drop-last": [], "closed": [], "accept-failed": []}
    stats = {"states": 0, "steps": 0}

    def sat(pc, c):
        return ex.feasible(list(pc) + distinct + [c])

    def bad(w, cond, kind):
        if sat(w.pc, cond):
            viol.append((z3.And(*(list(w.pc) + distinct + [cond])), kind, list(w.trail)))

    def check_state(w):
        ref, root = w.ref, w.root
        for i, s in enumerate(ref.subs):
            in_t = d.in_table(root, d.conn_a, d.sids[i])
            if not ref.closed:
                bad(w, in_t != z3.BoolVal(ref.active(i)), "table-exact")
            elif s["handles"] == 0:
                bad(w, in_t, "table-exact")
            if s["handles"] > 0:
                want = ref.closed or not ref.active(i)
                for pc, v in d.op_is_closed(w, i):
                    v = v if isinstance(v, z3.ExprRef) else z3.BoolVal(bool(v))
                    if sat(pc, v != z3.BoolVal(want)):
                        viol.append((z3.And(*(list(pc) + distinct + [v != z3.BoolVal(want)])), "is-closed", list(w.trail)))
        # slots: available = cap - (pending + subscriptions whose handler still holds a sink)
        bad(w, d.avail(root) != z3.ZeroExt(32, d.cap) - ref.used(), "slot-accounting")
        if not ref.closed:
            # probes that must answer false and change nothing: another connection's id, an unknown id
            for i, s in enumerate(ref.subs):
                for w2, v, _ in d.op_unsubscribe(w, d.conn_b, d.sids[i], f"unsub_foreign{i}"):
                    v = v if isinstance(v, z3.ExprRef) else z3.BoolVal(bool(v))
                    if sat(w2.pc, v):
                        viol.append((z3.And(*(list(w2.pc) + distinct + [v])), "unsubscribe-foreign", list(w.trail)))
            for w2, v, _ in d.op_unsubscribe(w, d.conn_a, d.unknown_sid, "unsub_unknown"):
                v = v if isinstance(v, z3.ExprRef) else z3.BoolVal(bool(v))
                if sat(w2.pc, v):
                    viol.append((z3.And(*(list(w2.pc) + distinct + [v])), "unsubscribe-unknown", list(w.trail)))

    def successors(w):
        ref = w.ref
        out = []
        n = len(ref.subs)
        if n < max_subs and not ref.closed:
            for w2, got in d.op_acquire(w):
                used = ref.used()
                free = z3.ULT(z3.BitVecVal(used, 32), d.cap)
                if got:
                    bad(w2, z3.Not(free), "cap-exceeded")
                    w2.ref.pending += 1
                    for w3, res, p in d.op_accept(w2, n):
                        w3.ref.pending -= 1
                        if res == "ok":
                            w3.ref.subs.append({"handles": 1, "unsub": False})
                            w3.trail = w.trail + [f"accept_ok{n}"]
                            reach["accepted"].append(z3.And(*w3.pc))
                        else:
                            w3.ref.subs.append({"handles": 0, "unsub": False})
                            w3.trail = w.trail + [f"accept_err{n}"]
                            reach["accept-failed"].append(z3.And(*w3.pc))
                        out.append(w3)
                else:
                    bad(w2, free, "refused-below-cap")
                    reach["refused"].append(z3.And(*w2.pc))
        for i, s in enumerate(ref.subs):
            if s["handles"] > 0 and s["handles"] < max_handles:
                for w2 in d.op_clone(w, i):
                    w2.ref.subs[i]["handles"] += 1
                    reach["clone"].append(z3.And(*w2.pc))
                    out.append(w2)
            if s["handles"] > 0:
                for w2 in d.op_drop_handle(w, i):
                    w2.ref.subs[i]["handles"] -= 1
                    if w2.ref.subs[i]["handles"] == 0:
                        reach["drop-last"].append(z3.And(*w2.pc))
                    out.append(w2)
            if not ref.closed and (s["handles"] > 0 or s["unsub"]):
                want = ref.active(i)
                for w2, v, _ in d.op_unsubscribe(w, d.conn_a, d.sids[i], f"unsub_own{i}"):
                    v = v if isinstance(v, z3.ExprRef) else z3.BoolVal(bool(v))
                    # the solver may make the params unparsable: then the answer is false whatever the state; only the parsed branch is the own-id unsubscribe
                    parsed = [c for c in w2.pc[len(w.pc):] if "params_parse_ok" in str(c) and not str(c).startswith("Not")]
                    if not parsed:
                        if sat(w2.pc, v):
                            viol.append((z3.And(*(list(w2.pc) + distinct + [v])), "unsubscribe-unparsable", list(w.trail)))
                        continue
                    if sat(w2.pc, v != z3.BoolVal(want)):
                        viol.append((z3.And(*(list(w2.pc) + distinct + [v != z3.BoolVal(want)])), "unsubscribe-own", list(w2.trail)))
                    reach["unsub-true" if want else "unsub-false"].append(z3.And(*w2.pc))
                    if want:
                        w2.ref.subs[i]["unsub"] = True
                        out.append(w2)
        if not ref.closed and ref.subs:
            root = ex.deep_clone(w.root)
            root.kids["closed"].val = z3.BoolVal(True)
            r2 = w.ref.copy()
            r2.closed = True
            w2 = World(root, list(w.pc), r2, w.trail + ["close"])
            reach["closed"].append(z3.And(*w2.pc) if w2.pc else z3.BoolVal(True))
            out.append(w2)
        return out

    frontier = d.initial(cap_max)
    seen = set()
    for w in frontier:
        check_state(w)
    for step in range(depth):
        nxt = []
        for w in frontier:
            for w2 in successors(w):
                stats["steps"] += 1
                sg = d.wsig(w2) + (tuple(sorted(str(c) for c in w2.pc if "cap" in str(c))),)
                if sg in seen:
                    continue
                seen.add(sg)
                check_state(w2)
                nxt.append(w2)
        frontier = nxt
        stats["states"] += len(nxt)
        if not frontier:
            break
    return viol, reach, stats


KIND_DESC = {
    "table-exact": "the subscriber table holds (conn, sub id) exactly while the subscription is active (not unsubscribed, handler still holds a sink); nothing is left once the handler is gone",
    "is-closed": "SubscriptionSink::is_closed() is true exactly when the subscription was unsubscribed or the connection is closed",
    "slot-accounting": "free slots = cap - (pending + subscriptions whose handler still holds a sink) after every step",
    "cap-exceeded": "a subscribe is admitted only while fewer than cap slots are in use",
    "refused-below-cap": "a subscribe is refused only when all cap slots are in use",
    "unsubscribe-own": "unsubscribe of an own id answers true exactly when that subscription is active",
    "unsubscribe-foreign": "unsubscribe of another connection's subscription id answers false and changes nothing",
    "unsubscribe-unknown": "unsubscribe of an unknown id answers false",
    "unsubscribe-unparsable": "unsubscribe with unparsable params answers false",
}


def history_obligations(core, tier):
    d = Drv(core)
    max_subs, max_handles, depth = (2, 2, 5) if tier == "quick" else (3, 3, 7)
    viol, reach, stats = explore(d, max_subs, max_handles, depth)
    bodies = sorted(d.ctx.encoded_bodies)
    out = []
    bounds = f"histories of <= {depth} steps over {{subscribe+accept (ok/failed), sink clone, sink drop, own unsubscribe, connection close}}, <= {max_subs} subscriptions, <= {max_handles} sinks each, cap in 0..3 (symbolic), probes after every step: foreign / unknown / unparsable unsubscribe, is_closed on every sink"
    if d.abnormal:
        out.append(R.Result(engine="mirsym", name="history:encoding", kind="state-machine", status="unsupported", detail=str(d.abnormal[:2])[:400], bodies=bodies))
        return out
    extra = {"models": MODEL_DOC, "states": stats["states"], "steps": stats["steps"]}
    by_kind = {}
    for c, k, tr in viol:
        by_kind.setdefault(k, []).append((c, tr))
    reach_all = [z3.Or(*v) if v else z3.BoolVal(False) for k, v in reach.items() if k != "accept-failed"]
    for kind, desc in KIND_DESC.items():
        vs = by_kind.get(kind, [])
        # shortest counterexample first
        vs.sort(key=lambda x: len(x[1]))
        q = z3.Or(*[c for c, _ in vs[:40]]) if vs else z3.BoolVal(False)
        r = R.decide(f"history:{kind}", "state-machine", q, reach_all, bodies=bodies, bounds=bounds, desc=desc, extra=extra, keydetail=kind)
        if r["status"] == "violated":
            tr = vs[0][1]
            ops = _ops_of(tr)
            subs = sum(1 for o in ops if o[0] == "sub")
            ops += [["query", i] for i in range(subs)] + [["unsub", 1, i] for i in range(subs)] + [["unsub_unknown", 0]] + [["unsub", 0, i] for i in range(subs)]
            m = r.get("model", {})
            cap = int(m.get("cap", "2")) if str(m.get("cap", "2")).isdigit() else 2
            r["key"] = f"mirsym:c06:{kind}:" + ">".join(re.sub(r"\d+$", "", t) for t in tr if re.match(r"^(accept_ok|accept_err|clone|drop|unsub_own|close)", t))
            r["replay"] = {"scenario": "c06_history", "args": {"cap": max(cap, subs if kind not in ("cap-exceeded", "refused-below-cap") else cap), "ops": ops}}
            if "close" in tr:
                # nothing can be asked over a closed socket: replay through the in-process API (every call is connection 0)
                ops = [[o[0]] + o[1:] for o in _ops_of(tr)] + [["unsub", 0, i] for i in range(subs)]
                r["replay"] = {"scenario": "c06_inprocess", "args": {"ops": ops}}
            if any(t.startswith("accept_err") for t in tr):
                # an accept() that fails cannot be provoked over a well-behaved socket: the in-process scenario gives the subscribe call up before the handler accepts
                r["replay"] = {"scenario": "c06_accept_fails", "args": {}}
            r["detail"] = f"history {tr}"
        out.append(r)
    return out


def _cap_sources(srv):
    """both assembly routes build the per-connection semaphore from max_subscriptions_per_connection"""
    out = []
    fi_cap = R.field_index("ServerConfig", "max_subscriptions_per_connection")
    fi_buf = R.field_index("ServerConfig", "message_buffer_capacity")
    fi_inner = R.field_index("TowerServiceNoHttp", "inner")
    fi_cfg = R.field_index("ServiceData", "server_cfg")
    routes = [
        ("ws::connect", r"^fn connect::\{closure#0\}\(_1: Pin<&mut \{async fn body of connect<", "low_level", "capture"),
        ("TowerServiceNoHttp::call", r"^fn server::<impl at server/src/server\.rs:[\d: ]+>::call\(_1: &mut TowerServiceNoHttp<", "server", "self"),
    ]
    for label, rx, entry, how in routes:
        cands = [b for b in R.find_body(srv, rx, all_=True) if P.syntactic_sites(b, r"BoundedSubscriptions::new$")]
        if len(cands) != 1:
            out.append(R.Result(engine="mirsym", name=f"prov:{label}:BoundedSubscriptions::new", kind="provenance", status="site-missing",
                                detail=f"{len(cands)} candidate bodies - spec needs update", bodies=[]))
            continue
        b = cands[0]
        if how == "capture":
            cap = P.capture_index(b, ["server_cfg"])
            capv = z3.BitVec(f"arg1.0.*.{cap}.{fi_cap}", 32)
        else:
            capv = z3.BitVec(f"arg1.*.{fi_inner}.{fi_cfg}.{fi_cap}", 32)
        r = P.site_obligation(
            f"prov:{label}:BoundedSubscriptions::new", srv, b, r"BoundedSubscriptions::new$", 0, capv,
            desc=f"{label}: the per-connection subscription semaphore is sized by server_cfg.max_subscriptions_per_connection (no other field, no arithmetic)",
            bounds="all u32 values of every configuration field; every path / resume point", keydetail="source!=max_subscriptions_per_connection", max_paths=6000)
        if r["status"] == "violated":
            # native: cap 2 (the scenario sets the other numeric fields to something else): the third subscribe must be refused
            r["replay"] = {"scenario": "c06_history", "args": {"cap": 2, "entry": entry, "ops": [["sub", 0], ["sub", 0], ["sub", 0]]}}
        out.append(r)
    return out


def _service_branch(srv):
    """RpcService::call, subscription / unsubscription callbacks: permit-or-refusal, the permit travels with the call, unsubscribe bypasses the cap"""
    b = R.find_body(srv, r"^fn rpc::<impl at server/src/middleware/rpc\.rs:[\d: ]+>::call\(_1: &RpcService, _2: jsonrpsee_types::Request<'_>\)")
    fi_id = R.field_index("Request", "id")
    fi_conn = R.field_index("RpcService", "conn_id")
    kinds = R.source_tables()["enums"]["MethodCallback"]
    k_sub, k_unsub = kinds.index("Subscription"), kinds.index("Unsubscription")
    kind = z3.BitVec("callback.kind", 64)
    got = z3.Bool("acquire.some")

    def m_lookup(ex, st, callee, args, dty, site):
        o = Node(ex.ctx.fresh_name("lookup"), "Option<(&str,&MethodCallback)>")
        d = Node(o.name + ".discr", "isize")
        d.val = z3.BitVecVal(1, 64)
        o.kids["discr"] = d
        tup = Node(o.name + ".Some:0", None)
        nm, cbp = Node(tup.name + ".0", None), Node(tup.name + ".1", None)
        nm.val = Opaque(z3.Const("registered_name", OBJ))
        cb = Node("callback", "MethodCallback")
        cd = Node("callback.discr", "isize")
        cd.val = kind
        cb.kids["discr"] = cd
        cbp.val = Ptr(cb)
        tup.kids[0], tup.kids[1] = nm, cbp
        o.kids[("Some", 0)] = tup
        return o

    def m_acquire(ex, st, callee, args, dty, site):
        o = Node(ex.ctx.fresh_name("acquired"), "Option<OwnedSemaphorePermit>")
        d = Node(o.name + ".discr", "isize")
        d.val = z3.If(got, z3.BitVecVal(1, 64), z3.BitVecVal(0, 64))
        o.kids["discr"] = d
        k = Node(o.name + ".Some:0", None)
        k.val = Opaque(z3.Const("the_acquired_permit", OBJ))
        o.kids[("Some", 0)] = k
        return o
    ctx = P.make_ctx(srv, extra_models=[(r"^Methods::method_with_name$", m_lookup), (r"^BoundedSubscriptions::acquire$", m_acquire)] + ERROBJ_MODELS + SQ.TRY_MODELS + list(M.TRACING_MODELS), max_paths=8000)
    ctx.inline = []
    ex = Executor(ctx)
    ps = ex.run(b, pc0=[z3.Or(kind == k_sub, kind == k_unsub)])
    bad = [(p.kind, p.detail) for p in ps if p.kind in ("unsupported", "limit", "unwound")]
    viol, reach = [], {"admitted": [], "refused": [], "unsubscribe": []}
    fi_permit = R.field_index("SubscriptionState", "subscription_permit")
    fi_sconn = R.field_index("SubscriptionState", "conn_id")
    for p in ps:
        if p.kind != "return":
            continue
        pc = p.cond()
        evs = [e for e in p.events if e.kind == "call"]
        cbs = [e for e in evs if re.search(r"as Fn<\(.*\)>>::call$", e.callee) and "dyn " in e.callee]
        errs = [e for e in evs if e.callee.startswith("MethodResponse::error")]
        acq = [e for e in evs if e.callee == "BoundedSubscriptions::acquire"]
        is_sub = not ex.feasible(list(p.pc) + [kind != k_sub])
        if len(cbs) > 1:
            viol.append(pc)
        if is_sub:
            if cbs:
                reach["admitted"].append(pc)
                viol.append(z3.And(pc, z3.Not(got)))          # a subscription handler only runs holding a permit
                tup = cbs[0].args[1]
                fields = []
                i = 0
                while isinstance(tup, Node) and i in tup.kids:
                    fields.append(ex.read_node(tup.kids[i]))
                    i += 1
                state = next((f for f in fields if isinstance(f, Node) and fi_permit in f.kids and fi_sconn in f.kids), None)
                if state is None:
                    viol.append(pc)
                else:
                    if "the_acquired_permit" not in str(to_term(ex.read_node(state.kids[fi_permit]))):
                        viol.append(pc)                            # the acquired permit itself travels with the call
                    ct = str(to_term(MM.value_of(ex, ex.read_node(state.kids[fi_sconn]))))
                    cn = ex.read_node(state.kids[fi_sconn])
                    if f"arg1.*.{fi_conn}" not in ct and not (isinstance(cn, Node) and cn.name.startswith(f"arg1.*.{fi_conn}")):
                        viol.append(pc)                            # ... under this connection's id
            elif errs and acq:
                reach["refused"].append(pc)
                viol.append(z3.And(pc, got))                   # refused only when no permit was available
                # the error object is reject_too_many_subscriptions(..) (whose code is decided by kernel:reject_too_many_subscriptions)
                if "reject_too_many_subscriptions" not in str(to_term(errs[0].args[1])):
                    viol.append(pc)
                idt = MM.value_of(ex, errs[0].args[0])
                if f"arg2.{fi_id}" not in str(to_term(idt)) and not (isinstance(idt, Node) and idt.name == f"arg2.{fi_id}"):
                    viol.append(pc)
            elif not errs:
                viol.append(pc)
        else:
            if acq:
                viol.append(pc)                                # unsubscribe never touches the semaphore
            if cbs:
                reach["unsubscribe"].append(pc)
                tup = cbs[0].args[1]
                f2 = ex.read_node(tup.kids[2]) if isinstance(tup, Node) and 2 in tup.kids else None
                ct = str(to_term(MM.value_of(ex, f2))) if f2 is not None else ""
                if f"arg1.*.{fi_conn}" not in ct and not (isinstance(f2, Node) and f2.name.startswith(f"arg1.*.{fi_conn}")):
                    viol.append(pc)                            # the unsubscribe callback gets this connection's id
            elif not errs:
                viol.append(pc)
    return b, viol, reach, bad


def _closing_task_leaves_table_alone(core):
    """'a subscription stays active as long as ... the handler still holds a sink for it': the per-subscription task that waits for the handler's closing value is not
    a second owner of the subscription - it neither holds nor touches the subscriber table (only unsubscribe and the last sink's drop remove an entry)"""
    from . import C04
    b, ex, paths, joined, close_kind = C04._closing_task_paths(core)
    bad = [(p.kind, p.detail) for p in paths if p.kind in ("unsupported", "limit", "unwound")]
    viol, reach = [], []
    table_rx = r"HashMap::<.*>::(remove|insert|clear|retain|drain)|Mutex<.*>::lock|lock_api::Mutex|Subscribers|FxHashMap"
    caps = "\n".join(f"{k} {v}" for k, v in b.debug.items())
    holds_table = re.search(r"subscribers|Subscribers|Mutex<", caps) is not None
    for p in paths:
        if p.kind not in ("return", "panic"):
            continue
        reach.append(p.cond())
        touched = [e.callee for e in p.events if e.kind in ("call", "inline") and re.search(table_rx, e.callee)]
        if touched or holds_table:
            viol.append(p.cond())
    reach_l = R.live_reach(viol, reach, bad)
    if bad or not reach_l[0]:
        return R.Result(engine="mirsym", name="order:closing-task:subscriber-table-untouched", kind="order", status="unsupported" if bad else "vacuous", detail=str(bad[:1])[:300], bodies=[b.name])
    return R.decide("order:closing-task:subscriber-table-untouched", "order", z3.Or(*viol) if viol else z3.BoolVal(False), [z3.Or(*reach_l[0])], bodies=[b.name],
                    desc="the task that waits for a subscription handler's closing value neither captures nor touches the subscriber table: a handler that returned while a sink it handed on "
                         "is still alive leaves the subscription active",
                    bounds="every path and resume point of the task; every outcome of the handler / acceptance join", keydetail="closing-task-table",
                    replay=dict(scenario="c06_sink_handed_over", vars={}, fixed={}, region=z3.BoolVal(True)))


def _connection_ids(srv):
    """'another connection's id answers false' rests on every connection having its own id (the table key is (connection id, subscription id)):
    Server::start hands consecutive accepted connections consecutive ids; TowerServiceBuilder::build takes each service's id from the builder's shared counter
    with fetch_add(1) - a clone of the builder therefore never builds two services with the same id"""
    from . import C10
    res = []
    b, ex, paths, closed = C10._accept_paths(srv)
    bad = [(p.kind, p.detail) for p in paths if p.kind in ("unsupported", "limit")]
    fi = R.field_index("ProcessConnection", "conn_id")
    viol, reach = [], []
    for p in paths:
        seq = [e for e in p.events if e.kind == "call" and re.search(r"^process_connection::<", e.callee)]
        ids = []
        for e in seq:
            prm = MM.value_of(ex, e.args[0])
            ids.append(ex.read_node(prm.kids[fi]) if isinstance(prm, Node) and fi in prm.kids else None)
        if len(ids) >= 2:
            reach.append(p.cond())
            for a_, b_ in zip(ids, ids[1:]):
                if a_ is None or b_ is None or not isinstance(a_, z3.BitVecRef) or not isinstance(b_, z3.BitVecRef):
                    viol.append(p.cond())
                else:
                    viol.append(z3.And(p.cond(), b_ != a_ + 1))
    reach_l = R.live_reach(viol, reach, bad)
    if bad or not reach_l[0]:
        res.append(R.Result(engine="mirsym", name="order:Server::start_inner:connection-ids", kind="order", status="unsupported" if bad else "vacuous", detail=str(bad[:1])[:300], bodies=[b.name]))
    else:
        res.append(R.decide("order:Server::start_inner:connection-ids", "order", z3.Or(*viol) if viol else z3.BoolVal(False), [z3.Or(*reach_l[0])], bodies=[b.name],
                            desc="consecutive accepted connections are given consecutive (hence different) connection ids", bounds="two and three accepts in a row from every resume point (wrap-around after 2^32 connections is outside)",
                            keydetail="connection-ids", replay=dict(scenario="c06_history", vars={}, fixed={"cap": 2, "ops": [["sub", 1], ["close", 0], ["reopen", 0], ["unsub", 0, 0], ["unsub", 1, 0]]}, region=z3.BoolVal(True))))
    b = R.find_body(srv, r"^fn server::<impl at server/src/server\.rs:[\d: ]+>::build\(_1: TowerServiceBuilder<RpcMiddleware, HttpMiddleware>, _2: impl Into<Methods>, _3: StopHandle\)")
    ctx = P.make_ctx(srv, extra_models=list(SQ.TRY_MODELS))
    ctx.inline = []
    ex = Executor(ctx)
    fi_cnt = R.field_index("TowerServiceBuilder", "conn_id")
    fi_inner, fi_id = R.field_index("TowerServiceNoHttp", "inner"), R.field_index("ServiceData", "conn_id")
    fi_rm = R.field_index("TowerService", "rpc_middleware")
    viol, reach, bad = [], [], []
    for p in ex.run(b):
        if p.kind != "return":
            bad.append((p.kind, p.detail))
            continue
        reach.append(p.cond())
        adds = [e for e in p.events if e.kind == "call" and re.search(r"^Atomic::<u32>::fetch_add$", e.callee)]
        good = len(adds) == 1 and f"ptr:arg1.{fi_cnt}" in re.sub(r"\s+", " ", str(to_term(adds[0].args[0]))) and str(z3.simplify(adds[0].args[1])) == "1" if adds and isinstance(adds[0].args[1], z3.ExprRef) else False
        if good:
            try:
                sd = ex.read_node(ex.read_node(ex.read_node(p.ret.kids[fi_rm]).kids[fi_inner]).kids[fi_id])
                good = str(to_term(sd)).startswith("call:Atomic::<u32>::fetch_add")
            except (KeyError, AttributeError):
                good = False
        if not good:
            viol.append(p.cond())
    reach_l = R.live_reach(viol, reach, bad)
    if bad or not reach_l[0]:
        res.append(R.Result(engine="mirsym", name="prov:TowerServiceBuilder::build:connection-id", kind="provenance", status="unsupported" if bad else "vacuous", detail=str(bad[:1])[:300], bodies=[b.name]))
    else:
        res.append(R.decide("prov:TowerServiceBuilder::build:connection-id", "provenance", z3.Or(*viol) if viol else z3.BoolVal(False), [z3.Or(*reach_l[0])], bodies=[b.name],
                            desc="TowerServiceBuilder::build gives the service the value fetch_add(1) returned on the builder's shared connection counter: every build - also from clones of one "
                                 "builder - consumes an id, so no two connections share one", bounds="every path of build()", keydetail="service-connection-id",
                            replay=dict(scenario="c06_history", vars={}, fixed={"cap": 2, "entry": "service_builder", "ops": [["sub", 0], ["unsub", 1, 0], ["unsub", 0, 0]]}, region=z3.BoolVal(True))))
    return res


def _refusal_code(types):
    """reject_too_many_subscriptions builds the error object with TOO_MANY_SUBSCRIPTIONS_CODE (-32006)"""
    b = R.find_body(types, r"^fn (\w+::)*reject_too_many_subscriptions\(_1: u32\)")
    ctx = P.make_ctx(types, extra_models=[])
    ex = Executor(ctx)
    ps = ex.run(b)
    bad = [(p.kind, p.detail) for p in ps if p.kind != "return"]
    want = R.source_tables()["consts"]["TOO_MANY_SUBSCRIPTIONS_CODE"][0]
    viol, reach = [], []
    for p in ps:
        if p.kind != "return":
            continue
        ow = [e for e in p.events if e.kind == "call" and re.search(r"ErrorObject::<'_>::owned::<", e.callee)]
        reach.append(p.cond())
        if len(ow) != 1 or not isinstance(ow[0].args[0], z3.BitVecRef):
            viol.append(p.cond())
            continue
        viol.append(z3.And(p.cond(), ow[0].args[0] != z3.BitVecVal(want & 0xFFFFFFFF, 32)))
        if want != -32006:
            viol.append(p.cond())
    return b, viol, reach, bad


def _subscribe_closure(core):
    """the subscribe callback builds the pending sink from what it was given: key (this connection, a fresh id), this call's id, the connection's
    sink, the method's subscriber table, and the permit it received"""
    b = R.find_body(core, r"^fn rpc_module::<impl at core/src/server/rpc_module\.rs:[\d: ]+>::register_subscription::\{closure#0\}\(_1: &\{closure@")
    ctx = P.make_ctx(core, extra_models=list(M.TRACING_MODELS) + [(r"::into_owned$", M.m_identity)], max_paths=2000)
    ctx.inline = []
    ex = Executor(ctx)
    ps = ex.run(b)
    bad = [(p.kind, p.detail) for p in ps if p.kind in ("unsupported", "limit", "unwound")]
    f = lambda n: R.field_index("PendingSubscriptionSink", n)
    fi_permit = R.field_index("SubscriptionState", "subscription_permit")
    fi_sconn = R.field_index("SubscriptionState", "conn_id")
    cap_subs = P.capture_index(b, "subscribers")
    viol, reach = [], []
    for p in ps:
        if p.kind != "return":
            continue
        pc = p.cond()
        cbs = [e for e in p.events if e.kind == "call" and re.search(r"^<F as Fn<\(Params<'_>, PendingSubscriptionSink, Arc<Context>, Extensions\)>>::call$", e.callee)]
        if len(cbs) != 1:
            viol.append(pc)
            continue
        reach.append(pc)
        tup = cbs[0].args[1]
        sink = ex.read_node(tup.kids[1]) if isinstance(tup, Node) and 1 in tup.kids else None
        if not isinstance(sink, Node):
            viol.append(pc)
            continue

        def txt(v):
            v = MM.value_of(ex, v)
            return (v.name + " " if isinstance(v, Node) else "") + str(to_term(v))
        key = ex.read_node(sink.kids[f("uniq_sub")])
        checks = [
            (f"arg5.{fi_permit}" in txt(ex.read_node(sink.kids[f("permit")])), "permit"),
            ("arg4" in txt(ex.read_node(sink.kids[f("inner")])), "inner"),
            ("arg2" in txt(ex.read_node(sink.kids[f("id")])), "id"),
            (f"arg1.*.{cap_subs}" in txt(ex.read_node(sink.kids[f("subscribers")])), "subscribers"),
            (isinstance(key, Node) and f"arg5.{fi_sconn}" in txt(ex.read_node(key.kids[R.field_index("SubscriptionKey", "conn_id")])), "key.conn_id"),
            (isinstance(key, Node) and "next_id" in txt(ex.read_node(key.kids[R.field_index("SubscriptionKey", "sub_id")])), "key.sub_id"),
        ]
        if not all(c for c, _ in checks):
            viol.append(pc)
            VALIDATION.setdefault("subscribe_closure_failed", [n for c, n in checks if not c])
    return b, viol, reach, bad



def _native_battery(out, scenario, vectors, what):
    """validation, not the deciding step: the native scenario (real crates, oracle written from the property text) on fixed vectors must report nothing
    when every obligation is discharged; a disagreement means an obligation or the oracle is wrong => undecided"""
    val = R.validate_encoding(scenario, vectors, lambda v: {}, [])
    VALIDATION[what] = val
    if val.get("native_violations") and all(r.get("status") == "discharged" for r in out):
        out.append(R.Result(engine="mirsym", name="validation:" + what, kind="validation", status="native-battery-disagrees",
                            detail=f"{val['native_violations']} native violation(s) on the validation vectors although every obligation is discharged", bodies=[]))
    return out


def obligations(tier, seed):
    core = R.bodies("core")
    srv = R.bodies("server")
    out = history_obligations(core, tier)
    out += _cap_sources(srv)
    b, viol, reach, bad = _service_branch(srv)
    reach_l = R.live_reach(viol, reach, bad)
    if bad or not all(reach_l):
        out.append(R.Result(engine="mirsym", name="branch:RpcService::call:subscriptions", kind="provenance", status="unsupported" if bad else "vacuous",
                            detail=str(bad[:1] or {k: len(v) for k, v in reach.items()})[:300], bodies=[b.name]))
    else:
        q = [v if isinstance(v, z3.ExprRef) else z3.BoolVal(bool(v)) for v in viol]
        out.append(R.decide("branch:RpcService::call:subscriptions", "provenance", z3.Or(*q) if q else z3.BoolVal(False), [z3.Or(*v) for v in reach_l], bodies=[b.name],
                            desc="a subscription handler runs iff a permit was acquired, and receives that very permit under this connection's id; otherwise the call is answered "
                                 "-32006 with its own id and no handler runs; unsubscribe never touches the semaphore and is called with this connection's id",
                            bounds="callback kind Subscription / Unsubscription; acquire Some / None; configuration with and without subscriptions", keydetail="service-branch",
                            replay=dict(scenario="c06_history", vars={}, fixed={"cap": 1, "ops": [["sub", 0], ["sub", 0], ["unsub", 0, 0], ["finish", 0], ["sub", 0], ["unsub", 1, 1]]}, region=z3.BoolVal(True))))
    b, viol, reach, bad = _refusal_code(R.bodies("types"))
    reach_l = R.live_reach(viol, reach, bad)
    if bad or not reach_l[0]:
        out.append(R.Result(engine="mirsym", name="kernel:reject_too_many_subscriptions", kind="kernel", status="unsupported", detail=str(bad[:1])[:300], bodies=[b.name]))
    else:
        out.append(R.decide("kernel:reject_too_many_subscriptions:code", "kernel", z3.Or(*viol), [z3.Or(*reach_l[0])], bodies=[b.name],
                            desc="the refusal error object carries code -32006 for every limit value", bounds="all u32 limits", keydetail="refusal-code",
                            replay=dict(scenario="c06_history", vars={}, fixed={"cap": 1, "ops": [["sub", 0], ["sub", 0]]}, region=z3.BoolVal(True))))
    b, viol, reach, bad = _subscribe_closure(core)
    reach_l = R.live_reach(viol, reach, bad)
    if bad or not reach_l[0]:
        out.append(R.Result(engine="mirsym", name="prov:subscribe-callback:pending-sink", kind="provenance", status="unsupported" if bad else "vacuous", detail=str(bad[:1])[:300], bodies=[b.name]))
    else:
        q = [v if isinstance(v, z3.ExprRef) else z3.BoolVal(bool(v)) for v in viol]
        out.append(R.decide("prov:subscribe-callback:pending-sink", "provenance", z3.Or(*q) if q else z3.BoolVal(False), [z3.Or(*reach_l[0])], bodies=[b.name],
                            desc="the pending sink handed to the user's handler holds: key (the caller's connection id, a fresh id from the id provider), the call's id, the connection's "
                                 "sink, the method's subscriber table (the one the unsubscribe callback uses) and the permit received with the call",
                            bounds="every path of the subscribe callback", keydetail="pending-sink-fields",
                            replay=dict(scenario="c06_history", vars={}, fixed={"cap": 1, "ops": [["sub", 0], ["sub", 0], ["unsub", 0, 0], ["finish", 0], ["sub", 0], ["unsub", 1, 1]]}, region=z3.BoolVal(True))))
    hist = [{"cap": 2, "ops": [["sub", 0], ["sub", 0], ["sub", 0], ["query", 0], ["unsub", 1, 0], ["unsub", 0, 0], ["unsub", 0, 0], ["query", 0], ["finish", 0], ["sub", 0], ["sub_reject", 0], ["unsub_unknown", 0]]},
            {"cap": 2, "ops": [["sub", 0], ["clone", 0], ["dropone", 0], ["query", 0], ["unsub", 0, 0], ["query", 0], ["dropone", 0], ["sub", 0], ["sub", 0]]},
            {"cap": 1, "entry": "low_level", "ops": [["sub", 0], ["sub", 1], ["sub", 0], ["finish", 0], ["sub", 0]]}]
    out += _connection_ids(R.bodies("server"))
    out.append(_closing_task_leaves_table_alone(core))
    # "however the server is assembled": the configured value survives every builder step
    from .cfgframe import journey_obligations as _journey
    _extra = _journey(R.bodies("server"), "max_subscriptions_per_connection", "max_subscriptions_per_connection", scenario="cfg_journey", fixed={"field": "max_subscriptions_per_connection"})
    out += _extra
    return _native_battery(out, "c06_history", hist, "native-histories")
