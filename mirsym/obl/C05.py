"""C05 - a client subscription gets exactly its own notifications; close / lag / unsubscribe bookkeeping; arrays vs singles."""
import itertools, re
import z3
from .. import run as R, clienttable as T, mapmodels as MM, listmodels as LM, prov as P, models as M
from ..sym import Executor, Node, Ptr, Opaque, to_term, OBJ, Fork
from .C18 import Drv, classify
from .C03 import _prestates

VALIDATION = {}


def _sub_entry(d, t, sid):
    """(subscription id key node, sink term) of the active subscription registered under request id Number(sid)"""
    key = d.sub_key_for(t.mgr, sid)
    reqs = t.mgr.kids.get(R.field_index("RequestManager", "requests"))
    sink = None
    for _, e in MM.entries(reqs):
        k = d.ex.read_node(e.kids["k"])
        if isinstance(k, Node) and ("Number", 0) in k.kids and d.ex.read_node(k.kids[("Number", 0)]).eq(sid):
            v = d.ex.read_node(e.kids["v"])
            tup = v.kids.get(("Subscription", 0))
            if tup is not None:
                sender = tup.kids.get(1)
                inner = sender.kids.get(0) if sender is not None else None
                sink = to_term(d.ex.read_node(inner)) if inner is not None else None
    return key, sink


def _notif(ex, name, params_struct, sub_key, payload_field, payload):
    fi_params = R.field_index("Notification", "params")
    n = Node(name, "Notification")
    p = Node(f"{name}.{fi_params}", params_struct)
    fs = R.field_index(params_struct, "subscription")
    k = Node(f"{p.name}.{fs}", None)
    ex.write(k, sub_key)
    p.kids[fs] = k
    fr = R.field_index(params_struct, payload_field)
    r = Node(f"{p.name}.{fr}", None)
    r.val = payload
    p.kids[fr] = r
    n.kids[fi_params] = p
    return n


def _push_step(core, kinds, target):
    """one subscription notification for `target` (index of an active sub in kinds, or 'unknown') from the table built by `kinds`"""
    d, tables, items = _prestates(core, kinds)
    ex = d.ex
    out_viol, reach = [], {"delivered": [], "full": [], "closed": [], "unknown": []}
    payload = Opaque(z3.Const("notif.payload", OBJ))
    for t in tables:
        subs = [(i, it) + _sub_entry(d, t, it["id"]) for i, it in enumerate(items) if it["kind"] == "active_sub"]
        if target == "unknown":
            key = T.mk_enum(ex, "SubscriptionId", "Str", [Opaque(z3.Const("unknown.subid", OBJ))])
            tgt_sink = None
        else:
            cand = [s for s in subs if s[0] == target]
            if not cand or cand[0][2] is None:
                continue
            key, tgt_sink = cand[0][2].clone(), cand[0][3]
        other_sinks = [s[3] for s in subs if s[3] is not None and (tgt_sink is None or not s[3].eq(tgt_sink))]
        nxt = d.step([t], d.b_subresp, lambda e, key=key: [_notif(e, "notif", "SubscriptionPayload", key, "result", payload)], "push")
        for t2, p in nxt:
            pc = z3.And(*t2.pc) if t2.pc else z3.BoolVal(True)
            sends = [e for e in p.events if e.kind == "call" and "::try_send" in e.callee]
            retd = z3.simplify(ex.discr_of(p.ret))
            some = z3.is_bv_value(retd) and retd.as_long() == 1
            if target == "unknown":
                # an id no subscription owns is equal to none of the live keys under this path's condition? the solver decides:
                # if it may equal a live key the path is a "hit" and is checked by the hit rules below
                if not sends:
                    reach["unknown"].append(pc)
                    if some:
                        out_viol.append(pc)
                    continue
            if len(sends) != 1:
                out_viol.append(pc)
                continue
            s_term = to_term(MM.value_of(ex, sends[0].args[0]))
            # which sink was used must be the one registered for the key the notification carries
            hit_sinks = [s[3] for s in subs if s[3] is not None and s[3].eq(s_term)]
            if not hit_sinks:
                out_viol.append(pc)
                continue
            owner = [s for s in subs if s[3] is not None and s[3].eq(s_term)][0]
            same_key = MM.keq(ex, key, owner[2])
            out_viol.append(z3.And(pc, z3.Not(same_key)))            # never another subscription's channel
            if not to_term(sends[0].args[1]).eq(to_term(payload)):
                out_viol.append(pc)                                    # exactly the payload that arrived
            # outcome: delivered -> None ; Full or Closed -> Some(this subscription id)
            o = [c for c in p.pc if "try_send_outcome" in str(c)]
            res = sends[0].ret
            od = ex.discr_of(res)
            delivered = not ex.feasible(list(p.pc) + [od != 0])
            if delivered:
                reach["delivered"].append(pc)
                if some:
                    out_viol.append(pc)
            else:
                ed = ex.discr_of(ex.child(res, ("Err", 0), None))
                full = not ex.feasible(list(p.pc) + [ed != 0])
                reach["full" if full else "closed"].append(pc)
                if not some:
                    out_viol.append(pc)
                else:
                    rid = ex.read_node(ex.child(p.ret, ("Some", 0), None))
                    out_viol.append(z3.And(pc, z3.Not(MM.keq(ex, rid, key))))
                lag = [e for e in p.events if e.kind in ("call", "inline") and "set_lagged" in e.callee]
                if full != bool(lag):
                    out_viol.append(pc)                                # lagged flag set iff the buffer was full
    ab = [(p.kind, p.detail) for _, p, _ in d.abnormal if p.kind != "panic"]
    panics = [z3.And(*p.pc) for _, p, _ in d.abnormal if p.kind == "panic"]
    return d, out_viol, reach, ab, panics


def _notification_step(core):
    """process_notification: a method notification reaches exactly the handler registered for that method; a closed or lagging handler is removed"""
    d = Drv(core)
    ex = d.ex
    tables = T.new_tables(ex, core)
    m1 = Opaque(z3.Const("method.registered", OBJ))
    tables = [t for t, _ in d.step(tables, d.b_notif_ins, lambda e: [m1, _sender(e, "handler1")], "register")]
    b_proc = R.find_body(core, r"^fn process_notification\(_1: &mut RequestManager")
    viol, reach = [], {"hit-delivered": [], "hit-gone": [], "miss": []}
    mX = Opaque(z3.Const("method.incoming", OBJ))
    fi_m = R.field_index("Notification", "method")

    def mk(e):
        n = Node("mnotif", "Notification")
        k = Node(f"mnotif.{fi_m}", None)
        k.val = mX
        n.kids[fi_m] = k
        return [n]
    for t, p in d.step(tables, b_proc, mk, "notify"):
        pc = z3.And(*t.pc) if t.pc else z3.BoolVal(True)
        sends = [e for e in p.events if e.kind == "call" and "::try_send" in e.callee]
        nh = T.sizes(ex, t.mgr)[3]
        same = to_term(mX) == to_term(m1)
        if not sends:
            reach["miss"].append(pc)
            viol.append(z3.And(pc, same))                  # a registered method's notification is never dropped silently
            if nh != 1:
                viol.append(pc)
            continue
        viol.append(z3.And(pc, z3.Not(same)))              # delivered only to the handler of that method
        od = ex.discr_of(sends[0].ret)
        delivered = not ex.feasible(list(p.pc) + [od != 0])
        if delivered:
            reach["hit-delivered"].append(pc)
            if nh != 1:
                viol.append(pc)
        else:
            reach["hit-gone"].append(pc)
            if nh != 0:
                viol.append(pc)                            # closed or lagging handler is unregistered
    ab = [(p.kind, p.detail) for _, p, _ in d.abnormal if p.kind != "panic"]
    return d, viol, reach, ab


def _sender(ex, name):
    a = Node(name, "SubscriptionSender")
    inner = Node(name + ".0", None)
    inner.val = Opaque(z3.Const("tx:" + name, OBJ))
    a.kids[0] = inner
    return a


def _unsubscribe_once(core):
    """build_unsubscribe_message: names the subscription id and the reserved request id; a second one for the same subscription yields nothing"""
    d, tables, items = _prestates(core, ("active_sub",))
    ex = d.ex
    sid, uid = items[0]["id"], items[0]["uid"]
    viol, reach = [], []
    fi_id = R.field_index("RequestMessage", "id")
    for t in tables:
        key = d.sub_key_for(t.mgr, sid)
        first = d.step([t], d.b_unsub, lambda e: [T.id_number(e, sid), key.clone()], "unsub1")
        for t1, p1 in first:
            pc = z3.And(*t1.pc) if t1.pc else z3.BoolVal(True)
            reach.append(pc)
            d1 = z3.simplify(ex.discr_of(p1.ret))
            if not (z3.is_bv_value(d1) and d1.as_long() == 1):
                viol.append(pc)                              # an active subscription always yields an unsubscribe request
                continue
            msg = ex.child(p1.ret, ("Some", 0), None)
            mid = ex.read_node(ex.child(msg, fi_id, None))
            viol.append(z3.And(pc, z3.Not(MM.keq(ex, mid, T.id_number(ex, uid)))))       # under the reserved request id
            ins = [e for e in p1.events if e.kind in ("call", "inline") and re.search(r"ArrayParams::insert", e.callee)]
            if len(ins) != 1 or not to_term(MM.value_of(ex, ins[0].args[1])).eq(to_term(MM.value_of(ex, key))):
                viol.append(pc)                              # naming exactly that subscription id
            second = d.step([t1], d.b_unsub, lambda e: [T.id_number(e, sid), key.clone()], "unsub2")
            for t2, p2 in second:
                d2 = z3.simplify(ex.discr_of(p2.ret))
                if not (z3.is_bv_value(d2) and d2.as_long() == 0):
                    viol.append(z3.And(*t2.pc))              # never a second unsubscribe for the same subscription
    ab = [(p.kind, p.detail) for _, p, _ in d.abnormal if p.kind != "panic"]
    return d, viol, reach, ab


def _array_branch(core, k):
    """handle_recv_message on an array of k elements: every element is classified from its own text and none is skipped"""
    b = R.find_body(core, r"^fn handle_recv_message\(_1: &\[u8\], _2: &ThreadSafeRequestManager")
    elems = [Opaque(z3.Const(f"elem{j}", OBJ)) for j in range(k)]

    def m_from_slice_vec(ex, st, callee, args, dty, site):
        lst = LM.new_list(ex, elems, name="raw_responses")
        return ex.mk_variant("Result", 0, "Ok", lst)

    def m_find(ex, st, callee, args, dty, site):
        byte = Node(ex.ctx.fresh_name("first_byte"), "u8")
        byte.val = z3.BitVecVal(ord("["), 8)
        return ex.mk_variant("Option", 1, "Some", Ptr(byte))

    def m_rawget(ex, st, callee, args, dty, site):
        return Opaque(z3.Const("text:" + str(to_term(args[0])), OBJ))

    extra = [(r"^from_slice::<'_, Vec<&RawValue>>$", m_from_slice_vec),
             (r"^<std::slice::Iter<'_, u8> as Iterator>::find::<", m_find),
             (r"^RawValue::get$", m_rawget)]
    ctx = P.make_ctx(core, extra_models=extra + T.CLIENT_MODELS + LM.LIST_MODELS + list(M.TRACING_MODELS), max_paths=20000, max_visits=k + 2)
    ctx.inline = []          # the per-kind handlers are separate obligations: here they are recorded calls
    ex = Executor(ctx)
    paths = ex.run(b)
    parse_rx = r"^(serde_json::)?from_(str|slice)::<'_, (jsonrpsee_types::)?(Response|Notification)<"
    handler_rx = r"^(process_subscription_response|process_subscription_close_response|process_notification|Vec::<RawResponse<'_>>::push)$"
    viol_src, viol_skip, reach, bad = [], [], [], []
    for p in paths:
        if p.kind in ("unsupported", "limit", "unwound"):
            bad.append((p.kind, p.detail))
            continue
        if p.kind != "return":
            continue
        pc = p.cond()
        evs = [e for e in p.events if e.kind == "call"]
        nexts = [i for i, e in enumerate(evs) if e.callee.startswith("<std::vec::IntoIter<&RawValue> as Iterator>::next")]
        if not nexts:
            continue
        reach.append(pc)
        # segments between consecutive next() calls = the handling of one element
        handled = 0
        for si, start in enumerate(nexts):
            end = nexts[si + 1] if si + 1 < len(nexts) else len(evs)
            seg = evs[start + 1:end]
            if si >= k:
                break
            for e in seg:
                if re.search(parse_rx, e.callee):
                    src = str(to_term(e.args[0]))
                    if f"elem{si}" not in src:
                        viol_src.append((pc, e.callee))
            if any(re.search(handler_rx, e.callee) for e in seg):
                handled += 1
        retd = z3.simplify(ex.discr_of(p.ret))
        if z3.is_bv_value(retd) and retd.as_long() == 0 and handled != k:
            viol_skip.append(pc)
    return b, ctx, viol_src, viol_skip, reach, bad


def _close_reason(core):
    """Subscription::close_reason: lagged => Lagged (whether or not the stream was already polled to its end); otherwise ConnectionClosed once closed; else None"""
    b = R.find_body(core, r"^fn client::<impl at core/src/client/mod\.rs:[\d: ]+>::close_reason\(_1: &client::Subscription<Notif>\)")
    lagged = z3.Bool("rx.has_lagged")
    fi_closed = R.field_index("core/src/client/mod.rs::Subscription", "is_closed")
    closed = z3.Bool(f"arg1.*.{fi_closed}")
    reasons = R.source_tables()["enums"]["SubscriptionCloseReason"]
    ctx = P.make_ctx(core, extra_models=[(r"^SubscriptionLagged::has_lagged$", lambda ex, st, c, a, d, s: lagged)] + list(M.TRACING_MODELS))
    ctx.inline = [M.crate_inliner(core)]
    ex = Executor(ctx)
    ps = ex.run(b)
    bad = [(p.kind, p.detail) for p in ps if p.kind != "return"]
    viol, reach = [], {"lagged": [], "closed": [], "open": []}
    for p in ps:
        if p.kind != "return":
            continue
        pc = p.cond()
        d = z3.simplify(ex.discr_of(p.ret))
        if not z3.is_bv_value(d):
            bad.append(("unsupported", "Option discriminant"))
            continue
        if d.as_long() == 0:
            reach["open"].append(z3.And(pc, z3.Not(lagged), z3.Not(closed)))
            viol.append(z3.And(pc, z3.Or(lagged, closed)))
        else:
            r = ex.read_node(p.ret.kids[("Some", 0)])
            rd = z3.simplify(ex.discr_of(r)) if isinstance(r, Node) else None
            if rd is None or not z3.is_bv_value(rd):
                bad.append(("unsupported", "reason discriminant"))
                continue
            which = reasons[rd.as_long()]
            if which == "Lagged":
                reach["lagged"].append(z3.And(pc, lagged))
                viol.append(z3.And(pc, z3.Not(lagged)))
            else:
                reach["closed"].append(z3.And(pc, closed, z3.Not(lagged)))
                viol.append(z3.And(pc, z3.Or(lagged, z3.Not(closed))))
    return b, viol, reach, bad


def _explicit_unsubscribe(core):
    """Subscription::unsubscribe(): the close message (naming this subscription) is handed to the background task by awaiting queue capacity - it cannot be
    lost because the queue happens to be full - and only then the stream is drained"""
    b = R.find_body(core, r"^fn client::<impl at core/src/client/mod\.rs:[\d: ]+>::unsubscribe::\{closure#0\}\(_1: Pin<&mut \{async fn body of client::Subscription<Notif>::unsubscribe\(\)\}>")
    sent = z3.Bool("queue_send.ready")

    def m_poll(ex, st, callee, args, dty, site):
        if "Sender<FrontToBack>::send()" in callee:
            return Fork([(sent, lambda ex_, st_, tr: ex_.mk_variant("Poll", 0, "Ready", ex_.mk_variant("Result", 0, "Ok", MM.UNIT))), (z3.Not(sent), lambda ex_, st_, tr: ex_.mk_variant("Poll", 1, "Pending"))])
        if "Next<'_, SubscriptionReceiver>" in callee:
            return ex.mk_variant("Poll", 0, "Ready", ex.mk_variant("Option", 0, "None"))
        return NotImplemented
    models = [(r"as (futures_util::|std::future::)?Future>::poll$", m_poll), (r"^tokio::sync::mpsc::Sender::<FrontToBack>::try_send$", T.m_try_send)] + list(M.TRACING_MODELS)
    ctx = P.make_ctx(core, extra_models=models, max_paths=2000)
    ctx.inline = [M.crate_inliner(core)]
    ex = Executor(ctx)
    paths = ex.run_coroutine(b)
    bad = [(p.kind, p.detail) for p in paths if p.kind in ("unsupported", "limit", "unwound")]
    viol, reach = [], []
    for p in paths:
        if p.kind != "return" or (getattr(p, "state", None) or 0) != 0:
            continue
        evs = [e for e in p.events if e.kind == "call"]
        awaited = [e for e in evs if e.callee == "tokio::sync::mpsc::Sender::<FrontToBack>::send"]
        tried = [e for e in evs if e.callee == "tokio::sync::mpsc::Sender::<FrontToBack>::try_send"]
        pc = p.cond()
        reach.append(pc)
        ok = len(awaited) == 1 and not tried
        if ok:
            msg = MM.value_of(ex, awaited[0].args[1])
            txt = _deep(ex, msg)
            ok = "kind" in txt or re.search(r"arg1\.0\.\*\.\d+", txt) is not None
        if not ok:
            viol.append(pc)
    return b, viol, reach, bad


def _deep(ex, v, depth=0):
    v = MM.value_of(ex, v)
    if isinstance(v, Node):
        return (v.name or "") + " " + " ".join(_deep(ex, k, depth + 1) for kk, k in v.kids.items() if depth < 6 and not (isinstance(kk, tuple) and kk[0] == "name"))
    return str(to_term(v))


def array_obligations(core, ks, skip_scenario="c05_array_vs_single"):
    """(also part of C03: responses may share an array frame with notifications; none of them may be skipped)"""
    out = []
    for k in ks:
        b, ctx, viol_src, viol_skip, reach, bad = _array_branch(core, k)
        common = dict(bodies=[b.name], extra={"models": ["serde_json parsers are uninterpreted: each may accept or reject independently (solver-chosen)",
                                                          "from_slice::<Vec<&RawValue>> yields the k elements; process_* handlers are recorded calls here"]})
        if bad or not reach:
            out.append(R.Result(engine="mirsym", name=f"array:{k}-elements", kind="provenance", status="unsupported" if bad else "vacuous", detail=str(bad[:1])[:300], bodies=[b.name]))
            continue
        srcs = sorted({c for _, c in viol_src})
        r = R.decide(f"array:{k}-elements:element-parsed-from-itself", "provenance", z3.Or(*[pc for pc, _ in viol_src]) if viol_src else z3.BoolVal(False), [z3.Or(*reach)],
                     desc="inside an array every per-element parser (response / subscription notification / close notification / method notification) is applied to that element's own text",
                     bounds=f"arrays of {k} element(s); every accept/reject outcome of every parser", keydetail="", **common)
        if r["status"] == "violated":
            which = "SubscriptionPayloadError" if any("SubscriptionPayloadError" in c for c in srcs) else "other"
            r["key"] = f"mirsym:c05:array-element-parser-source:{which}"
            r["model"] = {"parsers_fed_with_whole_message": srcs}
            r["replay"] = {"scenario": "c05_close_in_array", "args": {}}
        out.append(r)
        r2 = R.decide(f"array:{k}-elements:none-skipped", "order", z3.Or(*viol_skip) if viol_skip else z3.BoolVal(False), [z3.Or(*reach)],
                      desc="when the array is accepted, each of its elements was handed to exactly one handler (no element is skipped, whatever the others were)",
                      bounds=f"arrays of {k} element(s); every classification of every element", keydetail="element-skipped",
                      replay=dict(scenario=skip_scenario, vars={}, fixed={}, region=z3.BoolVal(True)), **common)
        out.append(r2)
    return out


def _read_task_followups(core):
    """read_task: every follow-up message handle_backend_messages returns (SubscriptionClosed for a lagging / abandoned subscription, the unsubscribe of a subscribe call
    nobody waits for any more) is handed to the send task with the awaiting `send` - its future kept among the pending ones - never with try_send: a full queue delays it, it
    cannot drop it"""
    b = R.find_body(core, r"^fn read_task::\{closure#0\}\(_1: Pin<&mut \{async fn body of read_task<")
    okb = z3.Bool("handle_backend.ok")
    K = 2

    def m_hbm(ex, st, callee, args, dty, site):
        lst = LM.new_list(ex, [Opaque(z3.Const(f"followup{j}", OBJ)) for j in range(K)], name="messages")
        return Fork([(okb, lambda ex_, st_, tr: ex_.mk_variant("Result", 0, "Ok", lst)),
                     (z3.Not(okb), lambda ex_, st_, tr: ex_.mk_variant("Result", 1, "Err", Opaque(z3.Const("read_error", OBJ))))])
    from .. import seqmodels as SQ
    ex, ctx, paths = P.explore(core, b, extra_models=[(r"^handle_backend_messages::<", m_hbm)] + LM.LIST_MODELS + list(SQ.TRY_MODELS) + list(M.TRACING_MODELS), max_paths=8000, max_visits=4)
    bad = [(p.kind, p.detail) for p in paths if p.kind in ("unsupported", "limit")]
    viol, reach = [], []
    for p in paths:
        evs = [e for e in p.events if e.kind == "call"]
        hb = [i for i, e in enumerate(evs) if e.callee.startswith("handle_backend_messages::<")]
        if not hb:
            continue
        seg = evs[hb[0] + 1:]
        if any(re.search(r"mpsc::Sender::<FrontToBack>::try_send$", e.callee) for e in seg):
            viol.append(p.cond())
            continue
        nexts = [e for e in seg if re.search(r"IntoIter<FrontToBack> as Iterator>::next$", e.callee)]
        taken = [e for e in seg if re.search(r"^handle_backend_messages::<", e.callee)]
        if len(nexts) < K + 1 or ex.feasible(list(p.pc) + [z3.Not(okb)]):
            continue                              # the list was not walked to its end on this path (or the read failed)
        pc = p.cond()
        reach.append(pc)
        sends = [e for e in seg if re.search(r"mpsc::Sender::<FrontToBack>::send$", e.callee)]
        pushes = [e for e in seg if re.search(r"^MaybePendingFutures::<.*>::push$", e.callee)]
        got = [re.search(r"followup(\d+)", str(to_term(e.args[1]))) for e in sends[:K]]
        ok = len(sends) >= K and [int(m.group(1)) if m else None for m in got] == list(range(K)) and len(pushes) >= K
        if ok:
            for sd, pu in zip(sends[:K], pushes[:K]):
                if str(to_term(sd.ret))[:60] not in str(to_term(pu.args[1])):
                    ok = False
        if not ok:
            viol.append(pc)
    return b, viol, reach, bad


def obligations(tier, seed):
    core = R.bodies("core")
    out = []
    cases = [(("active_sub",), 0), (("active_sub", "active_sub"), 0), (("active_sub", "active_sub"), 1), (("active_sub", "call"), "unknown")]
    if tier == "thorough":
        cases += [(("active_sub", "pending_sub"), 0), (("active_sub", "active_sub", "call"), 1), (("active_sub", "active_sub"), "unknown")]
    for kinds, target in cases:
        d, viol, reach, ab, panics = _push_step(core, kinds, target)
        name = f"push:{'+'.join(kinds)}:target={target}"
        common = dict(bodies=sorted(d.ctx.encoded_bodies), extra={"models": T.CLIENT_DOC + MM.MAP_DOC})
        if ab:
            out.append(R.Result(engine="mirsym", name=name, kind="kernel", status="unsupported", detail=str(ab[0])[:300], bodies=common["bodies"]))
            continue
        need = ["unknown"] if target == "unknown" else ["delivered", "full", "closed"]
        missing = [k for k in need if not reach[k]]
        if missing:
            out.append(R.Result(engine="mirsym", name=name, kind="kernel", status="vacuous", detail=f"not reached: {missing}", bodies=common["bodies"]))
            continue
        q = z3.Or(*[v if isinstance(v, z3.ExprRef) else z3.BoolVal(bool(v)) for v in viol]) if viol else z3.BoolVal(False)
        out.append(R.decide(name + ":own-channel", "kernel", q, [z3.Or(*reach[k]) for k in need],
                            desc="a subscription notification lands on exactly the channel registered for the subscription id it carries, with the payload that arrived; "
                                 "delivered -> nothing to do; buffer full -> lagged flag set and Some(that id) (unsubscribe follows); channel closed -> Some(that id); "
                                 "an id nobody owns reaches no channel",
                            bounds=f"table built by real operations: {', '.join(kinds)}; request ids any pairwise-different u64; server-chosen subscription ids arbitrary",
                            keydetail="push-routing", replay=dict(scenario="c05_drop_full_queue", vars={}, fixed={"kind": "subscription"}, region=z3.BoolVal(True)), **common))
    d, viol, reach, ab = _notification_step(core)
    common = dict(bodies=sorted(d.ctx.encoded_bodies), extra={"models": T.CLIENT_DOC + MM.MAP_DOC})
    reach_l = R.live_reach(viol, reach, ab)
    if ab or not all(reach_l):
        out.append(R.Result(engine="mirsym", name="notify:handler", kind="kernel", status="unsupported" if ab else "vacuous", detail=str(ab[:1] or [k for k, v in reach.items() if not v])[:300], bodies=common["bodies"]))
    else:
        out.append(R.decide("notify:handler-routing", "kernel", z3.Or(*viol) if viol else z3.BoolVal(False), [z3.Or(*v) for v in reach_l],
                            desc="a method notification is delivered to exactly the handler registered under that method name; a handler whose channel is closed or full is unregistered",
                            bounds="one registered handler, incoming method name arbitrary (equal or different)", keydetail="notify-routing", replay=dict(scenario="c05_drop_full_queue", vars={}, fixed={"kind": "handler"}, region=z3.BoolVal(True)), **common))
    d, viol, reach, ab = _unsubscribe_once(core)
    common = dict(bodies=sorted(d.ctx.encoded_bodies), extra={"models": T.CLIENT_DOC + MM.MAP_DOC})
    reach_l = R.live_reach(viol, reach, ab)
    if ab or not reach_l[0]:
        out.append(R.Result(engine="mirsym", name="unsubscribe:once", kind="kernel", status="unsupported" if ab else "vacuous", detail=str(ab[:1])[:300], bodies=common["bodies"]))
    else:
        out.append(R.decide("unsubscribe:exactly-one", "kernel", z3.Or(*[v if isinstance(v, z3.ExprRef) else z3.BoolVal(bool(v)) for v in viol]) if viol else z3.BoolVal(False), [z3.Or(*reach_l[0])],
                            desc="closing an active subscription builds one unsubscribe request, under the reserved request id, whose params are exactly that subscription id; "
                                 "asking again for the same subscription builds nothing", bounds="any pairwise-different u64 request ids, arbitrary subscription id",
                            keydetail="unsubscribe-once", **common))
    out += array_obligations(core, (1, 2) if tier == "quick" else (1, 2, 3))
    # a subscribe answered with a subscription id that is already in use must not take over the earlier subscription's notifications: the reverse index still
    # names the earlier request (shared with C03: the routing step from a table with an active subscription and a pending subscribe)
    from . import C03 as _c03
    out += [r for r in _c03.route_obligations(core, [("pending_sub", "active_sub")]) if r.get("name", "").endswith(":index-invariant") or r.get("status") in ("unsupported", "vacuous")]
    seen = set()
    for r in out:
        if r.get("status") == "violated" and r.get("key"):
            if r["key"] in seen:
                r["status"] = "violated-duplicate"
            seen.add(r["key"])
    b, viol, reach, bad = _close_reason(core)
    reach_l = R.live_reach(viol, reach, bad)
    if bad or not all(reach_l):
        out.append(R.Result(engine="mirsym", name="kernel:Subscription::close_reason", kind="kernel", status="unsupported" if bad else "vacuous", detail=str(bad[:1] or {k: len(v) for k, v in reach.items()})[:300], bodies=[b.name]))
    else:
        out.append(R.decide("kernel:Subscription::close_reason:lagged-wins", "kernel", z3.Or(*viol), [z3.Or(*v) for v in reach_l], bodies=[b.name],
                            desc="close_reason(): a subscription that fell behind its buffer is reported as Lagged - before and after the stream was polled to its end; ConnectionClosed only "
                                 "when it is closed and did not lag; None while open", bounds="has_lagged x is_closed", keydetail="close-reason",
                            replay=dict(scenario="c05_close_reason", vars={}, fixed={}, region=z3.BoolVal(True))))
    b, viol, reach, bad = _read_task_followups(core)
    reach_l = R.live_reach(viol, reach, bad)
    if bad or not reach_l[0]:
        out.append(R.Result(engine="mirsym", name="order:read_task:follow-ups", kind="order", status="unsupported" if bad else "vacuous", detail=str(bad[:1])[:300], bodies=[b.name]))
    else:
        out.append(R.decide("order:read_task:follow-ups-await-queue-capacity", "order", z3.Or(*viol) if viol else z3.BoolVal(False), [z3.Or(*reach_l[0])], bodies=[b.name],
                            desc="every follow-up message the receive path produces (close a lagging or abandoned subscription, unsubscribe a subscription nobody waits for) is handed to the send "
                                 "task with the awaiting send, each once and in order, its future kept until it completes - never with try_send",
                            bounds="2 follow-up messages; every resume point of read_task; every outcome of the select", keydetail="read-task-followups",
                            replay=dict(scenario="c05_drop_full_queue", vars={}, fixed={"kind": "lagging"}, region=z3.BoolVal(True))))
    b, viol, reach, bad = _explicit_unsubscribe(core)
    reach_l = R.live_reach(viol, reach, bad)
    if bad or not reach_l[0]:
        out.append(R.Result(engine="mirsym", name="order:Subscription::unsubscribe", kind="order", status="unsupported" if bad else "vacuous", detail=str(bad[:1])[:300], bodies=[b.name]))
    else:
        q = [v if isinstance(v, z3.ExprRef) else z3.BoolVal(bool(v)) for v in viol]
        out.append(R.decide("order:Subscription::unsubscribe:awaits-queue-capacity", "order", z3.Or(*q) if q else z3.BoolVal(False), [z3.Or(*reach_l[0])], bodies=[b.name],
                            desc="an explicit unsubscribe hands its close message to the background task with the awaiting send (exactly once), never with try_send: a full request queue delays it, "
                                 "it cannot drop it", bounds="every path from the start of unsubscribe()", keydetail="explicit-unsubscribe",
                            replay=dict(scenario="c05_drop_full_queue", vars={}, fixed={"kind": "explicit"}, region=z3.BoolVal(True))))
    return out
