"""C02 - a batch is answered by one array with exactly one reply per call / invalid entry (handle_rpc_call's batch branch and
RpcService::batch, symbolic execution of the server crate's MIR)."""
import itertools, re
import z3
from .. import run as R, models as M, mapmodels as MM, prov as P, listmodels as LM, seqmodels as SQ, clienttable as T
from ..sym import Ctx, Executor, Node, Ptr, Opaque, OBJ, to_term, Fork

VALIDATION = {}


def result_node(ex, okb, payload, name):
    r = Node(ex.ctx.fresh_name(name), "Result")
    d = Node(r.name + ".discr", "isize")
    d.val = z3.If(okb, z3.BitVecVal(0, 64), z3.BitVecVal(1, 64))
    r.kids["discr"] = d
    k = Node(r.name + ".Ok:0", None)
    ex.write(k, payload)
    r.kids[("Ok", 0)] = k
    return r


def m_errobj(ex, st, callee, args, dty, site):
    """ErrorCode -> ErrorObject conversion: keeps the error class visible"""
    v = MM.value_of(ex, args[0])
    nm = "?"
    if isinstance(v, Node) and "discr" in v.kids:
        d = z3.simplify(ex.read_node(v.kids["discr"]))
        if z3.is_bv_value(d):
            nm = R.source_tables()["enums"]["ErrorCode"][d.as_long()]
    elif isinstance(v, Opaque):
        nm = str(v.term).split(":")[-1]
    return Opaque(z3.Const(f"errobj:ErrorCode::{nm}", OBJ))


ERROBJ_MODELS = [(r"^<ErrorCode as Into<ErrorObject<'_>>>::into$|^<ErrorObject<'_> as From<ErrorCode>>::from$", m_errobj)]


def parser_models(k, single=False):
    """the three per-message parsers as independent solver-chosen outcomes per element; returns (models, symbols)"""
    sym = {"okC": [z3.Bool(f"e{i}.is_call") for i in range(max(k, 1))], "okN": [z3.Bool(f"e{i}.is_notification") for i in range(max(k, 1))],
           "okI": [z3.Bool(f"e{i}.is_object_with_id") for i in range(max(k, 1))], "okV": z3.Bool("body.is_array")}

    def idx(args):
        m = re.search(r"elem(\d+)", str(to_term(args[0])))
        return int(m.group(1)) if m else 0

    def m_call(ex, st, callee, args, dty, site):
        i = idx(args)
        rq = Node(f"request{i}", "Request")
        return result_node(ex, sym["okC"][i], rq, "parse_call")

    def m_notif(ex, st, callee, args, dty, site):
        i = idx(args)
        return result_node(ex, sym["okN"][i], Node(f"notification{i}", "Notification"), "parse_notif")

    def m_invalid(ex, st, callee, args, dty, site):
        i = idx(args)
        inv = Node(f"invalid{i}", "InvalidRequest")
        fi = R.field_index("InvalidRequest", "id")
        kk = Node(f"invalid{i}.{fi}", None)
        kk.val = Opaque(z3.Const(f"recovered_id{i}", OBJ))
        inv.kids[fi] = kk
        return result_node(ex, sym["okI"][i], inv, "parse_invalid")

    def m_vec(ex, st, callee, args, dty, site):
        lst = LM.new_list(ex, [Opaque(z3.Const(f"elem{j}", OBJ)) for j in range(k)], name="unchecked_batch")
        return result_node(ex, sym["okV"], lst, "parse_array")

    def m_get(ex, st, callee, args, dty, site):
        return Opaque(z3.Const("text:" + str(to_term(MM.value_of(ex, args[0]))), OBJ))

    def m_entry_err(ex, st, callee, args, dty, site):
        n = Node(ex.ctx.fresh_name("entry_err"), "BatchEntryErr")
        for j, a in enumerate(args):
            kk = Node(f"{n.name}.{j}", None)
            ex.write(kk, a)
            n.kids[j] = kk
        return n
    models = [
        (r"^<ErrorCode as Into<ErrorObject<'_>>>::into$|^<ErrorObject<'_> as From<ErrorCode>>::from$", m_errobj),
        (r"^call::from_(str|slice)$", m_call),
        (r"^notif::from_(str|slice)::<", m_notif),
        (r"^serde_json::from_(str|slice)::<'_, jsonrpsee_types::InvalidRequest<'_>>$", m_invalid),
        (r"^serde_json::from_slice::<'_, Vec<&JsonRawValue>>$", m_vec),
        (r"^JsonRawValue::get$", m_get),
        (r"^BatchEntryErr::<'_>::new$", m_entry_err),
        (r"^jsonrpsee_core::middleware::Batch::<'_>::from$", M.m_identity),
    ]
    return models, sym


def _entry_err_parts(core):
    """BatchEntryErr::into_parts hands back exactly the error object and the id the entry error was built with (RpcService::batch writes the -32600 reply of an
    invalid entry from these parts): the id is moved out untouched, whatever its kind"""
    b = R.find_body(core, r"^fn (\w+::)*<impl at core/src/middleware/mod\.rs:[\d: ]+>::into_parts\(_1: BatchEntryErr<'_>\)")
    ctx = P.make_ctx(core, extra_models=list(M.TRACING_MODELS), max_paths=400)
    ctx.inline = []
    ex = Executor(ctx)
    fi_p, fi_id = R.field_index("Response", "payload"), R.field_index("Response", "id")
    viol, reach, bad = [], [], []
    for p in ex.run(b):
        if p.kind in ("panic", "unreachable"):
            continue      # the documented unreachable arm: an entry error is only ever built from an error payload
        if p.kind != "return":
            bad.append((p.kind, p.detail))
            continue
        reach.append(p.cond())
        try:
            err = str(to_term(ex.read_node(p.ret.kids[0])))
            rid = str(to_term(ex.read_node(p.ret.kids[1])))
        except (KeyError, AttributeError):
            err = rid = "?"
        if rid != f"obj:arg1.0.{fi_id}" or not err.startswith(f"obj:arg1.0.{fi_p}.Error"):
            viol.append(p.cond())
    reach_l = R.live_reach(viol, reach, bad)
    nm = "kernel:BatchEntryErr::into_parts"
    if bad or not reach_l[0]:
        return R.Result(engine="mirsym", name=nm, kind="kernel", status="unsupported" if bad else "vacuous", detail=str(bad[:1])[:300], bodies=[b.name])
    return R.decide(nm, "kernel", z3.Or(*viol) if viol else z3.BoolVal(False), [z3.Or(*reach_l[0])], bodies=[b.name],
                    desc="the parts of an invalid batch entry's error are the error object and the id it was built with, the id moved out untouched whatever its kind (number, text, null)",
                    bounds="every path of into_parts; all ids (one opaque object)", keydetail="entry-err-parts",
                    replay=dict(scenario="c02_batches", vars={}, fixed={"k": 2, "limit": "8"}, region=z3.BoolVal(True)))


def _pre_state(body, fields):
    def pre(e, st, b):
        pin = st["mem"][(0, b.params[0][0])]
        stn = e.pointee(e.child(pin, 0, "&mut S"))
        d = Node(stn.name + ".discr", "isize")
        d.val = z3.BitVecVal(0, 64)
        stn.kids["discr"] = d
        for name, val in fields.items():
            cap = P.capture_index(b, name)
            kk = Node(f"{stn.name}.{cap}", None)
            e.write(kk, val)
            stn.kids[cap] = kk
    return pre


def _err_code(ex, e):
    """numeric JSON-RPC code of the error object handed to MethodResponse::error on this path, if determinable"""
    t = str(to_term(e.args[1]))
    consts = R.source_tables()["consts"]
    if "reject_too_big_batch_request" in t:
        return consts["TOO_BIG_BATCH_REQUEST_CODE"][0]
    m = re.search(r"ErrorObject::<'_>::borrowed/\d+\((\d+)", t)
    if m:
        v = int(m.group(1))
        return v - (1 << 32) if v >= (1 << 31) else v
    m = re.search(r"(?:unitlike:|ErrorCode::)(\w+)", t)
    if m:
        return {"ParseError": -32700, "InvalidRequest": -32600, "MethodNotFound": -32601, "InternalError": -32603}.get(m.group(1))
    return None


def _batch_branch(srv, k):
    b = R.find_body(srv, r"^fn handle_rpc_call::\{closure#0\}\(_1: Pin<&mut \{async fn body of handle_rpc_call<S>")
    models, sym = parser_models(k)
    ctx = P.make_ctx(srv, extra_models=models + LM.LIST_MODELS + SQ.TRY_MODELS + list(M.TRACING_MODELS), max_paths=30000, max_visits=k + 3)
    ctx.inline = []
    ex = Executor(ctx)
    cfg = Node("batch_config", "BatchRequestConfig")
    cd = Node("batch_config.discr", "isize")
    cd.val = z3.BitVec("batch_config.discr", 64)
    cfg.kids["discr"] = cd
    lim = Node("batch_config.Limit:0", "u32")
    lim.val = z3.BitVec("batch_config.limit", 32)
    cfg.kids[("Limit", 0)] = lim
    paths = ex.run(b, pre=_pre_state(b, {"is_single": z3.BoolVal(False), "batch_config": cfg}), pc0=[z3.ULE(cd.val, 2)])
    return b, ctx, ex, paths, sym, cd.val, lim.val


def _classify_entry(ex, el):
    """('call'|'notification'|'err', info) of an element of the vector handed to RpcServiceT::batch"""
    v = ex.read_node(el)
    d = z3.simplify(ex.discr_of(v))
    if z3.is_bv_value(d) and d.as_long() == 0:
        inner = ex.read_node(ex.child(v, ("Ok", 0), None))
        di = z3.simplify(ex.discr_of(inner))
        names = R.source_tables()["enums"]["BatchEntry"]
        if z3.is_bv_value(di):
            which = names[di.as_long()]
            payload = ex.read_node(ex.child(inner, (which, 0), None))
            return ("call" if which == "Call" else "notification", payload.name if isinstance(payload, Node) else str(to_term(payload)))
    if z3.is_bv_value(d) and d.as_long() == 1:
        e = ex.read_node(ex.child(v, ("Err", 0), None))
        idt = str(to_term(MM.value_of(ex, e.kids[0]))) if isinstance(e, Node) and 0 in e.kids else "?"
        idn = ex.read_node(e.kids[0]) if isinstance(e, Node) and 0 in e.kids else None
        if isinstance(idn, Node) and "discr" in idn.kids:
            dd = z3.simplify(ex.read_node(idn.kids["discr"]))
            if z3.is_bv_value(dd):
                idt = "Id::" + R.source_tables()["enums"]["Id"][dd.as_long()]
        code = str(to_term(MM.value_of(ex, e.kids[1]))) if isinstance(e, Node) and 1 in e.kids else "?"
        return ("err", (idt, code))
    return ("?", None)


def _subscription_in_batch(srv, core):
    """no response to a batch entry is delivered outside the reply array: the library's convention is that a MethodResponse of kind
    Subscription has already been sent on the connection by PendingSubscriptionSink::accept (the WebSocket loop therefore never sends
    such a response itself) - so RpcService::batch must not put a response of that kind into the array as well"""
    b = R.find_body(srv, r"^fn rpc::<impl at server/src/middleware/rpc\.rs:[\d: ]+>::batch::\{closure#0\}\(_1: Pin<&mut \{async block@server/src/middleware/rpc\.rs")
    kinds = R.source_tables()["enums"]["ResponseKind"]
    fi_kind = R.field_index("MethodResponse", "kind")
    kind = z3.BitVec("call_response.kind", 64)

    def m_poll_ready(ex, st, callee, args, dty, site):
        rp = Node(ex.ctx.fresh_name("call_response"), "MethodResponse")
        k = Node(rp.name + f".{fi_kind}", "ResponseKind")
        d = Node(k.name + ".discr", "isize")
        d.val = kind
        k.kids["discr"] = d
        rp.kids[fi_kind] = k
        return ex.mk_variant("Poll", 0, "Ready", rp)

    def m_batch_iter(ex, st, callee, args, dty, site):
        be = Node("entry0", "BatchEntry")
        d = Node("entry0.discr", "isize")
        d.val = z3.BitVecVal(0, 64)
        be.kids["discr"] = d
        payload = Node("entry0.payload", None)
        payload.val = Opaque(z3.Const("request0", OBJ))
        be.kids[("Call", 0)] = payload
        lst = LM.new_list(ex, [ex.mk_variant("Result", 0, "Ok", be)], name="batch")
        return LM.m_into_iter(ex, st, callee, [lst], dty, site)

    def m_append(ex, st, callee, args, dty, site):
        return ex.mk_variant("Result", 0, "Ok", Opaque(z3.Const("unit", OBJ)))
    extra = [(r"^BatchResponseBuilder::append$", m_append), (r"^BatchResponseBuilder::is_empty$", lambda ex, st, c, a, d, s: z3.BoolVal(False)),
             (r"as (futures_util::|std::future::)?Future>::poll$", m_poll_ready),
             (r"^<jsonrpsee_core::middleware::Batch<'_> as IntoIterator>::into_iter$", m_batch_iter), (r"^<std::vec::IntoIter<.*> as Iterator>::next$", LM.m_iter_next)]
    ex, ctx, paths = P.explore(srv, b, extra_models=extra + LM.LIST_MODELS + SQ.TRY_MODELS + list(M.TRACING_MODELS), max_paths=4000, max_visits=4)
    bad = [(p.kind, p.detail) for p in paths if p.kind in ("unsupported", "limit", "unwound", "panic")]
    viol, reach = [], []
    for p in paths:
        if p.kind != "return" or p.state != 0:
            continue
        apps = [e for e in p.events if e.kind == "call" and e.callee == "BatchResponseBuilder::append"]
        for e in apps:
            rp = MM.value_of(ex, e.args[1])
            if isinstance(rp, Node) and fi_kind in rp.kids:
                kd = ex.discr_of(ex.read_node(rp.kids[fi_kind]))
                reach.append(z3.And(p.cond(), z3.ULE(kind, len(kinds) - 1)))
                viol.append(z3.And(p.cond(), kd == kinds.index("Subscription"), z3.ULE(kind, len(kinds) - 1)))
    # the premise: accept() does send the response on the connection's sink itself
    from .C06 import Drv as SubDrv
    d = SubDrv(core)
    d.sids = [z3.BitVec("sub0.id", 64)]
    direct = []
    for w in d.initial(3):
        for w2, got in d.op_acquire(w):
            if not got:
                continue
            for w3, res, pth in d.op_accept(w2, 0):
                if res == "ok":
                    direct.append(any(e.kind == "call" and e.callee == "MethodSink::send" for e in pth.events))
    premise = bool(direct) and all(direct)
    return b, viol, reach, bad, premise, sorted(d.ctx.encoded_bodies)


def _ws_reply_decision(srv):
    """WebSocket per-message task after handle_rpc_call answered: the response text is sent exactly when the response is a method call's or a batch's - a notification-only
    batch (whose MethodResponse is the 'notification' kind) and a single notification produce no frame at all"""
    from . import C10
    from .. import seqmodels as SQ2
    cands = [b for b in R.find_body(srv, r"^fn background_task::\{closure#0\}::\{closure#\d+\}\(_1: Pin<&mut \{async block@server/src/transport/ws\.rs", all_=True) if P.syntactic_sites(b, r"^handle_rpc_call::<")]
    if len(cands) != 1:
        return R.Result(engine="mirsym", name="order:ws-message-task:reply-decision", kind="order", status="site-missing", detail=f"{len(cands)} candidate bodies", bodies=[])
    b = cands[0]
    is_call, is_batch = z3.Bool("response.is_method_call"), z3.Bool("response.is_batch")
    found, fb = z3.Bool("nonws.found"), z3.BitVec("nonws.byte", 8)

    def m_find(ex, st, callee, args, dty, site):
        o = Node(ex.ctx.fresh_name("found"), "Option<(usize,&u8)>")
        d = Node(o.name + ".discr", "isize")
        d.val = z3.If(found, z3.BitVecVal(1, 64), z3.BitVecVal(0, 64))
        o.kids["discr"] = d
        t = Node(o.name + ".Some:0", None)
        a_, b_ = Node(t.name + ".0", "usize"), Node(t.name + ".1", None)
        a_.val = z3.BitVec("nonws.idx", 64)
        byte_n = Node(t.name + ".byte", "u8")
        byte_n.val = fb
        b_.val = Ptr(byte_n)
        t.kids[0], t.kids[1] = a_, b_
        o.kids[("Some", 0)] = t
        return o
    models = [C10._poll_model([("handle_rpc_call", "call", lambda ex_: Opaque(z3.Const("the_response", OBJ))), ("MethodSink::send()", "sink_send", lambda ex_: ex_.mk_variant("Result", 0, "Ok", MM.UNIT)),
                               ("MethodSink::send_error()", "sink_send_error", lambda ex_: ex_.mk_variant("Result", 0, "Ok", MM.UNIT))]),
              (r"MethodResponse::is_method_call$", lambda ex, st, c, a, d, s_: is_call), (r"MethodResponse::is_batch$", lambda ex, st, c, a, d, s_: is_batch),
              (r"as Iterator>::take$", M.m_identity), (r"as Iterator>::find::<", m_find), (r"as Iterator>::enumerate$", M.m_identity), (r"^core::slice::<impl \[u8\]>::iter$", M.m_identity)]
    ex, ctx, paths = P.explore(srv, b, extra_models=models + list(SQ2.TRY_MODELS) + list(M.TRACING_MODELS), max_paths=20000)
    bad = [(p.kind, p.detail) for p in paths if p.kind in ("unsupported", "limit", "unwound")]
    viol, reach = [], {"sent": [], "silent": []}
    ready = [z3.Bool("call.ready"), z3.Bool("sink_send.ready"), z3.Bool("sink_send_error.ready")]
    for p in paths:
        if p.kind != "return" or (getattr(p, "state", None) or 0) != 0:
            continue
        d = z3.simplify(ex.discr_of(p.ret)) if isinstance(p.ret, Node) else None
        if not (d is not None and z3.is_bv_value(d) and d.as_long() == 0):
            continue                          # the task did not run to its end on this path
        seq = [e for e in p.events if e.kind == "call"]
        if not [e for e in seq if e.callee.endswith("::poll") and "handle_rpc_call" in e.callee]:
            continue                          # the -32700 branch: no call was made (decided by C01)
        pc = z3.And(p.cond(), z3.Not(z3.And(is_call, is_batch)))
        sends = [e for e in seq if e.callee.endswith("MethodSink::send")]
        want = z3.Or(is_call, is_batch)
        if sends:
            reach["sent"].append(z3.And(pc, want))
            viol.append(z3.And(pc, z3.Not(want)))
            if len(sends) != 1:
                viol.append(pc)
        else:
            reach["silent"].append(z3.And(pc, z3.Not(want)))
            viol.append(z3.And(pc, want))
    reach_l = R.live_reach(viol, reach, bad)
    if bad or not all(reach_l):
        return R.Result(engine="mirsym", name="order:ws-message-task:reply-decision", kind="order", status="unsupported" if bad else "vacuous",
                        detail=str(bad[:1] or {k: len(v) for k, v in reach.items()})[:300], bodies=[b.name])
    return R.decide("order:ws-message-task:reply-decision", "order", z3.Or(*viol) if viol else z3.BoolVal(False), [z3.Or(*v) for v in reach_l], bodies=[b.name],
                    desc="over WebSocket a frame is sent for a message exactly when its response is a method call's or a batch's - once; a batch made of notifications only (and a single "
                         "notification) is answered by nothing at all, not even the text `null`",
                    bounds="single / batch message; every kind of response; every resume point, all futures ready", keydetail="ws-reply-decision",
                    replay=dict(scenario="c02_ws_notification_batch", vars={}, fixed={}, region=z3.BoolVal(True)))


def obligations(tier, seed):
    srv = R.bodies("server")
    out = []
    cfgs = R.source_tables()["enums"]["BatchRequestConfig"]
    DIS, LIM, UNL = cfgs.index("Disabled"), cfgs.index("Limit"), cfgs.index("Unlimited")
    for k in ((0, 1, 2) if tier == "quick" else (0, 1, 2, 3)):
        b, ctx, ex, paths, sym, cd, lim = _batch_branch(srv, k)
        name = f"batch-branch:{k}-entries"
        bad = [(p.kind, p.detail) for p in paths if p.kind in ("unsupported", "limit", "unwound", "panic")]
        if bad:
            out.append(R.Result(engine="mirsym", name=name, kind="kernel", status="unsupported", detail=str(bad[0])[:300], bodies=[b.name]))
            continue
        viol, reach = [], {"disabled": [], "too-long": [], "not-array": [], "dispatched": []}
        too_long = z3.And(cd == LIM, z3.UGT(z3.BitVecVal(k, 64), z3.ZeroExt(32, lim)))
        for p in paths:
            if p.kind != "return":
                continue
            pc = p.cond()
            evs = [e for e in p.events if e.kind == "call"]
            errs = [e for e in evs if e.callee.startswith("MethodResponse::error")]
            batches = [e for e in evs if re.search(r"RpcServiceT>::batch$", e.callee)]
            parsed_any = any(re.search(r"^(call|notif)::from_str", e.callee) for e in evs)
            if batches:
                reach["dispatched"].append(pc)
                # exactly when: batching allowed, length within the limit, text is an array
                viol.append(z3.And(pc, z3.Or(cd == DIS, too_long, z3.Not(sym["okV"]))))
                vec = MM.value_of(ex, batches[0].args[1])
                es = LM.elems(vec) if isinstance(vec, Node) and LM.is_list(vec) else None
                if es is None or len(es) != k or len(batches) != 1:
                    viol.append(pc)
                    continue
                for i, el in enumerate(es):
                    kind, info = _classify_entry(ex, el)
                    okC, okN, okI = sym["okC"][i], sym["okN"][i], sym["okI"][i]
                    if kind == "call":
                        viol.append(z3.And(pc, z3.Not(okC)))
                        if info != f"request{i}":
                            viol.append(pc)
                    elif kind == "notification":
                        viol.append(z3.And(pc, z3.Not(z3.And(z3.Not(okC), okN))))
                        if info != f"notification{i}":
                            viol.append(pc)
                    elif kind == "err":
                        viol.append(z3.And(pc, z3.Or(okC, okN)))
                        idt, code = info
                        # id recovered when the entry is an object with an id, else null; always "invalid request"
                        viol.append(z3.And(pc, okI, z3.BoolVal(idt != f"recovered_id{i}")))
                        viol.append(z3.And(pc, z3.Not(okI), z3.BoolVal(idt != "Id::Null")))
                        if "InvalidRequest" not in code:
                            viol.append(pc)
                    else:
                        viol.append(pc)
                continue
            # no dispatch: exactly one error reply with id null, nothing executed
            if len(errs) != 1:
                viol.append(pc)
                continue
            idn = MM.value_of(ex, errs[0].args[0])
            is_null = isinstance(idn, Node) and "discr" in idn.kids and z3.is_bv_value(z3.simplify(ex.read_node(idn.kids["discr"]))) and \
                R.source_tables()["enums"]["Id"][z3.simplify(ex.read_node(idn.kids["discr"])).as_long()] == "Null"
            code = _err_code(ex, errs[0])
            if not is_null:
                viol.append(pc)
            if code == -32005:
                reach["disabled"].append(pc)
                viol.append(z3.And(pc, cd != DIS))
                if parsed_any or any("from_slice" in e.callee for e in evs):
                    viol.append(pc)          # a disabled batch is refused before anything is parsed
            elif code == -32010:
                reach["too-long"].append(pc)
                viol.append(z3.And(pc, z3.Not(too_long)))
                if parsed_any:
                    viol.append(pc)          # no entry is looked at
                # the quoted limit is the configured one
                t = str(to_term(errs[0].args[1]))
            elif code == -32700:
                reach["not-array"].append(pc)
                viol.append(z3.And(pc, z3.Or(sym["okV"], cd == DIS)))
            else:
                viol.append(pc)
        need = ["disabled", "not-array", "dispatched"] + (["too-long"] if k >= 1 else [])
        missing = [n for n in need if not reach[n]]
        if missing:
            out.append(R.Result(engine="mirsym", name=name, kind="kernel", status="vacuous", detail=f"not reached: {missing}", bodies=[b.name]))
            continue
        q = [v if isinstance(v, z3.ExprRef) else z3.BoolVal(bool(v)) for v in viol]
        out.append(R.decide(name, "kernel", z3.Or(*q) if q else z3.BoolVal(False), [z3.Or(*reach[n]) for n in need], bodies=[b.name],
                            desc="batch pre-processing: Disabled -> -32005/null before parsing; longer than Limit(n) -> -32010/null and no entry examined (a batch of exactly n is served); "
                                 "not an array -> -32700/null; otherwise RpcServiceT::batch is called once with exactly one entry per element, classified call / notification / invalid "
                                 "(-32600 with the recovered id, else null) in that order of attempts",
                            bounds=f"arrays of {k} element(s); every accept/reject outcome of the three parsers per element; batch config Disabled / Limit(any u32) / Unlimited",
                            keydetail="batch-branch", extra={"models": ["call / notification / invalid-request / array parsers: independent solver-chosen outcomes per element"]},
                            replay=dict(scenario="c02_batches", vars={"limit": lim}, fixed={"k": k}, region=z3.And(z3.ULE(lim, 64)))))
    out += _service_batch(srv, tier)
    b, viol, reach, bad, premise, more = _subscription_in_batch(srv, R.bodies("core"))
    if bad or not reach:
        out.append(R.Result(engine="mirsym", name="service-batch:subscription-response", kind="order", status="unsupported" if bad else "vacuous", detail=str(bad[:1])[:300], bodies=[b.name]))
    elif not premise:
        out.append(R.Result(engine="mirsym", name="service-batch:subscription-response", kind="order", status="unsupported",
                            detail="PendingSubscriptionSink::accept no longer sends the subscribe response on the sink itself - the premise of this obligation needs review", bodies=[b.name] + more))
    else:
        r = R.decide("service-batch:subscription-response:not-delivered-twice", "order", z3.Or(*viol), [z3.Or(*reach)], bodies=[b.name] + more,
                     desc="a response of kind Subscription (already sent on the connection by PendingSubscriptionSink::accept) is not put into the batch reply array as well: "
                          "no response to a batch entry is delivered outside that array",
                     bounds="one call entry whose response has any ResponseKind", keydetail="subscription-in-batch")
        if r["status"] == "violated":
            r["key"] = "mirsym:c02:subscription-response-delivered-outside-the-array"
            r["replay"] = {"scenario": "c02_ws_batch_with_subscription", "args": {"entries": ["sub", "call"]}}
        out.append(r)
    out.append(_ws_reply_decision(R.bodies("server")))
    out.append(_entry_err_parts(R.bodies("core")))
    # "only the response-size limit (C08) may replace the array by a single error": what decides that replacement is the text length alone - never what an entry is
    # (e.g. an entry that is itself a -32008 error) - the append / builder kernels of C08, shared
    from . import C08 as _c08
    for r in _c08.obligations("quick", seed):
        if r.get("name", "").startswith(("kernel:BatchResponseBuilder::append:post", "kernel:BatchResponseBuilder:end-to-end")):
            out.append(r)
    # "however the server is assembled": the configured value survives every builder step
    from .cfgframe import journey_obligations as _journey
    _extra = _journey(R.bodies("server"), "batch_requests_config", "set_batch_request_config", scenario="cfg_journey", fixed={"field": "batch_requests_config"})
    out += _extra
    return out


def _service_batch(srv, tier):
    """RpcService::batch: one append per call / invalid entry, in order; notifications produce nothing; notifications-only -> no reply"""
    res = []
    b = R.find_body(srv, r"^fn rpc::<impl at server/src/middleware/rpc\.rs:[\d: ]+>::batch::\{closure#0\}\(_1: Pin<&mut \{async block@server/src/middleware/rpc\.rs")
    kinds_all = ["call", "notification", "err"]
    shapes = [s for n in ((0, 1, 2) if tier == "quick" else (0, 1, 2, 3)) for s in itertools.product(kinds_all, repeat=n)]
    viol_all, reach_all = [], []
    unsupported = None
    bodies = set()
    for shape in shapes:
        def m_builder_new(ex, st, callee, args, dty, site):
            n = Node(ex.ctx.fresh_name("builder"), "BatchResponseBuilder")
            n.variant = ("builder", 0)
            return n

        def _builder(ex, v):
            n = v.node if isinstance(v, Ptr) else v
            if isinstance(n, Node) and isinstance(n.val, Ptr):
                n = n.val.node
            if not (isinstance(n.variant, tuple) and n.variant and n.variant[0] == "builder"):
                n.variant = ("builder", 0)     # the captured builder: created empty by RpcService::batch right before the block
            return n

        def m_append(ex, st, callee, args, dty, site):
            bn = _builder(ex, args[0])
            okb = z3.Bool(ex.ctx.fresh_name("append_fits"))

            def ok(ex_, st_, tr):
                b2 = tr(bn)
                b2.variant = ("builder", b2.variant[1] + 1)
                return ex_.mk_variant("Result", 0, "Ok", Opaque(z3.Const("unit", OBJ)))
            return Fork([(okb, ok), (z3.Not(okb), lambda ex_, st_, tr: ex_.mk_variant("Result", 1, "Err", Opaque(z3.Const("too_big_batch_response", OBJ))))])

        def m_is_empty(ex, st, callee, args, dty, site):
            return z3.BoolVal(_builder(ex, args[0]).variant[1] == 0)

        def m_finish(ex, st, callee, args, dty, site):
            return Opaque(z3.Const(f"finished:{_builder(ex, args[0]).variant[1]}", OBJ))

        def m_poll_ready(ex, st, callee, args, dty, site):
            return ex.mk_variant("Poll", 0, "Ready", Opaque(z3.Const(ex.ctx.fresh_name("response"), OBJ)))

        def m_batch_iter(ex, st, callee, args, dty, site):
            items = []
            for i, kd in enumerate(shape):
                if kd == "err":
                    items.append(ex.mk_variant("Result", 1, "Err", Opaque(z3.Const(f"entry_err{i}", OBJ))))
                else:
                    be = Node(f"entry{i}", "BatchEntry")
                    d = Node(f"entry{i}.discr", "isize")
                    d.val = z3.BitVecVal(0 if kd == "call" else 1, 64)
                    be.kids["discr"] = d
                    payload = Node(f"entry{i}.payload", None)
                    payload.val = Opaque(z3.Const(("request" if kd == "call" else "notification") + str(i), OBJ))
                    be.kids[("Call" if kd == "call" else "Notification", 0)] = payload
                    items.append(ex.mk_variant("Result", 0, "Ok", be))
            lst = LM.new_list(ex, items, name="batch")
            return LM.m_into_iter(ex, st, callee, [lst], dty, site)
        extra = [(r"^BatchResponseBuilder::new_with_limit$", m_builder_new), (r"^BatchResponseBuilder::append$", m_append), (r"^BatchResponseBuilder::is_empty$", m_is_empty),
                 (r"^BatchResponseBuilder::finish$", m_finish), (r"as (futures_util::|std::future::)?Future>::poll$", m_poll_ready),
                 (r"^<jsonrpsee_core::middleware::Batch<'_> as IntoIterator>::into_iter$", m_batch_iter), (r"^<std::vec::IntoIter<.*> as Iterator>::next$", LM.m_iter_next)]
        ex, ctx, paths = P.explore(srv, b, extra_models=extra + LM.LIST_MODELS + SQ.TRY_MODELS + list(M.TRACING_MODELS), max_paths=20000, max_visits=len(shape) + 3)
        bodies |= ctx.encoded_bodies
        for p in paths:
            if p.kind in ("unsupported", "limit", "unwound", "panic"):
                unsupported = (shape, p.kind, p.detail)
            if p.kind != "return" or p.state != 0:
                continue
            pc = p.cond()
            reach_all.append(pc)
            evs = [e for e in p.events if e.kind == "call"]
            appends = [e for e in evs if e.callee == "BatchResponseBuilder::append"]
            calls = [e for e in evs if re.search(r"RpcService as jsonrpsee_core::middleware::RpcServiceT>::call$|RpcServiceT>::call$", e.callee)]
            notifs = [e for e in evs if re.search(r"RpcServiceT>::notification$", e.callee)]
            errs = [e for e in evs if e.callee.startswith("MethodResponse::error")]
            fin = [e for e in evs if e.callee in ("BatchResponseBuilder::finish", "MethodResponse::notification", "MethodResponse::from_batch")]
            failed = any(str(to_term(e.ret)).find("Err") >= 0 for e in [])  # (append outcome is in the path condition)
            # which prefix of the batch was processed: up to and including the entry whose append failed
            processed = 0
            n_app = 0
            stop = False
            for i, kd in enumerate(shape):
                if stop:
                    break
                processed += 1
                if kd in ("call", "err"):
                    n_app += 1
                    if n_app > len(appends):
                        break
                    # did this append fail on this path?
                    r = appends[n_app - 1].ret
                    dd = z3.simplify(ex.discr_of(r)) if isinstance(r, Node) else None
                    if dd is not None and z3.is_bv_value(dd) and dd.as_long() == 1:
                        stop = True
            want_app = sum(1 for kd in shape[:processed] if kd in ("call", "err"))
            if len(appends) != want_app:
                viol_all.append(pc)
                continue
            want_calls = sum(1 for kd in shape[:processed] if kd == "call")
            want_notifs = sum(1 for kd in shape[:processed] if kd == "notification")
            if len(calls) != want_calls or len(notifs) != want_notifs or len(errs) != sum(1 for kd in shape[:processed] if kd == "err"):
                viol_all.append(pc)
                continue
            if stop:
                continue            # the whole batch is replaced by the too-big error (C08)
            ok_appends = want_app
            is_notif_only = ok_appends == 0 and any(kd == "notification" for kd in shape)
            names = [e.callee for e in fin]
            if is_notif_only:
                if "MethodResponse::notification" not in names or "MethodResponse::from_batch" in names:
                    viol_all.append(pc)
            else:
                if "MethodResponse::from_batch" not in names or "MethodResponse::notification" in names:
                    viol_all.append(pc)
    name = "service-batch:append-per-entry"
    if unsupported or not reach_all:
        res.append(R.Result(engine="mirsym", name=name, kind="order", status="unsupported" if unsupported else "vacuous", detail=str(unsupported)[:300], bodies=[b.name]))
    else:
        res.append(R.decide(name, "order", z3.Or(*viol_all) if viol_all else z3.BoolVal(False), [z3.Or(*reach_all)], bodies=sorted(bodies),
                            desc="RpcService::batch: every call entry is executed once and its response appended, every invalid entry gets one appended error, notifications append nothing, "
                                 "in order; an append that does not fit ends the batch with that error; no reply at all exactly when nothing was appended and a notification was present, "
                                 "else the finished array (the empty batch -> invalid request object)",
                            bounds=f"all {len(shapes)} batches over {{call, notification, invalid}} of length <= {max(len(s) for s in shapes)}; every append outcome",
                            keydetail="service-batch", extra={"models": ["BatchResponseBuilder::{append,is_empty,finish}: counter contract (accounting itself: C08)", "futures are ready at once"]},
                            replay=dict(scenario="c02_batches", vars={}, fixed={"k": 2, "limit": "8"}, region=z3.BoolVal(True))))
    return res
