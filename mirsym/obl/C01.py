"""C01 - every message gets at most one well-formed reply carrying its own id (classification, dispatch, id provenance,
WebSocket receive loop) - symbolic execution of the server / core MIR."""
import re
import z3
from .. import run as R, models as M, mapmodels as MM, prov as P, listmodels as LM, seqmodels as SQ, clienttable as T
from ..sym import Ctx, Executor, Node, Ptr, Opaque, OBJ, to_term, Fork
from .C02 import parser_models, _pre_state, _err_code, ERROBJ_MODELS
from .C19 import is_ws, sniff_closure_obligation

VALIDATION = {}


def _is_null_id(ex, v):
    idn = MM.value_of(ex, v)
    if isinstance(idn, Node) and "discr" in idn.kids:
        d = z3.simplify(ex.read_node(idn.kids["discr"]))
        return z3.is_bv_value(d) and R.source_tables()["enums"]["Id"][d.as_long()] == "Null"
    return False


def _code_name(ex, v):
    """name of an ErrorCode value (unit variants arrive either as a discriminant or, in older dumps, as a bare unit-like term)"""
    v = MM.value_of(ex, v)
    if isinstance(v, Node):
        try:
            d = z3.simplify(ex.discr_of(v))
            if z3.is_bv_value(d):
                return R.source_tables()["enums"]["ErrorCode"][d.as_long()]
        except Exception:
            pass
    t = str(to_term(v))
    m = re.search(r"(?:unitlike:|errobj:ErrorCode::)(\w+)", t)
    return m.group(1) if m else "?"


def _single_branch(srv):
    b = R.find_body(srv, r"^fn handle_rpc_call::\{closure#0\}\(_1: Pin<&mut \{async fn body of handle_rpc_call<S>")
    models, sym = parser_models(1)
    okP = z3.Bool("body.is_object_with_id")

    def m_prepare(ex, st, callee, args, dty, site):
        """prepare_error(body) -> (id, code) (its own table is a separate obligation on the core crate)"""
        t = Node(ex.ctx.fresh_name("prepared"), "(Id, ErrorCode)")
        a, c = Node(t.name + ".0", None), Node(t.name + ".1", None)
        a.val = Opaque(z3.Const("prepare_error.id", OBJ))
        c.val = Opaque(z3.Const("prepare_error.code", OBJ))
        t.kids[0], t.kids[1] = a, c
        return t
    ctx = P.make_ctx(srv, extra_models=[(r"^prepare_error$", m_prepare)] + models + SQ.TRY_MODELS + list(M.TRACING_MODELS), max_paths=8000)
    ctx.inline = []
    ex = Executor(ctx)
    paths = ex.run(b, pre=_pre_state(b, {"is_single": z3.BoolVal(True)}))
    okC, okN = sym["okC"][0], sym["okN"][0]
    viol, reach = [], {"call": [], "notification": [], "error": []}
    bad = [(p.kind, p.detail) for p in paths if p.kind in ("unsupported", "limit", "unwound", "panic")]
    for p in paths:
        if p.kind != "return":
            continue
        pc = p.cond()
        evs = [e for e in p.events if e.kind == "call"]
        calls = [e for e in evs if re.search(r"RpcServiceT>::call$", e.callee)]
        notifs = [e for e in evs if re.search(r"RpcServiceT>::notification$", e.callee)]
        errs = [e for e in evs if e.callee.startswith("MethodResponse::error")]
        batch = [e for e in evs if re.search(r"RpcServiceT>::batch$", e.callee)]
        if len(calls) + len(notifs) + len(errs) != 1 or batch:
            viol.append(pc)                      # exactly one of the three outcomes, never the batch path
            continue
        if calls:
            reach["call"].append(pc)
            viol.append(z3.And(pc, z3.Not(okC)))
            if "request0" not in str(to_term(MM.value_of(ex, calls[0].args[1]))) and not (isinstance(MM.value_of(ex, calls[0].args[1]), Node) and MM.value_of(ex, calls[0].args[1]).name == "request0"):
                viol.append(pc)                  # the parsed request itself is dispatched
        elif notifs:
            reach["notification"].append(pc)
            viol.append(z3.And(pc, z3.Not(z3.And(z3.Not(okC), okN))))
        else:
            reach["error"].append(pc)
            viol.append(z3.And(pc, z3.Or(okC, okN)))
            # the error reply carries exactly what prepare_error recovered (id and class)
            if "prepare_error.id" not in str(to_term(errs[0].args[0])) or "prepare_error.code" not in str(to_term(errs[0].args[1])):
                viol.append(pc)
    return b, ctx, viol, reach, bad


def _prepare_error(core):
    b = R.find_body(core, r"^fn prepare_error\(_1: &\[u8\]\)")
    okI = z3.Bool("is_object_with_id")

    def m_invalid(ex, st, callee, args, dty, site):
        inv = Node("invalid", "InvalidRequest")
        fi = R.field_index("InvalidRequest", "id")
        kk = Node(f"invalid.{fi}", None)
        kk.val = Opaque(z3.Const("recovered_id", OBJ))
        inv.kids[fi] = kk
        r = Node("parsed_invalid", "Result")
        d = Node("parsed_invalid.discr", "isize")
        d.val = z3.If(okI, z3.BitVecVal(0, 64), z3.BitVecVal(1, 64))
        r.kids["discr"] = d
        r.kids[("Ok", 0)] = inv
        return r
    ctx = P.make_ctx(core, extra_models=[(r"from_slice::<'_, (jsonrpsee_types::)?InvalidRequest<'_>>$", m_invalid)])
    ctx.inline = []
    ex = Executor(ctx)
    ps = ex.run(b)
    codes = R.source_tables()["enums"]["ErrorCode"]
    viol, reach = [], []
    bad = [(p.kind, p.detail) for p in ps if p.kind not in ("return", "unreachable")]
    for p in ps:
        if p.kind != "return":
            continue
        idv = ex.read_node(ex.child(p.ret, 0, None))
        cv = ex.read_node(ex.child(p.ret, 1, None))
        cd = z3.simplify(ex.discr_of(cv)) if isinstance(cv, Node) else None
        cname = codes[cd.as_long()] if cd is not None and z3.is_bv_value(cd) else "?"
        recovered = "recovered_id" in str(to_term(idv))
        null = _is_null_id(ex, idv)
        pc = p.cond()
        reach.append(pc)
        # object with an id -> (that id, InvalidRequest) ; anything else -> (null, ParseError)
        viol.append(z3.And(pc, okI, z3.BoolVal(not (recovered and cname == "InvalidRequest"))))
        viol.append(z3.And(pc, z3.Not(okI), z3.BoolVal(not (null and cname == "ParseError"))))
    return b, viol, reach, bad


def _dispatch(srv):
    """RpcService::call: unknown method -> -32601 with the request id and no handler; a bound handler is invoked once with this request's id / params / limit"""
    b = R.find_body(srv, r"^fn rpc::<impl at server/src/middleware/rpc\.rs:[\d: ]+>::call\(_1: &RpcService, _2: jsonrpsee_types::Request<'_>\)")
    fi_id = R.field_index("Request", "id")
    fi_params = R.field_index("Request", "params")
    fi_max = R.field_index("RpcService", "max_response_body_size")
    found = z3.Bool("method_is_registered")
    kind = z3.BitVec("callback.kind", 64)

    def m_lookup(ex, st, callee, args, dty, site):
        o = Node(ex.ctx.fresh_name("lookup"), "Option<(&str,&MethodCallback)>")
        d = Node(o.name + ".discr", "isize")
        d.val = z3.If(found, z3.BitVecVal(1, 64), z3.BitVecVal(0, 64))
        o.kids["discr"] = d
        tup = Node(o.name + ".Some:0", None)
        nm, cbp = Node(tup.name + ".0", None), Node(tup.name + ".1", None)
        nm.val = Opaque(z3.Const("registered_name", OBJ))
        cb = Node("callback", "MethodCallback")
        cd = Node("callback.discr", "isize")
        cd.val = kind
        cb.kids["discr"] = cd
        cbp.val = Ptr(cb)
        tup.kids[0], tup.kids[1] = nm, cbp
        o.kids[("Some", 0)] = tup
        return o
    ctx = P.make_ctx(srv, extra_models=[(r"^Methods::method_with_name$", m_lookup)] + ERROBJ_MODELS + SQ.TRY_MODELS + list(M.TRACING_MODELS), max_paths=8000)
    ctx.inline = []
    ex = Executor(ctx)
    ps = ex.run(b, pc0=[z3.ULE(kind, 3)])
    viol, reach = [], {"unknown": [], "handler": []}
    bad = [(p.kind, p.detail) for p in ps if p.kind in ("unsupported", "limit", "unwound")]
    maxsym = z3.BitVec(f"arg1.*.{fi_max}", 64)
    for p in ps:
        if p.kind != "return":
            continue
        pc = p.cond()
        evs = [e for e in p.events if e.kind == "call"]
        errs = [e for e in evs if e.callee.startswith("MethodResponse::error")]
        cbs = [e for e in evs if re.search(r"as Fn<\(.*\)>>::call$", e.callee) and "dyn " in e.callee]
        for e in errs:
            if f"arg2.{fi_id}" not in str(to_term(MM.value_of(ex, e.args[0]))) and not (isinstance(MM.value_of(ex, e.args[0]), Node) and MM.value_of(ex, e.args[0]).name == f"arg2.{fi_id}"):
                viol.append(pc)              # every library-made error reply echoes the request's own id
        if len(cbs) > 1:
            viol.append(pc)
        if cbs:
            reach["handler"].append(pc)
            viol.append(z3.And(pc, z3.Not(found)))          # no handler runs for an unbound name
            tup = cbs[0].args[1]
            fields = []
            i = 0
            while isinstance(tup, Node) and i in tup.kids:
                fields.append(ex.read_node(tup.kids[i]))
                i += 1
            txt = [str(to_term(MM.value_of(ex, f))) if not isinstance(MM.value_of(ex, f), Node) else MM.value_of(ex, f).name for f in fields]
            if not fields or f"arg2.{fi_id}" not in txt[0]:
                viol.append(pc)              # the handler gets this request's id
            if not any(isinstance(f, z3.BitVecRef) and f.size() == 64 and z3.simplify(f).eq(maxsym) for f in fields):
                # (subscription callbacks do not take the size limit)
                kd = [c for c in p.pc if "callback.kind" in str(c)]
                if not any("2 == callback.kind" in str(c) for c in kd):
                    viol.append(pc)
        else:
            if not errs:
                viol.append(pc)
            elif not ex.feasible(list(p.pc) + [found]):
                reach["unknown"].append(pc)
                if _err_code(ex, errs[0]) != -32601:
                    viol.append(pc)
    return b, ctx, viol, reach, bad


def _blocking_join_error(core):
    """register_blocking_method: when the blocking task fails (handler panicked) the reply is -32603 with the call's own id"""
    b = R.find_body(core, r"^fn rpc_module::<impl at core/src/server/rpc_module\.rs:[\d: ]+>::register_blocking_method::\{closure#0\}::\{closure#1\}\(_1: \{closure@[^}]*\}, _2: Result<method_response::MethodResponse, JoinError>\)")
    outer = R.find_body(core, r"^fn rpc_module::<impl at core/src/server/rpc_module\.rs:[\d: ]+>::register_blocking_method::\{closure#0\}\(_1: &\{closure@")
    ctx = P.make_ctx(core, extra_models=ERROBJ_MODELS + list(M.TRACING_MODELS))
    ctx.inline = []
    ex = Executor(ctx)
    ps = ex.run(b)
    viol, reach = [], []
    bad = [(p.kind, p.detail) for p in ps if p.kind in ("unsupported", "limit", "unwound")]
    # which captured variable of the map-closure is the request id? (by name in the closure's debug info)
    id_caps = [nm for nm in b.debug if re.fullmatch(r"id\d*|request_id|id_\w+", nm)]
    for p in ps:
        if p.kind != "return":
            continue
        errs = [e for e in p.events if e.kind == "call" and re.search(r"MethodResponse::error", e.callee)]
        if not errs:
            continue
        pc = p.cond()
        reach.append(pc)
        idv = MM.value_of(ex, errs[0].args[0])
        from_capture = isinstance(idv, Node) and idv.name.startswith("arg1.") or "arg1." in str(to_term(idv))
        if _is_null_id(ex, errs[0].args[0]) or not from_capture:
            viol.append(pc)
        if _err_code(ex, errs[0]) != -32603:
            viol.append(pc)
    # and in the outer callback that captured value must be (a clone of) the id parameter
    ok_outer = None
    if reach and not viol:
        ctx2 = P.make_ctx(core, extra_models=list(M.TRACING_MODELS))
        ctx2.inline = []
        ex2 = Executor(ctx2)
        ok_outer = False
        for p in ex2.run(outer):
            if p.kind != "return":
                continue
            for bn in outer.order:
                for s in outer.blocks[bn].stmts:
                    if s[0] == "assign" and s[2][0] == "agg" and "rpc_module.rs" in s[2][1] and "{closure@" in s[2][1]:
                        for fname, op in s[2][2]:
                            if fname and re.fullmatch(r"id\d*|id_\w+", fname):
                                v = ex2.read_node(ex2.resolve(p.frame, 0, outer, op[1])) if op[0] in ("copy", "move") else None
                                if v is not None and "arg2" in (v.name if isinstance(v, Node) else str(to_term(v))):
                                    ok_outer = True
    return b, viol, reach, bad, ok_outer


def _ws_loop(srv):
    """ws::background_task: every received data message is handed to exactly one spawned per-message task (oversized ones get -32007 and the loop goes on)"""
    b = R.find_body(srv, r"^fn background_task::\{closure#0\}\(_1: Pin<&mut \{async fn body of background_task<S>")
    recvs = R.source_tables()["enums"].get("Receive")
    outcome = z3.BitVec("try_recv.outcome", 64)

    def m_poll_try_recv(ex, st, callee, args, dty, site):
        r = Node(ex.ctx.fresh_name("received"), "Receive")
        d = Node(r.name + ".discr", "isize")
        d.val = z3.BitVec(ex.ctx.fresh_name("try_recv.outcome"), 64)
        st["pc"].append(z3.ULE(d.val, len(recvs) - 1))
        r.kids["discr"] = d
        for vn in recvs:
            for j in range(2):
                kk = Node(f"{r.name}.{vn}:{j}", None)
                kk.val = Opaque(z3.Const(f"{r.name}.{vn}.{j}", OBJ))
                r.kids[(vn, j)] = kk
        return ex.mk_variant("Poll", 0, "Ready", r)
    extra = [(r"async fn body of try_recv<.*\(\)\} as (\w+::)*Future>::poll$", m_poll_try_recv)]
    ex, ctx, paths = P.explore(srv, b, extra_models=extra + SQ.TRY_MODELS + list(M.TRACING_MODELS), max_paths=30000, max_visits=3)
    viol, reach_ok, reach_big = [], [], []
    bad = [(p.kind, p.detail) for p in paths if p.kind in ("unsupported", "limit")]
    OKI = recvs.index("Ok")
    for p in paths:
        evs = [e for e in p.events if e.kind == "call"]
        # segments between consecutive polls of try_recv
        idxs = [i for i, e in enumerate(evs) if re.search(r"async fn body of try_recv<.*Future>::poll$", e.callee)]
        for n, i in enumerate(idxs):
            end = idxs[n + 1] if n + 1 < len(idxs) else len(evs)
            seg = evs[i + 1:end]
            complete = n + 1 < len(idxs) or p.kind == "return"
            if not complete:
                continue
            rec = ex.read_node(ex.child(evs[i].ret, ("Ready", 0), None)) if isinstance(evs[i].ret, Node) else None
            if rec is None:
                continue
            d = ex.discr_of(rec)
            is_ok = not ex.feasible(list(p.pc) + [d != OKI])
            if not is_ok:
                continue
            spawns = [e for e in seg if e.callee.startswith("tokio::spawn::<") and "ws.rs" in e.callee]
            pc = p.cond()
            reach_ok.append(pc)
            if len(spawns) != 1:
                viol.append(pc)              # a received message without its task (or with two)
                continue
            # the spawned block captured exactly this message
            blk = spawns[0].args[0]
            datak = blk.kids.get(("name", "data")) if isinstance(blk, Node) else None
            if datak is None or f"{rec.name}.Ok.0" not in str(to_term(ex.read_node(datak))):
                viol.append(pc)
    return b, ctx, viol, reach_ok, bad


def _ws_message_block(srv):
    """the per-message task: whitespace window 128, '{' single / '[' batch, else -32700/null; reply sent iff method call or batch"""
    res = []
    cb = R.find_body(srv, r"^fn background_task::\{closure#0\}::\{closure#\d+\}::\{closure#0\}\(_1: &mut \{closure@server/src/transport/ws\.rs[^}]*\}, _2: &\(usize, &u8\)\) -> bool")
    ctx = P.make_ctx(srv, extra_models=[])
    ctx.inline = [M.crate_inliner(srv)]
    ex = Executor(ctx)
    byte = z3.BitVec("byte", 8)
    bn = Node("byte", "u8")
    bn.val = byte
    tup = Node("item", "(usize,&u8)")
    a, bq = Node("item.0", "usize"), Node("item.1", None)
    a.val, bq.val = z3.BitVec("idx", 64), Ptr(bn)
    tup.kids[0], tup.kids[1] = a, bq
    ps = ex.run(cb, args=[None, Ptr(tup)])
    viol = [z3.And(p.cond(), ex.read_node(p.ret) != z3.Not(is_ws(byte))) for p in ps if p.kind == "return"]
    reach = [p.cond() for p in ps if p.kind == "return"]
    if [p for p in ps if p.kind != "return"] or not reach:
        res.append(R.Result(engine="mirsym", name="kernel:ws-sniff-closure", kind="kernel", status="unsupported", detail="closure not executable", bodies=[cb.name]))
    else:
        res.append(R.decide("kernel:ws-sniff-closure:is-not-ascii-whitespace", "kernel", z3.Or(*viol), [z3.Or(*reach)], bodies=[cb.name],
                            desc="WebSocket: the leading-whitespace predicate is exactly 'not ASCII whitespace' - the same set as on the HTTP path (C19), so both transports classify alike",
                            bounds="all 256 byte values", keydetail="ws-whitespace-set", replay=dict(scenario="c01_messages", vars={}, fixed={}, region=z3.BoolVal(True))))
    blk = R.find_body(srv, r"^fn background_task::\{closure#0\}::\{closure#\d+\}\(_1: Pin<&mut \{async block@server/src/transport/ws\.rs")
    found = z3.Bool("nonws.found")
    fb = z3.BitVec("nonws.byte", 8)
    window = []

    def m_take(ex, st, callee, args, dty, site):
        window.append(args[1])
        return args[0]

    def m_find(ex, st, callee, args, dty, site):
        o = Node(ex.ctx.fresh_name("found"), "Option<(usize,&u8)>")
        d = Node(o.name + ".discr", "isize")
        d.val = z3.If(found, z3.BitVecVal(1, 64), z3.BitVecVal(0, 64))
        o.kids["discr"] = d
        t = Node(o.name + ".Some:0", None)
        a_, b_ = Node(t.name + ".0", "usize"), Node(t.name + ".1", None)
        a_.val = z3.BitVec("nonws.idx", 64)
        byte_n = Node(t.name + ".byte", "u8")
        byte_n.val = fb
        b_.val = Ptr(byte_n)
        t.kids[0], t.kids[1] = a_, b_
        o.kids[("Some", 0)] = t
        return o
    extra = [(r"as Iterator>::take$", m_take), (r"as Iterator>::find::<", m_find), (r"as Iterator>::enumerate$", M.m_identity), (r"^core::slice::<impl \[u8\]>::iter$", M.m_identity)]
    ex, ctx, paths = P.explore(srv, blk, extra_models=extra + ERROBJ_MODELS + SQ.TRY_MODELS + list(M.TRACING_MODELS), max_paths=20000)
    viol, reach = [], {"single": [], "batch": [], "garbage": []}
    bad = [(p.kind, p.detail) for p in paths if p.kind in ("unsupported", "limit")]
    for p in paths:
        if p.state != 0 or p.kind != "return":
            continue
        evs = [e for e in p.events if e.kind == "call"]
        hrc = [e for e in evs if e.callee.startswith("handle_rpc_call::<")]
        se = [e for e in evs if e.callee.endswith("MethodSink::send_error")]
        pc = p.cond()
        if hrc:
            single = hrc[0].args[1]
            is_obj = z3.And(found, fb == ord("{"))
            is_arr = z3.And(found, fb == ord("["))
            viol.append(z3.And(pc, z3.Not(z3.Or(is_obj, is_arr))))
            if isinstance(single, z3.BoolRef):
                viol.append(z3.And(pc, single != is_obj))
            reach["single"].append(z3.And(pc, is_obj))
            reach["batch"].append(z3.And(pc, is_arr))
        elif se:
            reach["garbage"].append(pc)
            viol.append(z3.And(pc, found, z3.Or(fb == ord("{"), fb == ord("["))))
            if not _is_null_id(ex, se[0].args[1]) or _code_name(ex, se[0].args[2]) != "ParseError":
                viol.append(pc)
        else:
            viol.append(pc)
    win_ok = len(window) >= 1 and all(z3.is_bv_value(z3.simplify(w)) and z3.simplify(w).as_long() == 128 for w in window)
    reach_l = R.live_reach(viol, reach, bad)
    if bad or not all(reach_l):
        res.append(R.Result(engine="mirsym", name="order:ws-message-task", kind="order", status="unsupported" if bad else "vacuous", detail=str(bad[:1] or {k: len(v) for k, v in reach.items()})[:300], bodies=[blk.name]))
    else:
        q = [v if isinstance(v, z3.ExprRef) else z3.BoolVal(bool(v)) for v in viol] + [z3.BoolVal(not win_ok)]
        res.append(R.decide("order:ws-message-task:classification", "order", z3.Or(*q), [z3.Or(*v) for v in reach_l], bodies=[blk.name],
                            desc="WebSocket per-message task: first non-whitespace byte within the 128-byte window '{' -> single, '[' -> batch (handle_rpc_call on the text from there), "
                                 "anything else (also: nothing but whitespace, an empty message) -> one -32700 reply with id null",
                            bounds="first non-whitespace byte: absent / any byte value", keydetail="ws-classification",
                            replay=dict(scenario="c01_messages", vars={}, fixed={}, region=z3.BoolVal(True))))
    return res



def _native_battery(out, scenario, vectors, what):
    """validation, not the deciding step: the native scenario (real crates, oracle written from the property text) on fixed vectors must report nothing
    when every obligation is discharged; a disagreement means an obligation or the oracle is wrong => undecided"""
    val = R.validate_encoding(scenario, vectors, lambda v: {}, [])
    VALIDATION[what] = val
    if val.get("native_violations") and all(r.get("status") == "discharged" for r in out):
        out.append(R.Result(engine="mirsym", name="validation:" + what, kind="validation", status="native-battery-disagrees",
                            detail=f"{val['native_violations']} native violation(s) on the validation vectors although every obligation is discharged", bodies=[]))
    # "a message is left unanswered only if it is a notification" - and then really unanswered: the WebSocket reply decision (shared with C02)
    from . import C02 as _c02
    out.append(_c02._ws_reply_decision(R.bodies("server")))
    # "the same response object over HTTP and over WebSocket": every route builds its RpcService with the one configured response limit (shared with C08)
    from . import C08 as _c08
    out += _c08.response_limit_sites(R.bodies("server"))
    # "the handler's result for exactly those params": positional params reach the handler through ParamsSequence (C16 decides the decoder in full;
    # here the part a reply depends on: an acceptable element is never refused and the j-th read is the j-th element, whatever the spacing of the text)
    from . import C16 as _c16
    out += _c16.sequence_obligations(R.bodies("types"), "quick", K=2, Mx=2, only=("wrong-element", "error-on-acceptable-element", "panic"))
    return out


def obligations(tier, seed):
    srv = R.bodies("server")
    core = R.bodies("core")
    out = []
    b, ctx, viol, reach, bad = _single_branch(srv)
    reach_l = R.live_reach(viol, reach, bad)
    if bad or not all(reach_l):
        out.append(R.Result(engine="mirsym", name="single:classification", kind="kernel", status="unsupported" if bad else "vacuous", detail=str(bad[:1] or {k: len(v) for k, v in reach.items()})[:300], bodies=[b.name]))
    else:
        q = [v if isinstance(v, z3.ExprRef) else z3.BoolVal(bool(v)) for v in viol]
        out.append(R.decide("single:classification", "kernel", z3.Or(*q) if q else z3.BoolVal(False), [z3.Or(*v) for v in reach_l], bodies=[b.name],
                            desc="a single message leads to exactly one of: the call is dispatched (parses as a request), the notification path (no id), or one error reply built from "
                                 "what prepare_error recovered - in that order of attempts, never two", bounds="every accept/reject combination of the three parsers",
                            keydetail="single-classification", replay=dict(scenario="c01_messages", vars={}, fixed={}, region=z3.BoolVal(True))))
    b, viol, reach, bad = _prepare_error(core)
    reach_l = R.live_reach(viol, reach, bad)
    if bad or not reach_l[0]:
        out.append(R.Result(engine="mirsym", name="kernel:prepare_error", kind="kernel", status="unsupported", detail=str(bad[:1])[:300], bodies=[b.name]))
    else:
        out.append(R.decide("kernel:prepare_error", "kernel", z3.Or(*viol), [z3.Or(*reach_l[0])], bodies=[b.name],
                            desc="JSON object with a recoverable id -> (that id, -32600 invalid request); anything else -> (null, -32700 parse error)",
                            bounds="both parser outcomes", keydetail="prepare-error"))
    b, ctx, viol, reach, bad = _dispatch(srv)
    reach_l = R.live_reach(viol, reach, bad)
    if bad or not all(reach_l):
        out.append(R.Result(engine="mirsym", name="dispatch:RpcService::call", kind="provenance", status="unsupported" if bad else "vacuous", detail=str(bad[:1] or {k: len(v) for k, v in reach.items()})[:300], bodies=[b.name]))
    else:
        q = [v if isinstance(v, z3.ExprRef) else z3.BoolVal(bool(v)) for v in viol]
        out.append(R.decide("dispatch:RpcService::call:id-and-handler", "provenance", z3.Or(*q) if q else z3.BoolVal(False), [z3.Or(*v) for v in reach_l], bodies=[b.name],
                            desc="unknown method -> -32601 carrying the request's own id and no handler runs; a bound handler is invoked exactly once with this request's id, params and "
                                 "the configured response limit; every library-made error reply echoes the request id",
                            bounds="lookup result absent / present with any callback kind; every path", keydetail="dispatch",
                            replay=dict(scenario="c01_messages", vars={}, fixed={}, region=z3.BoolVal(True))))
    b, viol, reach, bad, ok_outer = _blocking_join_error(core)
    reach_l = R.live_reach(viol, reach, bad)
    if bad or not reach_l[0]:
        out.append(R.Result(engine="mirsym", name="prov:blocking-handler-failure", kind="provenance", status="unsupported" if bad else "vacuous", detail=str(bad[:1])[:300], bodies=[b.name]))
    else:
        q = [z3.BoolVal(True)] if (viol or ok_outer is False) else []
        r = R.decide("prov:blocking-handler-failure:own-id", "provenance", z3.Or(*[v if isinstance(v, z3.ExprRef) else z3.BoolVal(True) for v in viol]) if viol else z3.BoolVal(ok_outer is False),
                     [z3.Or(*reach_l[0])], bodies=[b.name],
                     desc="a blocking handler whose task fails (it panicked) is answered -32603 with the call's own id (captured from the callback's id argument), not id null",
                     bounds="the join-error arm of register_blocking_method", keydetail="")
        if r["status"] == "violated":
            r["key"] = "mirsym:c01:blocking-panic-id-null"
            r["replay"] = {"scenario": "c01_blocking_panic", "args": {}}
        out.append(r)
    b, ctx, viol, reach, bad = _ws_loop(srv)
    reach_l = R.live_reach(viol, reach, bad)
    if bad or not reach_l[0]:
        out.append(R.Result(engine="mirsym", name="order:ws-receive-loop", kind="order", status="unsupported" if bad else "vacuous", detail=str(bad[:1])[:300], bodies=[b.name]))
    else:
        out.append(R.decide("order:ws-receive-loop:one-task-per-message", "order", z3.Or(*viol) if viol else z3.BoolVal(False), [z3.Or(*reach_l[0])], bodies=[b.name],
                            desc="WebSocket receive loop: every data message received is handed - as it is, also when empty - to exactly one spawned per-message task before the next receive",
                            bounds="two loop iterations from any resume point; every try_recv outcome", keydetail="ws-message-dropped",
                            replay=dict(scenario="c01_messages", vars={}, fixed={}, region=z3.BoolVal(True))))
    out += _ws_message_block(srv)
    out.append(sniff_closure_obligation(core, name="kernel:http-sniff-closure", scenario="c01_messages"))
    return _native_battery(out, "c01_messages", [{}], "native-messages")
