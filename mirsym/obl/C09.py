"""C09 - connection failure handling (the sequential part): no background-task code path panics on peer-controlled input, and a
transport send error always leaves the send handler as an error (so the task shuts the client down with the cause)."""
import re
import z3
from .. import run as R, models as M, mapmodels as MM, prov as P, clienttable as T, listmodels as LM, seqmodels as SQ
from ..sym import Ctx, Executor, Node, Ptr, Opaque, OBJ, to_term, Fork

VALIDATION = {}


def m_string_truncate(ex, st, callee, args, dty, site):
    """String::truncate(n): panics unless n is a char boundary (>= len is a no-op)"""
    nb = z3.Bool(ex.ctx.fresh_name("truncate_inside_multibyte_char"))
    return ("panic", nb, Opaque(z3.Const("unit", OBJ)))


def m_value_to_string(ex, st, callee, args, dty, site):
    return ex.mk_variant("Result", 0, "Ok", Opaque(z3.Const(ex.ctx.fresh_name("json_text"), OBJ)))


PANIC_MODELS = [
    (r"^std::string::String::truncate$", m_string_truncate),
    (r"^serde_json::to_string::<serde_json::Value>$", m_value_to_string),
]
PANIC_DOC = ["String::truncate(n) panics when n falls inside a multi-byte character (solver-chosen)", "serde_json::to_string(&Value) cannot fail"]


def _recv_array(core, k):
    """handle_recv_message on an array of k elements whose ids are arbitrary u64: panic paths"""
    b = R.find_body(core, r"^fn handle_recv_message\(_1: &\[u8\], _2: &ThreadSafeRequestManager")
    ids = [z3.BitVec(f"elem{j}.id", 64) for j in range(k)]
    elems = [Opaque(z3.Const(f"elem{j}", OBJ)) for j in range(k)]

    def m_from_slice_vec(ex, st, callee, args, dty, site):
        return ex.mk_variant("Result", 0, "Ok", LM.new_list(ex, elems, name="raw_responses"))

    def m_find(ex, st, callee, args, dty, site):
        """first non-whitespace byte of the frame: any byte, or none at all (empty / all-whitespace frame)"""
        some = z3.Bool("frame.has_non_whitespace")

        def sm(ex_, st_, tr):
            byte = Node(ex_.ctx.fresh_name("first_byte"), "u8")
            byte.val = z3.BitVec("first_byte", 8)
            return ex_.mk_variant("Option", 1, "Some", Ptr(byte))
        return Fork([(some, sm), (z3.Not(some), lambda ex_, st_, tr: ex_.mk_variant("Option", 0, "None"))])

    def _slice(ex, v):
        n = v.node if isinstance(v, Ptr) else (ex.pointee(v) if isinstance(v, Node) and v.val is None and not v.kids else (v.val.node if isinstance(v, Node) and isinstance(v.val, Ptr) else v))
        return n if isinstance(n, Node) else None

    def m_position(ex, st, callee, args, dty, site):
        """Iterator::position over the frame's bytes: Some(i) with i < len, or None"""
        it = args[0].node if isinstance(args[0], Ptr) else args[0]
        sl = _slice(ex, ex.read_node(it) if isinstance(it, Node) else it)
        if sl is None:
            return NotImplemented
        ln = ex.read_node(ex.child(sl, "len", "usize"))
        some = z3.Bool("frame.has_non_whitespace")
        i = z3.BitVec("frame.first_non_whitespace_at", 64)

        def sm(ex_, st_, tr):
            st_["pc"].append(z3.ULT(i, ln))
            return ex_.mk_variant("Option", 1, "Some", i)
        return Fork([(some, sm), (z3.Not(some), lambda ex_, st_, tr: ex_.mk_variant("Option", 0, "None"))])

    def m_index_from(ex, st, callee, args, dty, site):
        """&slice[a..]: panics when a > len; the rest has len - a bytes"""
        sl = _slice(ex, args[0])
        rng = MM.value_of(ex, args[1])
        a = ex.read_node(rng.kids[0]) if isinstance(rng, Node) and 0 in rng.kids else None
        if sl is None or a is None:
            return NotImplemented
        ln = ex.read_node(ex.child(sl, "len", "usize"))
        rest = Node(ex.ctx.fresh_name("frame_rest"), "[u8]")
        ex.child(rest, "len", "usize").val = ln - a
        return ("panic", z3.UGT(a, ln), Ptr(rest))

    def m_rawget(ex, st, callee, args, dty, site):
        return Opaque(z3.Const("text:" + str(to_term(args[0])), OBJ))

    def m_parse_response(ex, st, callee, args, dty, site):
        """from_str::<Response>(element): accepted or not (solver); an accepted response carries an arbitrary u64 id"""
        src = str(to_term(args[0]))
        m = re.search(r"elem(\d+)", src)
        okb = z3.Bool(ex.ctx.fresh_name("is_response"))
        r = Node(ex.ctx.fresh_name("parsed"), "Result<Response, Error>")
        d = Node(r.name + ".discr", "isize")
        d.val = z3.If(okb, z3.BitVecVal(0, 64), z3.BitVecVal(1, 64))
        r.kids["discr"] = d
        resp = Node(r.name + ".Ok:0", "Response")
        fi = R.field_index("Response", "id")
        idn = Node(f"{resp.name}.{fi}", None)
        ex.write(idn, T.id_number(ex, ids[int(m.group(1))] if m else z3.BitVec(ex.ctx.fresh_name("single.id"), 64)))
        resp.kids[fi] = idn
        r.kids[("Ok", 0)] = resp
        return r

    extra = [(r"^from_slice::<'_, Vec<&RawValue>>$", m_from_slice_vec), (r"^<std::slice::Iter<'_, u8> as Iterator>::find::<", m_find), (r"^RawValue::get$", m_rawget),
             (r"^<std::slice::Iter<'_, u8> as Iterator>::position::<", m_position), (r"^core::slice::<impl \[u8\]>::iter$", M.m_identity),
             (r"^<\[u8\] as (std::ops::)?Index<(std::ops::)?RangeFrom<usize>>>::index$", m_index_from),
             (r"^(serde_json::)?from_(str|slice)::<'_, jsonrpsee_types::Response<'_, Box<RawValue>>>$", m_parse_response),
             (r"^jsonrpsee_types::Response::<.*>::into_owned$", M.m_identity), (r"^std::option::Option::<std::ops::Range<u64>>::get_or_insert$", m_get_or_insert)]
    ctx = P.make_ctx(core, extra_models=extra + PANIC_MODELS + T.CLIENT_MODELS + LM.LIST_MODELS + list(M.TRACING_MODELS), max_paths=30000, max_visits=k + 2)
    # the per-kind handlers are checked by C03/C05/C12: here they are recorded calls; unparse_error is executed
    inl = M.crate_inliner(core)
    ctx.inline = [lambda callee, argvals: (inl(callee, argvals) if re.search(r"unparse_error|try_parse_inner_as_number", callee) else None)]
    ex = Executor(ctx)
    paths = ex.run(b)
    return b, ctx, ex, paths, ids


def m_get_or_insert(ex, st, callee, args, dty, site):
    """Option::get_or_insert(&mut opt, v) -> &mut T"""
    o = args[0].node if isinstance(args[0], Ptr) else args[0]
    if not isinstance(o, Node):
        return NotImplemented
    d = z3.simplify(ex.discr_of(o))
    if not z3.is_bv_value(d):
        return NotImplemented
    if d.as_long() == 0:
        nn = ex.mk_variant("Option", 1, "Some", args[1])
        o.val, o.kids, o.variant = nn.val, nn.kids, nn.variant
    return Ptr(ex.child(o, ("Some", 0), None))


def _send_errors(core):
    """handle_frontend_messages: a failed transport send (on any arm) makes the handler return Err"""
    b = R.find_body(core, r"^fn handle_frontend_messages::\{closure#0\}\(_1: Pin<&mut \{async fn body of handle_frontend_messages<S>")
    ex, ctx, paths = P.explore(core, b, extra_models=T.CLIENT_MODELS + MM.MAP_MODELS + SQ.TRY_MODELS + list(M.TRACING_MODELS), max_paths=8000)
    poll_rx = r"as (futures_util::|std::future::)?Future>::poll$"
    want_rx = r"TransportSenderT>::send|stop_subscription|send_ping"
    viol, reach = [], []
    sites = set()
    for p in paths:
        if p.kind != "return":
            continue
        polls = [e for e in p.events if e.kind == "call" and re.search(poll_rx, e.callee) and re.search(want_rx, e.callee)]
        if not polls:
            continue
        conds = []
        for e in polls:
            if not isinstance(e.ret, Opaque):
                continue
            sites.add(e.block)
            ready = ex.discr_of(e.ret) == 0
            inner = ex.func("proj.Ready:0", [OBJ], OBJ)(e.ret.term)
            is_err = ex.func("discr", [OBJ], z3.BitVecSort(64))(inner) == 1
            conds.append(z3.And(ready, is_err))
        if not conds:
            continue
        send_failed = z3.Or(*conds)
        rd = ex.discr_of(p.ret)
        payload = ex.child(p.ret, ("Ready", 0), None)
        ret_err = z3.And(rd == 0, ex.discr_of(ex.read_node(payload) if not isinstance(ex.read_node(payload), z3.ExprRef) else payload) == 1)
        pc = p.cond()
        viol.append(z3.And(pc, send_failed, z3.Not(ret_err)))
        reach.append(z3.And(pc, send_failed))
    return b, ctx, viol, reach, sorted(sites)


def _read_error(core):
    """ErrorFromBack::read_error: once the background has gone, every reader gets RestartNeeded(the stored cause) - reading does not consume the cause"""
    b = R.find_body(core, r"^fn async_client::<impl at core/src/client/async_client/mod\.rs:[\d: ]+>::read_error::\{closure#0\}\(_1: Pin<&mut \{async fn body of ErrorFromBack::read_error\(\)\}>")
    cap = P.capture_index(b, "self")
    fi_reason = R.field_index("ErrorFromBack", "disconnect_reason")
    stored = z3.Bool("cause.stored")

    def m_lock(ex, st, callee, args, dty, site):
        g = Node(ex.ctx.fresh_name("guard"), "Guard")
        g.val = args[0] if isinstance(args[0], Ptr) else Ptr(MM.value_of(ex, args[0]))
        return ex.mk_variant("Result", 0, "Ok", g)

    def m_guard_deref(ex, st, callee, args, dty, site):
        g = args[0].node if isinstance(args[0], Ptr) else args[0]
        return ex.read_node(g)

    def m_poll_closed(ex, st, callee, args, dty, site):
        return ex.mk_variant("Poll", 0, "Ready", MM.UNIT)
    models = [(r"^std::sync::(RwLock|Mutex)::<.*>::(read|write|lock)$", m_lock), (r"^<std::sync::(RwLockReadGuard|RwLockWriteGuard|MutexGuard)<.*> as Deref(Mut)?>::deref(_mut)?$", m_guard_deref),
              (r"closed\(\)\} as (futures_util::|std::future::)?Future>::poll$", m_poll_closed)] + MM.ARC_MODELS + list(SQ.TRY_MODELS) + list(M.TRACING_MODELS)
    ctx = P.make_ctx(core, extra_models=models)
    ctx.inline = []
    ex = Executor(ctx)
    viol, reach = [], {"with-cause": [], "without": []}
    bad = []
    for has in (True, False):
        opt = MM.option(ex, has, Opaque(z3.Const("the_disconnect_cause", OBJ)))
        arc = MM.new_arc(ex, opt)
        me = Node("error_from_back", "ErrorFromBack")
        k = Node(f"error_from_back.{fi_reason}", None)
        ex.write(k, arc)
        me.kids[fi_reason] = k
        state = Node(ex.ctx.fresh_name("coroutine"), None)
        d = Node(state.name + ".discr", "isize")
        d.val = z3.BitVecVal(0, 64)
        state.kids["discr"] = d
        up = Node(f"{state.name}.{cap}", None)
        up.val = Ptr(me)
        state.kids[cap] = up
        pin = Node(ex.ctx.fresh_name("pin"), "Pin")
        p0 = Node(pin.name + ".0", None)
        p0.val = Ptr(state)
        pin.kids[0] = p0
        for p in ex.run(b, args=[pin, Opaque(z3.Const("cx", OBJ))], extra_roots=[me]):
            if p.kind != "return":
                bad.append((p.kind, p.detail))
                continue
            me2 = p.frame["mem"][("extra", 0)]
            a2 = MM.arc_node(ex, ex.read_node(me2.kids[fi_reason]))
            after = a2.kids["ptr"].val.node.kids["v"] if a2 is not None else None
            ad = z3.simplify(ex.discr_of(after)) if isinstance(after, Node) else None
            still = ad is not None and z3.is_bv_value(ad) and ad.as_long() == 1
            ret = ex.read_node(p.ret.kids[("Ready", 0)]) if isinstance(p.ret, Node) and ("Ready", 0) in p.ret.kids else None
            txt = _deep_text(ex, ret)
            if has:
                reach["with-cause"].append(p.cond())
                if not still or "the_disconnect_cause" not in txt or "RestartNeeded" not in _variant_name(ex, ret):
                    viol.append(p.cond())
            else:
                reach["without"].append(p.cond())
    return b, viol, reach, bad


def _variant_name(ex, v):
    if isinstance(v, Node) and "discr" in v.kids:
        d = z3.simplify(ex.read_node(v.kids["discr"]))
        if z3.is_bv_value(d):
            names = R.source_tables()["enums"].get("Error", [])
            return names[d.as_long()] if d.as_long() < len(names) else "?"
    return "?"


def _deep_text(ex, v, depth=0):
    v = MM.value_of(ex, v) if v is not None else v
    if isinstance(v, Node):
        inner = " ".join(_deep_text(ex, k, depth + 1) for kk, k in v.kids.items() if depth < 8 and not (isinstance(kk, tuple) and kk[0] == "name"))
        if isinstance(v.variant, tuple) and v.variant and v.variant[0] == "arc":
            inner += " " + _deep_text(ex, v.kids["ptr"].val.node.kids["v"], depth + 1)
        return (str(to_term(v.val)) if v.val is not None and not isinstance(v.val, Ptr) else "") + " " + inner
    return str(to_term(v)) if v is not None else ""


def _read_task_shutdown_watch(core):
    """read_task leaves its loop early with Ok(()) only when the shutdown-report channel itself is closed (nobody is left to report to). Watching any other channel -
    e.g. the queue towards the send task, which the send task closes first thing on a send failure - would make the read task report a clean Ok(()) ahead of the send
    task's error, and every caller would get the 'cause unknown' placeholder"""
    from .. import listmodels as LM, seqmodels as SQ
    b = R.find_body(core, r"^fn read_task::\{closure#0\}\(_1: Pin<&mut \{async fn body of read_task<")
    okb = z3.Bool("handle_backend.ok")

    def m_hbm(ex, st, callee, args, dty, site):
        lst = LM.new_list(ex, [Opaque(z3.Const("followup0", OBJ))], name="messages")
        return Fork([(okb, lambda ex_, st_, tr: ex_.mk_variant("Result", 0, "Ok", lst)),
                     (z3.Not(okb), lambda ex_, st_, tr: ex_.mk_variant("Result", 1, "Err", Opaque(z3.Const("read_error", OBJ))))])
    ex, ctx, paths = P.explore(core, b, extra_models=[(r"^handle_backend_messages::<", m_hbm)] + LM.LIST_MODELS + list(SQ.TRY_MODELS) + list(M.TRACING_MODELS), max_paths=6000, max_visits=3)
    bad = [(p.kind, p.detail) for p in paths if p.kind in ("unsupported", "limit")]
    viol, reach = [], []
    report = r"mpsc::Sender::<Result<\(\), (\w+::)*Error>>::"
    for p in paths:
        evs = [e for e in p.events if e.kind == "call"]
        watched = [e for e in evs if re.search(r"mpsc::Sender::<.*>::closed$", e.callee)]
        polled = [e for e in evs if re.search(r"as (futures_util::)?Stream(Ext)?>::(poll_)?next|MaybePendingFutures::<.*>::(poll_)?next", e.callee)]
        if not watched and not polled:
            continue
        pc = p.cond()
        reach.append(pc)
        sends = [e for e in evs if re.search(report + r"send$", e.callee)]
        ok = bool(watched) and all(re.search(report + r"closed$", e.callee) for e in watched)
        if ok and sends:
            # the channel watched is the one the outcome is reported on
            root = lambda t: re.sub(r"\s+", " ", str(to_term(t)))[:40]
            ok = all(root(w.args[0]) == root(sends[-1].args[0]) for w in watched)
        if not ok:
            viol.append(pc)
    reach_l = R.live_reach(viol, reach, bad)
    nm = "prov:read_task:shutdown-watch"
    if bad or not reach_l[0]:
        return R.Result(engine="mirsym", name=nm, kind="provenance", status="unsupported" if bad else "vacuous", detail=str(bad[:1])[:300], bodies=[b.name])
    return R.decide(nm, "provenance", z3.Or(*viol) if viol else z3.BoolVal(False), [z3.Or(*reach_l[0])], bodies=[b.name],
                    desc="the only channel whose closing makes read_task stop with a clean Ok(()) is the shutdown-report channel it reports its own outcome on - not the queue to the send "
                         "task, which that task closes before it reports a send failure", bounds="every path of the read_task coroutine up to three loop iterations",
                    keydetail="shutdown-watch", replay=dict(scenario="c09_send_fails_on_unsubscribe", vars={}, fixed={}, region=z3.BoolVal(True)))


def obligations(tier, seed):
    core = R.bodies("core")
    out = []
    for k in ((1, 2) if tier == "quick" else (1, 2, 3)):
        b, ctx, ex, paths, ids = _recv_array(core, k)
        bad = [(p.kind, p.detail) for p in paths if p.kind in ("unsupported", "limit", "unwound")]
        panics = [p for p in paths if p.kind == "panic"]
        rets = [p for p in paths if p.kind == "return"]
        name = f"no-panic:handle_recv_message:{k}-elements"
        common = dict(bodies=sorted(ctx.encoded_bodies), extra={"models": PANIC_DOC + ["parsers uninterpreted (accept/reject solver-chosen); accepted responses carry ANY u64 id"]})
        if bad or not rets:
            out.append(R.Result(engine="mirsym", name=name, kind="kernel", status="unsupported" if bad else "vacuous", detail=str(bad[:1])[:300], bodies=common["bodies"]))
            continue
        kinds = {}
        for p in panics:
            what = "arithmetic-overflow" if "overflow" in p.detail else ("truncate" if "truncate" in p.detail else re.sub(r"@.*", "", p.detail)[:60])
            kinds.setdefault(what, []).append(p)
        if not kinds:
            out.append(R.decide(name, "kernel", z3.BoolVal(False), [z3.Or(*[p.cond() for p in rets])],
                                desc="no panic (overflow / unwrap / expect / unreachable / char-boundary) on any path for any bytes the server may send", bounds=f"first byte any; arrays of {k}; ids any u64", **common))
        for what, ps in sorted(kinds.items()):
            r = R.decide(f"{name}:{what}", "kernel", z3.Or(*[p.cond() for p in ps]), [z3.Or(*[p.cond() for p in rets])],
                         desc="no panic on any path for any bytes the server may send", bounds=f"first byte any; arrays of {k} element(s); response ids any u64", **common)
            if r["status"] == "violated":
                r["key"] = f"mirsym:c09:panic:{what}"
                r["model"] = {"where": ps[0].detail, "ids": {str(i): r.get("model", {}).get(str(i)) for i in ids}}
                r["replay"] = {"scenario": "c09_server_bytes", "args": {"what": what}}
            out.append(r)
    b, ctx, viol, reach, sites = _send_errors(core)
    if not reach:
        out.append(R.Result(engine="mirsym", name="order:send-error-propagates", kind="order", status="vacuous", detail="no send poll reached", bodies=[b.name]))
    else:
        out.append(R.decide("order:handle_frontend_messages:send-error-propagates", "order", z3.Or(*viol), [z3.Or(*reach)], bodies=[b.name],
                            desc="whenever the transport's send (request, batch, notification, subscribe, unsubscribe on drop / lag) completes with an error, the handler returns Err, "
                                 "so the send task breaks with Error::Transport(cause) and the client shuts down", bounds="every message variant, every resume point",
                            keydetail="send-error-swallowed", extra={"sites": sites},
                            replay=dict(scenario="c09_send_fails_on_unsubscribe", vars={}, fixed={}, region=z3.BoolVal(True))))
    seen = set()
    for r in out:
        if r.get("status") == "violated" and r.get("key"):
            if r["key"] in seen:
                r["status"] = "violated-duplicate"
            seen.add(r["key"])
    b, viol, reach, bad = _read_error(core)
    reach_l = R.live_reach(viol, reach, bad)
    if bad or not all(reach_l):
        out.append(R.Result(engine="mirsym", name="kernel:ErrorFromBack::read_error", kind="kernel", status="unsupported" if bad else "vacuous", detail=str(bad[:1] or {k: len(v) for k, v in reach.items()})[:300], bodies=[b.name]))
    else:
        out.append(R.decide("kernel:ErrorFromBack::read_error:cause-not-consumed", "kernel", z3.Or(*viol) if viol else z3.BoolVal(False), [z3.Or(*v) for v in reach_l], bodies=[b.name],
                            desc="reading the disconnect cause returns RestartNeeded(that cause) and leaves it stored, so every outstanding and later call, and every on_disconnect(), "
                                 "gets the cause - never the 'cause unknown' placeholder - once it was recorded", bounds="cause recorded / not recorded", keydetail="cause-consumed",
                            replay=dict(scenario="c09_cause_for_everyone", vars={}, fixed={}, region=z3.BoolVal(True))))
    # "no call, batch or subscribe future stays pending longer than the request timeout ... for any bytes the server may send": whatever a subscribe is answered with -
    out.append(_read_task_shutdown_watch(core))
    # also a subscription id already in use - its caller's channel is completed (shared with C03: the routing step)
    from . import C03 as _c03
    for r in _c03.route_obligations(core, [("pending_sub", "active_sub")]):
        if r.get("name", "").endswith(":own-response"):
            out.append(r)
    return out
