"""C09 - connection failure handling (the sequential part): no background-task code path panics on peer-controlled input, and a
transport send error always leaves the send handler as an error (so the task shuts the client down with the cause)."""
import re
import z3
from .. import run as R, models as M, mapmodels as MM, prov as P, clienttable as T, listmodels as LM, seqmodels as SQ
from ..sym import Ctx, Executor, Node, Ptr, Opaque, OBJ, to_term

VALIDATION = {}


def m_string_truncate(ex, st, callee, args, dty, site):
    """String::truncate(n): panics unless n is a char boundary (>= len is a no-op)"""
    nb = z3.Bool(ex.ctx.fresh_name("truncate_inside_multibyte_char"))
    return ("panic", nb, Opaque(z3.Const("unit", OBJ)))


def m_value_to_string(ex, st, callee, args, dty, site):
    return ex.mk_variant("Result", 0, "Ok", Opaque(z3.Const(ex.ctx.fresh_name("json_text"), OBJ)))


PANIC_MODELS = [
    (r"^std::string::String::truncate$", m_string_truncate),
    (r"^serde_json::to_string::<serde_json::Value>$", m_value_to_string),
]
PANIC_DOC = ["String::truncate(n) panics when n falls inside a multi-byte character (solver-chosen)", "serde_json::to_string(&Value) cannot fail"]


def _recv_array(core, k):
    """handle_recv_message on an array of k elements whose ids are arbitrary u64: panic paths"""
    b = R.find_body(core, r"^fn handle_recv_message\(_1: &\[u8\], _2: &ThreadSafeRequestManager")
    ids = [z3.BitVec(f"elem{j}.id", 64) for j in range(k)]
    elems = [Opaque(z3.Const(f"elem{j}", OBJ)) for j in range(k)]

    def m_from_slice_vec(ex, st, callee, args, dty, site):
        return ex.mk_variant("Result", 0, "Ok", LM.new_list(ex, elems, name="raw_responses"))

    def m_find(ex, st, callee, args, dty, site):
        byte = Node(ex.ctx.fresh_name("first_byte"), "u8")
        byte.val = z3.BitVec("first_byte", 8)
        return ex.mk_variant("Option", 1, "Some", Ptr(byte))

    def m_rawget(ex, st, callee, args, dty, site):
        return Opaque(z3.Const("text:" + str(to_term(args[0])), OBJ))

    def m_parse_response(ex, st, callee, args, dty, site):
        """from_str::<Response>(element): accepted or not (solver); an accepted response carries an arbitrary u64 id"""
        src = str(to_term(args[0]))
        m = re.search(r"elem(\d+)", src)
        okb = z3.Bool(ex.ctx.fresh_name("is_response"))
        r = Node(ex.ctx.fresh_name("parsed"), "Result<Response, Error>")
        d = Node(r.name + ".discr", "isize")
        d.val = z3.If(okb, z3.BitVecVal(0, 64), z3.BitVecVal(1, 64))
        r.kids["discr"] = d
        resp = Node(r.name + ".Ok:0", "Response")
        fi = R.field_index("Response", "id")
        idn = Node(f"{resp.name}.{fi}", None)
        ex.write(idn, T.id_number(ex, ids[int(m.group(1))] if m else z3.BitVec(ex.ctx.fresh_name("single.id"), 64)))
        resp.kids[fi] = idn
        r.kids[("Ok", 0)] = resp
        return r

    extra = [(r"^from_slice::<'_, Vec<&RawValue>>$", m_from_slice_vec), (r"^<std::slice::Iter<'_, u8> as Iterator>::find::<", m_find), (r"^RawValue::get$", m_rawget),
             (r"^(serde_json::)?from_(str|slice)::<'_, jsonrpsee_types::Response<'_, Box<RawValue>>>$", m_parse_response),
             (r"^jsonrpsee_types::Response::<.*>::into_owned$", M.m_identity), (r"^std::option::Option::<std::ops::Range<u64>>::get_or_insert$", m_get_or_insert)]
    ctx = P.make_ctx(core, extra_models=extra + PANIC_MODELS + T.CLIENT_MODELS + LM.LIST_MODELS + list(M.TRACING_MODELS), max_paths=30000, max_visits=k + 2)
    # the per-kind handlers are checked by C03/C05/C12: here they are recorded calls; unparse_error is executed
    inl = M.crate_inliner(core)
    ctx.inline = [lambda callee, argvals: (inl(callee, argvals) if re.search(r"unparse_error|try_parse_inner_as_number", callee) else None)]
    ex = Executor(ctx)
    paths = ex.run(b)
    return b, ctx, ex, paths, ids


def m_get_or_insert(ex, st, callee, args, dty, site):
    """Option::get_or_insert(&mut opt, v) -> &mut T"""
    o = args[0].node if isinstance(args[0], Ptr) else args[0]
    if not isinstance(o, Node):
        return NotImplemented
    d = z3.simplify(ex.discr_of(o))
    if not z3.is_bv_value(d):
        return NotImplemented
    if d.as_long() == 0:
        nn = ex.mk_variant("Option", 1, "Some", args[1])
        o.val, o.kids, o.variant = nn.val, nn.kids, nn.variant
    return Ptr(ex.child(o, ("Some", 0), None))


def _send_errors(core):
    """handle_frontend_messages: a failed transport send (on any arm) makes the handler return Err"""
    b = R.find_body(core, r"^fn handle_frontend_messages::\{closure#0\}\(_1: Pin<&mut \{async fn body of handle_frontend_messages<S>")
    ex, ctx, paths = P.explore(core, b, extra_models=T.CLIENT_MODELS + MM.MAP_MODELS + SQ.TRY_MODELS + list(M.TRACING_MODELS), max_paths=8000)
    poll_rx = r"as (futures_util::|std::future::)?Future>::poll$"
    want_rx = r"TransportSenderT>::send|stop_subscription|send_ping"
    viol, reach = [], []
    sites = set()
    for p in paths:
        if p.kind != "return":
            continue
        polls = [e for e in p.events if e.kind == "call" and re.search(poll_rx, e.callee) and re.search(want_rx, e.callee)]
        if not polls:
            continue
        conds = []
        for e in polls:
            if not isinstance(e.ret, Opaque):
                continue
            sites.add(e.block)
            ready = ex.discr_of(e.ret) == 0
            inner = ex.func("proj.Ready:0", [OBJ], OBJ)(e.ret.term)
            is_err = ex.func("discr", [OBJ], z3.BitVecSort(64))(inner) == 1
            conds.append(z3.And(ready, is_err))
        if not conds:
            continue
        send_failed = z3.Or(*conds)
        rd = ex.discr_of(p.ret)
        payload = ex.child(p.ret, ("Ready", 0), None)
        ret_err = z3.And(rd == 0, ex.discr_of(ex.read_node(payload) if not isinstance(ex.read_node(payload), z3.ExprRef) else payload) == 1)
        pc = p.cond()
        viol.append(z3.And(pc, send_failed, z3.Not(ret_err)))
        reach.append(z3.And(pc, send_failed))
    return b, ctx, viol, reach, sorted(sites)


def obligations(tier, seed):
    core = R.bodies("core")
    out = []
    for k in ((1, 2) if tier == "quick" else (1, 2, 3)):
        b, ctx, ex, paths, ids = _recv_array(core, k)
        bad = [(p.kind, p.detail) for p in paths if p.kind in ("unsupported", "limit", "unwound")]
        panics = [p for p in paths if p.kind == "panic"]
        rets = [p for p in paths if p.kind == "return"]
        name = f"no-panic:handle_recv_message:{k}-elements"
        common = dict(bodies=sorted(ctx.encoded_bodies), extra={"models": PANIC_DOC + ["parsers uninterpreted (accept/reject solver-chosen); accepted responses carry ANY u64 id"]})
        if bad or not rets:
            out.append(R.Result(engine="mirsym", name=name, kind="kernel", status="unsupported" if bad else "vacuous", detail=str(bad[:1])[:300], bodies=common["bodies"]))
            continue
        kinds = {}
        for p in panics:
            what = "arithmetic-overflow" if "overflow" in p.detail else ("truncate" if "truncate" in p.detail else re.sub(r"@.*", "", p.detail)[:60])
            kinds.setdefault(what, []).append(p)
        if not kinds:
            out.append(R.decide(name, "kernel", z3.BoolVal(False), [z3.Or(*[p.cond() for p in rets])],
                                desc="no panic (overflow / unwrap / expect / unreachable / char-boundary) on any path for any bytes the server may send", bounds=f"first byte any; arrays of {k}; ids any u64", **common))
        for what, ps in sorted(kinds.items()):
            r = R.decide(f"{name}:{what}", "kernel", z3.Or(*[p.cond() for p in ps]), [z3.Or(*[p.cond() for p in rets])],
                         desc="no panic on any path for any bytes the server may send", bounds=f"first byte any; arrays of {k} element(s); response ids any u64", **common)
            if r["status"] == "violated":
                r["key"] = f"mirsym:c09:panic:{what}"
                r["model"] = {"where": ps[0].detail, "ids": {str(i): r.get("model", {}).get(str(i)) for i in ids}}
                r["replay"] = {"scenario": "c09_server_bytes", "args": {"what": what}}
            out.append(r)
    b, ctx, viol, reach, sites = _send_errors(core)
    if not reach:
        out.append(R.Result(engine="mirsym", name="order:send-error-propagates", kind="order", status="vacuous", detail="no send poll reached", bodies=[b.name]))
    else:
        out.append(R.decide("order:handle_frontend_messages:send-error-propagates", "order", z3.Or(*viol), [z3.Or(*reach)], bodies=[b.name],
                            desc="whenever the transport's send (request, batch, notification, subscribe, unsubscribe on drop / lag) completes with an error, the handler returns Err, "
                                 "so the send task breaks with Error::Transport(cause) and the client shuts down", bounds="every message variant, every resume point",
                            keydetail="send-error-swallowed", extra={"sites": sites},
                            replay=dict(scenario="c09_send_fails_on_unsubscribe", vars={}, fixed={}, region=z3.BoolVal(True))))
    seen = set()
    for r in out:
        if r.get("status") == "violated" and r.get("key"):
            if r["key"] in seen:
                r["status"] = "violated-duplicate"
            seen.add(r["key"])
    return out
