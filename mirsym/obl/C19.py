"""C19 - only JSON POSTs reach RPC; read_body's answer depends on the body bytes only, not on how they are chunked.

read_body (the real coroutine MIR) is executed over a body given as k chunks; a chunk is abstracted to what read_body can
observe of it: its length, the number of leading whitespace bytes, and the first non-whitespace byte. The result is compared
by the solver with the result of the same code on the concatenation delivered as one chunk.
"""
import re
import z3
from .. import run as R, models as M, mapmodels as MM, prov as P, clienttable as T, seqmodels as SQ, listmodels as LM
from ..sym import Ctx, Executor, Node, Ptr, Opaque, OBJ, to_term, Fork

VALIDATION = {}
WS = (0x20, 0x09, 0x0A, 0x0C, 0x0D)


def is_ws(b):
    return z3.Or(*[b == w for w in WS])


class Chunks:
    """symbolic description of a body: per chunk (len, ws = leading whitespace count <= len, first = first non-ws byte (valid iff ws < len))"""

    def __init__(self, k, tag):
        self.k = k
        self.len = [z3.BitVec(f"{tag}.c{i}.len", 64) for i in range(k)]
        self.ws = [z3.BitVec(f"{tag}.c{i}.ws", 64) for i in range(k)]
        self.first = [z3.BitVec(f"{tag}.c{i}.first", 8) for i in range(k)]

    def valid(self):
        cs = []
        for i in range(self.k):
            cs += [z3.ULE(self.ws[i], self.len[i]), z3.ULT(self.len[i], 1 << 31), z3.Not(is_ws(self.first[i]))]
        return z3.And(*cs) if cs else z3.BoolVal(True)


def run_read_body(core, ch, cl_present, cl_value, limit):
    """returns list of (pc, outcome) with outcome = ('ok', len, single) | ('err', kind:int) ; kinds from enum HttpError"""
    b = R.find_body(core, r"^fn read_body::\{closure#0\}\(_1: Pin<&mut \{async fn body of read_body<B>")
    k = ch.k

    def m_content_length(ex, st, callee, args, dty, site):
        o = Node(ex.ctx.fresh_name("cl"), "Option<u32>")
        d = Node(o.name + ".discr", "isize")
        d.val = z3.If(cl_present, z3.BitVecVal(1, 64), z3.BitVecVal(0, 64))
        o.kids["discr"] = d
        kk = Node(o.name + ".Some:0", "u32")
        kk.val = cl_value
        o.kids[("Some", 0)] = kk
        return o

    def m_limited_new(ex, st, callee, args, dty, site):
        n = Node(ex.ctx.fresh_name("limited"), "Limited")
        n.variant = ("limited", 0)           # next frame index
        lim = Node(n.name + ".limit", "usize")
        lim.val = args[1]
        tot = Node(n.name + ".remaining", "usize")
        tot.val = args[1]
        n.kids["limit"], n.kids["remaining"] = lim, tot
        return n

    def m_frame(ex, st, callee, args, dty, site):
        f = Node(ex.ctx.fresh_name("framefut"), "FrameFuture")
        p = Node(f.name + ".body", None)
        tgt = args[0] if isinstance(args[0], Ptr) else Ptr(args[0])
        bn = tgt.node
        if not (isinstance(bn.variant, tuple) and bn.variant and bn.variant[0] == "limited"):
            # frame() directly on the body (no http_body_util::Limited around it): an unlimited source of the same chunks
            bn.variant = ("limited", 0)
            rem = Node(bn.name + ".remaining", "usize")
            rem.val = z3.BitVecVal((1 << 64) - 1, 64)
            bn.kids["remaining"] = rem
        p.val = tgt
        f.kids["body"] = p
        return f

    def m_poll(ex, st, callee, args, dty, site):
        """poll of the frame future: the body is ready at once (chunking, not scheduling, is the subject): yields chunk i or end;
        http_body_util::Limited: a frame that would exceed the remaining allowance yields Err(LengthLimitError)"""
        pin = args[0]
        fut = ex.read_node(ex.child(pin, 0, None)) if isinstance(pin, Node) else pin
        fut = fut.node if isinstance(fut, Ptr) else fut
        lim = fut.kids["body"].val.node
        i = lim.variant[1]

        def ready(ex_, payload_opt):
            return ex_.mk_variant("Poll", 0, "Ready", payload_opt)
        if i >= k:
            return ready(ex, MM.option(ex, False))
        rem = ex.read_node(lim.kids["remaining"])
        fits = z3.ULE(ch.len[i], rem)

        def ok(ex_, st_, tr):
            l2 = tr(lim)
            l2.variant = ("limited", i + 1)
            l2.kids["remaining"].val = ex_.read_node(l2.kids["remaining"]) - ch.len[i]
            fr = Node(ex_.ctx.fresh_name("frame"), "Frame<Bytes>")
            fr.variant = ("frame", i)
            return ready(ex_, MM.option(ex_, True, ex_.mk_variant("Result", 0, "Ok", fr)))

        def too_big(ex_, st_, tr):
            l2 = tr(lim)
            l2.variant = ("limited", k)      # an errored Limited yields nothing more
            return ready(ex_, MM.option(ex_, True, ex_.mk_variant("Result", 1, "Err", Opaque(z3.Const("LengthLimitError", OBJ)))))
        return Fork([(fits, ok), (z3.Not(fits), too_big)])

    def _frame_index(ex, v):
        n = v.node if isinstance(v, Ptr) else v
        if isinstance(n, Node) and isinstance(n.val, Ptr):
            n = n.val.node
        if isinstance(n, Node) and isinstance(n.variant, tuple) and n.variant and n.variant[0] in ("frame", "bytes", "chunk"):
            return n.variant[1]
        raise R.LookupError if False else ValueError(f"not a frame: {n!r}")

    def m_data_ref(ex, st, callee, args, dty, site):
        i = _frame_index(ex, args[0])
        bts = Node(ex.ctx.fresh_name("bytes"), "Bytes")
        bts.variant = ("bytes", i)
        return MM.option(ex, True, Ptr(bts))

    def m_chunk(ex, st, callee, args, dty, site):
        i = _frame_index(ex, args[0])
        c = Node(ex.ctx.fresh_name("chunk"), "[u8]")
        c.variant = ("chunk", i)
        ln = Node(c.name + ".len", "usize")
        ln.val = ch.len[i]
        c.kids["len"] = ln
        return Ptr(c)

    def m_iter_passthrough(ex, st, callee, args, dty, site):
        return args[0]

    def m_take(ex, st, callee, args, dty, site):
        """Iterator::take(n): remember n (the sniffing window) on an iterator handle over the same chunk"""
        i = _frame_index(ex, args[0])
        it = Node(ex.ctx.fresh_name("take"), "Take")
        it.variant = ("chunk", i)
        w = Node(it.name + ".window", "usize")
        w.val = args[1]
        it.kids["window"] = w
        return it

    def m_find(ex, st, callee, args, dty, site):
        """first non-whitespace byte among the first 128 bytes of the chunk: Some((ws_i, &first_i)) iff ws_i < len_i and ws_i < 128"""
        it = args[0]
        n = it.node if isinstance(it, Ptr) else it
        if isinstance(n, Node) and isinstance(n.val, Ptr):
            n = n.val.node
        i = _frame_index(ex, n)
        window = ex.read_node(n.kids["window"]) if "window" in n.kids else z3.BitVecVal(1 << 62, 64)
        found = z3.And(z3.ULT(ch.ws[i], ch.len[i]), z3.ULT(ch.ws[i], window))

        def some(ex_, st_, tr):
            t = Node(ex_.ctx.fresh_name("found"), "(usize,&u8)")
            a, bq = Node(t.name + ".0", "usize"), Node(t.name + ".1", None)
            a.val = ch.ws[i]
            byte = Node(t.name + ".byte", "u8")
            byte.val = ch.first[i]
            bq.val = Ptr(byte)
            t.kids[0], t.kids[1] = a, bq
            return MM.option(ex_, True, t)
        return Fork([(found, some), (z3.Not(found), lambda ex_, st_, tr: MM.option(ex_, False))])

    def m_position(ex, st, callee, args, dty, site):
        """iter().take(n).position(non-whitespace) = Some(ws) iff ws < len and ws < n"""
        it = args[0]
        n = it.node if isinstance(it, Ptr) else it
        if isinstance(n, Node) and isinstance(n.val, Ptr):
            n = n.val.node
        i = _frame_index(ex, n)
        window = ex.read_node(n.kids["window"]) if "window" in n.kids else z3.BitVecVal(1 << 62, 64)
        found = z3.And(z3.ULT(ch.ws[i], ch.len[i]), z3.ULT(ch.ws[i], window))
        return Fork([(found, lambda ex_, st_, tr: MM.option(ex_, True, ch.ws[i])), (z3.Not(found), lambda ex_, st_, tr: MM.option(ex_, False))])

    def m_index_from(ex, st, callee, args, dty, site):
        i = _frame_index(ex, args[0])
        rng = args[1]
        start = ex.read_node(ex.child(rng, 0, "usize")) if isinstance(rng, Node) else rng
        c = Node(ex.ctx.fresh_name("tail"), "[u8]")
        c.variant = ("chunk", i)
        ln = Node(c.name + ".len", "usize")
        ln.val = ch.len[i] - start
        c.kids["len"] = ln
        return ("panic", z3.UGT(start, ch.len[i]), Ptr(c))

    extra = [
        (r"^read_header_content_length$", m_content_length),
        (r"^Limited::<.*>::new$", m_limited_new),
        (r"^<.* as BodyExt>::frame$", m_frame),
        (r"^<http_body_util::combinators::Frame<.*> as (futures_util::|std::future::)?Future>::poll$", m_poll),
        (r"^<std::iter::Take<.*> as Iterator>::position::<", m_position),
        (r"^<std::slice::Iter<'_, u8> as Iterator>::take$", m_take),
        (r"^http_body::Frame::<bytes::Bytes>::data_ref$", m_data_ref),
        (r"^<bytes::Bytes as Buf>::chunk$", m_chunk),
        (r"^core::slice::<impl \[u8\]>::iter$", m_iter_passthrough),
        (r"^<std::slice::Iter<'_, u8> as Iterator>::enumerate$", m_iter_passthrough),
        (r"^<std::iter::Enumerate<std::slice::Iter<'_, u8>> as Iterator>::take$", m_take),
        (r"^<std::iter::Take<std::iter::Enumerate<std::slice::Iter<'_, u8>>> as Iterator>::find::<", m_find),
        (r"^<\[u8\] as std::ops::Index<std::ops::RangeFrom<usize>>>::index$", m_index_from),
    ]
    ctx = P.make_ctx(core, extra_models=extra + SQ.TRY_MODELS + list(M.TRACING_MODELS), max_paths=20000, max_visits=k + 3)
    ctx.inline = []
    ex = Executor(ctx)

    def pre(e, st, body):
        pin = st["mem"][(0, body.params[0][0])]
        state = e.pointee(e.child(pin, 0, "&mut S"))
        d = Node(state.name + ".discr", "isize")
        d.val = z3.BitVecVal(0, 64)
        state.kids["discr"] = d
        cap = P.capture_index(body, "max_body_size")
        kk = Node(f"{state.name}.{cap}", "u32")
        kk.val = limit
        state.kids[cap] = kk
    paths = ex.run(b, pre=pre, pc0=[ch.valid()])
    kinds = R.source_tables()["enums"]["HttpError"]
    out, bad = [], []
    for p in paths:
        if p.kind in ("unsupported", "limit", "unwound", "panic"):
            bad.append((p.kind, p.detail))
            continue
        if p.kind != "return":
            continue
        pd = z3.simplify(ex.discr_of(p.ret))
        if not (z3.is_bv_value(pd) and pd.as_long() == 0):
            bad.append(("pending", "coroutine suspended although the body is always ready"))
            continue
        res = ex.read_node(ex.child(p.ret, ("Ready", 0), None))
        rd = z3.simplify(ex.discr_of(res))
        if z3.is_bv_value(rd) and rd.as_long() == 0:
            tup = ex.read_node(ex.child(res, ("Ok", 0), None))
            ln = M.length_of(ex, ex.read_node(ex.child(tup, 0, None)))
            single = ex.read_node(ex.child(tup, 1, "bool"))
            out.append((p.cond(), ("ok", ln, single)))
        else:
            e = ex.read_node(ex.child(res, ("Err", 0), None))
            ed = z3.simplify(ex.discr_of(e))
            out.append((p.cond(), ("err", kinds[ed.as_long()] if z3.is_bv_value(ed) else "?")))
    return b, ctx, out, bad


def encode(outcomes):
    """z3 terms (is_ok, len, single, errkind) as if-then-else over the path conditions"""
    ek = {"TooLarge": 1, "Malformed": 2, "Stream": 3, "?": 4}
    is_ok, ln, single, kind = z3.BoolVal(False), z3.BitVecVal(0, 64), z3.BoolVal(False), z3.BitVecVal(0, 8)
    for pc, o in outcomes:
        if o[0] == "ok":
            is_ok = z3.If(pc, z3.BoolVal(True), is_ok)
            ln = z3.If(pc, o[1], ln)
            single = z3.If(pc, o[2], single)
            kind = z3.If(pc, z3.BitVecVal(0, 8), kind)
        else:
            is_ok = z3.If(pc, z3.BoolVal(False), is_ok)
            kind = z3.If(pc, z3.BitVecVal(ek[o[1]], 8), kind)
    covered = z3.Or(*[pc for pc, _ in outcomes]) if outcomes else z3.BoolVal(False)
    return is_ok, ln, single, kind, covered


def concat_of(ch):
    """(L, W, F, has_nonws): the same bytes seen as one chunk"""
    L = sum(ch.len[1:], ch.len[0]) if ch.k else z3.BitVecVal(0, 64)
    W, F, has = z3.BitVecVal(0, 64), z3.BitVecVal(ord("x"), 8), z3.BoolVal(False)
    for i in reversed(range(ch.k)):
        allws = ch.ws[i] == ch.len[i]
        W = z3.If(allws, ch.len[i] + W, ch.ws[i])
        F = z3.If(allws, F, ch.first[i])
        has = z3.If(allws, has, z3.BoolVal(True))
    return L, W, F, has


def _proxy_get(srv):
    """ProxyGetRequest::call (the optional GET-to-RPC middleware): a request is rewritten into a JSON POST only when its method is GET *and* its path is a configured
    one; every other request - other methods on that path, other paths - reaches the inner service as it came, so the method / content-type gate still applies to it"""
    b = R.find_body(srv, r"^fn proxy_get_request::<impl at server/src/middleware/http/proxy_get_request\.rs:[\d: ]+>::call\(_1: &mut ProxyGetRequest<S>, _2: hyper::Request<B>\)")
    inner_kinds = R.dep_enum("jsonrpsee-server", "http", "src/method.rs", "Inner")
    GET = inner_kinds.index("Get")
    found = z3.Bool("path.configured")

    def m_get(ex, st, c, a, d, s_):
        return Fork([(found, lambda ex_, st_, tr: ex_.mk_variant("Option", 1, "Some", Ptr(Node("the_rpc_method", "String")))), (z3.Not(found), lambda ex_, st_, tr: ex_.mk_variant("Option", 0, "None"))])
    models = [(r"HashMap::<.*>::get::<str>$", m_get)] + list(SQ.TRY_MODELS) + list(M.TRACING_MODELS)
    ctx = P.make_ctx(srv, extra_models=models, max_paths=800)
    ctx.inline = []
    ex = Executor(ctx)
    ps = ex.run(b)
    bad = [(p.kind, p.detail) for p in ps if p.kind in ("unsupported", "limit", "unwound")]
    viol, reach = [], {"rewritten": [], "passed-on": []}
    for p in ps:
        if p.kind != "return":
            continue
        pc = p.cond()
        evs = [e for e in p.events if e.kind == "call"]
        rew = [e for e in evs if re.search(r"Request::<B>::(method_mut|uri_mut|headers_mut)$", e.callee)]
        inner = [e for e in evs if re.search(r"as (tower::)?Service<.*>>::call$", e.callee)]
        # the tests this path made on the request's method: `discr(inner of method()) == k`
        # the discriminant of the request's method, as this path read it (a sub-term of its path condition)
        mterm = None
        todo, seen_ids = list(p.pc), set()
        while todo and mterm is None:
            t = todo.pop()
            if t.get_id() in seen_ids:
                continue
            seen_ids.add(t.get_id())
            if z3.is_app(t) and t.decl().name().startswith("discr/") and "Request::<B>::method/" in str(t) and "Uri::" not in str(t):
                mterm = t
                break
            todo.extend(t.children())
        is_get_only = mterm is not None and not ex.feasible(list(p.pc) + [mterm != z3.BitVecVal(GET, mterm.size())])
        if rew:
            reach["rewritten"].append(pc)
            if ex.feasible(list(p.pc) + [z3.Not(found)]) or not is_get_only:
                viol.append(pc)
        else:
            reach["passed-on"].append(pc)
            # the inner service gets this very request (only its body type is converted: Request::map(HttpBody::new))
            a1 = inner[0].args[1] if inner else None
            txt = (a1.name if isinstance(a1, Node) and a1.val is None and not a1.kids else str(to_term(MM.value_of(ex, a1)))) if a1 is not None else ""
            if len(inner) != 1 or "arg2" not in txt:
                viol.append(pc)
    return b, viol, reach, bad


def obligations(tier, seed):
    core = R.bodies("core")
    srv = R.bodies("server")
    out = []
    cl_present, cl_value, limit = z3.Bool("content_length.present"), z3.BitVec("content_length.value", 32), z3.BitVec("max_body_size", 32)
    one = Chunks(1, "whole")
    b, ctx1, out1, bad1 = run_read_body(core, one, cl_present, cl_value, limit)
    ok1, len1, single1, kind1, cov1 = encode(out1)
    for k in ((2,) if tier == "quick" else (2, 3)):
        ch = Chunks(k, f"split{k}")
        b, ctxk, outk, badk = run_read_body(core, ch, cl_present, cl_value, limit)
        name = f"chunking:{k}-chunks-vs-one"
        if bad1 or badk:
            out.append(R.Result(engine="mirsym", name=name, kind="kernel", status="unsupported", detail=str((bad1 + badk)[0])[:300], bodies=[b.name]))
            continue
        okk, lenk, singlek, kindk, covk = encode(outk)
        L, W, F, has = concat_of(ch)
        link = z3.And(one.len[0] == L, one.ws[0] == W, z3.Implies(has, one.first[0] == F), ch.valid(), one.valid())
        same = z3.And(okk == ok1, z3.Implies(ok1, z3.And(lenk == len1, singlek == single1)))
        # compared: accept / reject, the number of bytes handed on and the single/batch decision; which error status a rejected body gets
        # (malformed vs too large vs stream error) is not compared - the statement speaks about accepted requests
        q = z3.And(link, cov1, covk, z3.Not(same))
        r = R.decide(name, "kernel", q, [z3.And(link, cov1, covk, ok1), z3.And(link, cov1, covk, z3.Not(ok1))], bodies=[b.name],
                     desc=f"read_body over the same bytes split into {k} chunks (empty and whitespace-only chunks included, any Content-Length, any limit) gives the same answer as "
                          "over one chunk: same accept/reject, same number of bytes handed to the RPC layer, same single/batch decision",
                     bounds=f"{k} chunks of any length < 2^31 each, any leading-whitespace count and first byte per chunk; Content-Length absent / any u32; limit any u32",
                     keydetail="", extra={"models": ["a chunk is (length, leading whitespace count, first non-whitespace byte); iter().enumerate().take(n).find(non-whitespace) = Some((ws, first)) iff ws < len and ws < n",
                                                      "the body is always ready (Poll::Ready); http_body_util::Limited yields Err once the running total exceeds the limit",
                                                      "read_header_content_length: symbolic Option<u32>"]})
        if r["status"] == "violated":
            r["key"] = "mirsym:c19:chunking-changes-answer"
            m = r.get("model", {})
            args = {"chunks": [{"len": m.get(f"split{k}.c{i}.len", "0"), "ws": m.get(f"split{k}.c{i}.ws", "0"), "first": m.get(f"split{k}.c{i}.first", "123")} for i in range(k)],
                    "content_length": m.get("content_length.present", "False") == "True", "limit": m.get("max_body_size", "1000")}
            r["replay"] = {"scenario": "c19_chunking", "args": args}
        out.append(r)
    # ---- the same bytes with a (truthful) Content-Length header and without one
    name = "header:content-length-present-vs-absent"
    if bad1:
        out.append(R.Result(engine="mirsym", name=name, kind="kernel", status="unsupported", detail=str(bad1[0])[:300], bodies=[b.name]))
    else:
        total = one.len[0]
        fits = z3.ULT(total, z3.BitVecVal(1 << 32, 64))
        with_h = lambda t: z3.substitute(t, (cl_present, z3.BoolVal(True)), (cl_value, z3.Extract(31, 0, total)))
        without = lambda t: z3.substitute(t, (cl_present, z3.BoolVal(False)))
        same = z3.And(with_h(ok1) == without(ok1), z3.Implies(without(ok1), z3.And(with_h(len1) == without(len1), with_h(single1) == without(single1))))
        base = z3.And(one.valid(), fits, with_h(cov1), without(cov1))
        r = R.decide(name, "kernel", z3.And(base, z3.Not(same)), [z3.And(base, without(ok1)), z3.And(base, z3.Not(without(ok1)))], bodies=[b.name],
                     desc="read_body over the same bytes gives the same answer whether the request declares their length in a Content-Length header or not (e.g. chunked transfer): "
                          "same accept/reject - in particular at exactly max_body_size bytes -, same bytes handed on, same single/batch decision",
                     bounds="one chunk of any length < 2^31, any leading whitespace / first byte; limit any u32; header absent vs present with the true length",
                     keydetail="content-length-changes-answer", replay=dict(scenario="c19_content_length", vars={}, fixed={}, region=z3.BoolVal(True)))
        out.append(r)
    out.append(sniff_closure_obligation(core))
    out += _gate(srv)
    # the statuses the two refusals carry (the gate above decides which helper answers; this decides what the helper says)
    from .httpstatus import obligation as _status
    for helper, code in (("method_not_allowed", 405), ("unsupported_content_type", 415)):
        out.append(_status(srv, helper, f"kernel:response::{helper}:status-{code}", (lambda c: lambda s: s == c)(code),
                           f"the response built by response::{helper} carries HTTP status {code}",
                           dict(scenario="c19_content_types", vars={}, fixed={}, region=z3.BoolVal(True)), f"status-{code}"))
    b_, viol_, reach_, bad_ = _proxy_get(srv)
    reach_l = R.live_reach(viol_, reach_, bad_)
    if bad_ or not all(reach_l):
        out.append(R.Result(engine="mirsym", name="order:ProxyGetRequest::call", kind="order", status="unsupported" if bad_ else "vacuous", detail=str(bad_[:1] or {k: len(v) for k, v in reach_.items()})[:300], bodies=[b_.name]))
    else:
        out.append(R.decide("order:ProxyGetRequest::call:only-GET-on-a-configured-path", "order", z3.Or(*viol_) if viol_ else z3.BoolVal(False), [z3.Or(*v) for v in reach_l], bodies=[b_.name],
                            desc="the GET-proxy middleware rewrites a request into a JSON POST only when its method is GET and its path is a configured one; anything else reaches the inner "
                                 "service untouched (so other methods are still answered 405 and other content types 415 there)",
                            bounds="path configured or not; every method", keydetail="proxy-get",
                            replay=dict(scenario="c19_proxy_get", vars={}, fixed={}, region=z3.BoolVal(True))))
    return out


def sniff_closure_obligation(core, name="kernel:sniff-closure", scenario="c19_leading_ws"):
    """the byte predicate read_body uses to skip leading whitespace really is 'not ASCII whitespace'"""
    cb = R.find_body(core, r"^fn read_body::\{closure#0\}::\{closure#\d+\}\(_1: &mut \{closure@core/src/http_helpers\.rs[^}]*\}, _2: &\(usize, &u8\)\) -> bool")
    ctx = P.make_ctx(core, extra_models=[])
    ctx.inline = [M.crate_inliner(core)]
    ex = Executor(ctx)
    byte = z3.BitVec("byte", 8)
    bn = Node("byte", "u8")
    bn.val = byte
    tup = Node("item", "(usize,&u8)")
    a, bq = Node("item.0", "usize"), Node("item.1", None)
    a.val, bq.val = z3.BitVec("idx", 64), Ptr(bn)
    tup.kids[0], tup.kids[1] = a, bq
    ps = ex.run(cb, args=[None, Ptr(tup)])
    viol, reach = [], []
    badc = [p for p in ps if p.kind != "return"]
    for p in ps:
        if p.kind == "return":
            viol.append(z3.And(p.cond(), ex.read_node(p.ret) != z3.Not(is_ws(byte))))
            reach.append(p.cond())
    if badc or not reach:
        return (R.Result(engine="mirsym", name=name, kind="kernel", status="unsupported", detail=str([(p.kind, p.detail) for p in badc[:1]])[:300], bodies=[cb.name]))
    else:
        return (R.decide(name + ":is-not-ascii-whitespace", "kernel", z3.Or(*viol), [z3.Or(*reach)], bodies=[cb.name],
                            desc="the byte predicate used to skip leading whitespace is exactly 'not one of space, tab, LF, FF, CR' (the same set the WebSocket path uses)",
                            bounds="all 256 byte values", keydetail="whitespace-set", replay=dict(scenario=scenario, vars={}, fixed={}, region=z3.BoolVal(True))))


def limit_obligations(core, tier):
    """C07 over HTTP: the total body length against max_body_size, for every chunking (used by the C07 check)"""
    out = []
    cl_present, cl_value, limit = z3.Bool("content_length.present"), z3.BitVec("content_length.value", 32), z3.BitVec("max_body_size", 32)
    for k in ((1, 2) if tier == "quick" else (1, 2, 3)):
        ch = Chunks(k, f"lim{k}")
        b, ctxk, outk, badk = run_read_body(core, ch, cl_present, cl_value, limit)
        name = f"limit:{k}-chunks"
        if badk:
            out.append(R.Result(engine="mirsym", name=name, kind="kernel", status="unsupported", detail=str(badk[0])[:300], bodies=[b.name]))
            continue
        okk, lenk, singlek, kindk, covk = encode(outk)
        L = sum(ch.len[1:], ch.len[0])
        over = z3.UGT(L, z3.ZeroExt(32, limit))
        q = z3.And(ch.valid(), covk, over, okk)
        out.append(R.decide(name + ":never-above-limit", "kernel", q, [z3.And(ch.valid(), covk, okk), z3.And(ch.valid(), covk, over)], bodies=[b.name],
                            desc="a body whose total length exceeds max_body_size is never handed on, however it is chunked, with or without (or with a lying) Content-Length",
                            bounds=f"{k} chunk(s), any lengths, any limit, any declared length", keydetail="limit-bypass",
                            replay=dict(scenario="c07_http", vars={"max_req": limit, "n": limit + 1}, fixed={"entry": "server", "max_resp": "100000", "chunked": True, "lead": 1},
                                        region=z3.And(z3.UGE(limit, 100), z3.ULE(limit, 5000)))))
    return out


def _gate(srv):
    """transport::http::call_with_service: 405 unless POST; 415 unless JSON content type; read_body / handle_rpc_call only behind both; is_json's six spellings"""
    res = []
    b = R.find_body(srv, r"^fn call_with_service::\{closure#0\}\(_1: Pin<&mut \{async fn body of call_with_service<S, B>")
    is_json = z3.Bool("content_type_is_json")

    mdiscr = z3.BitVec("method.inner.discr", 64)

    def m_method(ex, st, callee, args, dty, site):
        """Request::method(): a Method whose private inner enum has an arbitrary discriminant; `Method::POST` patterns test it against 2 (http crate: Options, Get, Post, ..)"""
        m = Node(ex.ctx.fresh_name("method"), "http::Method")
        inner = Node(m.name + ".0", "Inner")
        d = Node(inner.name + ".discr", "isize")
        d.val = mdiscr
        inner.kids["discr"] = d
        m.kids[0] = inner
        return Ptr(m)

    def m_ct(ex, st, callee, args, dty, site):
        return is_json
    is_post = mdiscr == 2
    extra = [(r"^hyper::Request::<B>::method$", m_method), (r"^content_type_is_json::<", m_ct)]
    ex, ctx, paths = P.explore(srv, b, extra_models=extra + SQ.TRY_MODELS + list(M.TRACING_MODELS), max_paths=8000)
    viol, reach = [], {"rpc": [], "405": [], "415": []}
    unsupported = [(p.kind, p.detail) for p in paths if p.kind in ("unsupported", "limit")]
    for p in paths:
        if p.kind != "return" or p.state != 0:
            continue
        evs = [e for e in p.events if e.kind == "call"]
        reads = [e for e in evs if re.search(r"^read_body::<", e.callee)]
        pc = p.cond()
        if reads:
            reach["rpc"].append(pc)
            viol.append(z3.And(pc, z3.Not(z3.And(is_post, is_json))))
        na = [e for e in evs if e.callee.endswith("method_not_allowed")]
        un = [e for e in evs if e.callee.endswith("unsupported_content_type")]
        if na:
            reach["405"].append(pc)
            viol.append(z3.And(pc, is_post))
        if un:
            reach["415"].append(pc)
            viol.append(z3.And(pc, z3.Not(z3.And(is_post, z3.Not(is_json)))))
        if not reads and not na and not un:
            viol.append(pc)
    # later states: handle_rpc_call only after read_body succeeded (it lives behind the await, in state >= 3)
    for p in paths:
        if p.kind == "return" and p.state not in (0, None):
            evs = [e for e in p.events if e.kind == "call"]
            if any(re.search(r"^handle_rpc_call::<", e.callee) for e in evs) and not any(re.search(r"Future>::poll$", e.callee) and "read_body" in e.callee for e in evs):
                viol.append(p.cond())
    if unsupported or not all(reach.values()):
        res.append(R.Result(engine="mirsym", name="order:http-gate", kind="order", status="unsupported" if unsupported else "vacuous", detail=str(unsupported[:1] or {k: len(v) for k, v in reach.items()})[:300], bodies=[b.name]))
    else:
        res.append(R.decide("order:call_with_service:method-and-content-type-gate", "order", z3.Or(*viol), [z3.Or(*v) for v in reach.values()], bodies=[b.name],
                            desc="the body is read (and handle_rpc_call reached) only for POST with a JSON content type; any other method -> 405; POST with another content type -> 415",
                            bounds="method and content-type verdicts arbitrary; every path of the request handler", keydetail="http-gate",
                            replay=dict(scenario="c19_content_types", vars={}, fixed={}, region=z3.BoolVal(True))))
    # is_json: the spellings
    bj = R.find_body(srv, r"^fn is_json::\{closure#\d\}\(_1: \{closure@server/src/transport/http\.rs[^}]*\}, _2: &str\) -> bool")
    consts, ncalls = [], 0
    for bn in bj.order:
        blk = bj.blocks[bn]
        for stt in blk.stmts:
            if stt[0] == "assign" and stt[2][0] == "use" and stt[2][1][0] == "const":
                m = re.match(r'"(.*)"$', stt[2][1][1])
                if m:
                    consts.append(m.group(1))
        t = blk.term
        if t and t[0] == "call":
            if "eq_ignore_ascii_case" in t[2]:
                ncalls += 1
            elif not blk.cleanup:
                ncalls += 100          # any other call in the predicate: not the shape this obligation understands
    want = {"application/json", "application/json; charset=utf-8", "application/json;charset=utf-8", "application/json-rpc", "application/json-rpc;charset=utf-8", "application/json-rpc; charset=utf-8"}
    ok = set(consts) == want and len(consts) == 6 and ncalls == 6
    res.append(R.decide("kernel:is_json:accepted-spellings", "kernel", z3.BoolVal(not ok), [z3.BoolVal(True)], bodies=[bj.name],
                        desc="is_json compares the header value ASCII-case-insensitively (str::eq_ignore_ascii_case) with exactly the six accepted spellings",
                        bounds="the set of string constants compared against", keydetail="content-type-spellings", extra={"constants": sorted(consts)},
                        replay=dict(scenario="c19_content_types", vars={}, fixed={}, region=z3.BoolVal(True))))
    return res
