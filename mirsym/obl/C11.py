"""C11 (reduced claim) - the connection limit: admission, the permit's journey, and where it is let go.

Decided from the MIR of jsonrpsee-server: ConnectionGuard (a semaphore sized by max_connections), the admission branch of
TowerServiceNoHttp::call (no permit -> 429 and nothing else happens; a permit -> it is the one put into this connection's state),
where that state goes on each arm (WebSocket: into the spawned connection task and from there into ws::background_task, which lets go
of it only after its graceful shutdown; HTTP: into the response future, dropped only after the call was answered; refused upgrade /
disabled protocol: dropped on return). What cannot be decided here - that connection tasks really end on peer reset or abort, and the
instants at which tokio runs them - is outside the claim.
"""
import re
import z3
from .. import run as R, models as M, mapmodels as MM, prov as P, seqmodels as SQ
from ..sym import Ctx, Executor, Node, Ptr, Opaque, OBJ, to_term, Fork, Unsupported, Event
from . import C06

VALIDATION = {}
CALL = r"^fn server::<impl at server/src/server\.rs:[\d: ]+>::call"


def _has_permit(ex, v, depth=0):
    """does this value (transitively, through fields and pointers) hold the acquired connection permit?"""
    v = ex.read_node(v) if isinstance(v, Node) else v
    if isinstance(v, Ptr):
        return depth < 8 and _has_permit(ex, v.node, depth + 1)
    if isinstance(v, Opaque):
        return "the_connection_permit" in str(v.term)
    if isinstance(v, Node):
        if isinstance(v.val, Opaque) and "the_connection_permit" in str(v.val.term):
            return True
        if isinstance(v.val, Ptr):
            return depth < 8 and _has_permit(ex, v.val.node, depth + 1)
        return depth < 8 and any(_has_permit(ex, k, depth + 1) for kk, k in v.kids.items() if not (isinstance(kk, tuple) and kk[0] == "name"))
    return "the_connection_permit" in str(v)


def _guard_kernel(srv):
    """ConnectionGuard::new(limit) -> a semaphore with `limit` permits; try_acquire -> Some iff one is free (taking it), None otherwise"""
    t = R.source_tables()
    ctx = Ctx(srv, consts=t["consts"], enums=t["enums"], models=C06.C06_MODELS + MM.ARC_MODELS + list(SQ.TRY_MODELS) + list(M.INT_MODELS) + P.COMMON_MODELS, inline=[], max_paths=200)
    ex = Executor(ctx)
    b_new = R.find_body(srv, r"^fn future::<impl at server/src/future\.rs:[\d: ]+>::new\(_1: usize\) -> (future::)?ConnectionGuard")
    b_acq = R.find_body(srv, r"^fn future::<impl at server/src/future\.rs:[\d: ]+>::try_acquire\(_1: &(future::)?ConnectionGuard\)")
    limit = z3.BitVec("limit", 64)
    viol, reach = [], {"some": [], "none": []}
    bad = []
    fi_inner, fi_max = R.field_index("ConnectionGuard", "inner"), R.field_index("ConnectionGuard", "max")
    for p in ex.run(b_new, args=[limit]):
        if p.kind != "return":
            bad.append((p.kind, p.detail))
            continue
        g = p.ret
        arc = ex.read_node(g.kids[fi_inner])
        sem = arc.kids["ptr"].val.node.kids["v"]
        avail = ex.read_node(sem.kids["avail"])
        mx = ex.read_node(g.kids[fi_max])
        viol.append(z3.And(p.cond(), z3.Or(avail != limit, mx != limit)))
        guard = Node("guard", "ConnectionGuard")
        ex.write(guard, g)
        for q in ex.run(b_acq, args=[Ptr(guard)], pc0=list(p.pc)):
            if q.kind == "panic":
                viol.append(q.cond())       # the Closed arm is unreachable
                continue
            if q.kind != "return":
                bad.append((q.kind, q.detail))
                continue
            d = z3.simplify(ex.discr_of(q.ret))
            if not z3.is_bv_value(d):
                bad.append(("unsupported", "Option discriminant not concrete"))
                continue
            some = d.as_long() == 1
            reach["some" if some else "none"].append(q.cond())
            viol.append(z3.And(q.cond(), z3.UGT(limit, 0) != z3.BoolVal(some)))
    return [b_new, b_acq], viol, reach, bad


def _guard_sources(srv):
    """every ConnectionGuard is sized by the configured max_connections"""
    out = []
    fi_max = R.field_index("ServerConfig", "max_connections")
    # Server::start
    cands = [b for b in R.find_body(srv, r"^fn server::<impl at server/src/server\.rs:[\d: ]+>::start_inner::\{closure#0\}\(", all_=True) if P.syntactic_sites(b, r"^ConnectionGuard::new$")]
    if len(cands) != 1:
        out.append(R.Result(engine="mirsym", name="prov:Server::start:ConnectionGuard::new", kind="provenance", status="site-missing", detail=f"{len(cands)} candidate bodies", bodies=[]))
    else:
        b = cands[0]
        cap = P.capture_index(b, ["self"])
        fi_cfg = R.field_index("Server", "server_cfg")
        exp = z3.ZeroExt(32, z3.BitVec(f"arg1.0.*.{cap}.{fi_cfg}.{fi_max}", 32))
        out.append(P.site_obligation("prov:Server::start:ConnectionGuard::new", srv, b, r"^ConnectionGuard::new$", 0, exp,
                                     desc="Server::start sizes the connection semaphore by server_cfg.max_connections (zero-extended, no arithmetic)", bounds="all u32 values of every configuration field",
                                     keydetail="source!=max_connections", max_paths=6000))
    out.append(_setter_kernel(srv))
    out.append(_to_service_builder_kernel(srv))
    out.append(_no_wait_unless_stopping(srv))
    return out


def _no_wait_unless_stopping(srv):
    """ws::graceful_shutdown: only a *stopping* server waits for the connection's running calls; a connection that ended for any other reason (peer closed, error,
    inactivity) goes straight to closing the writer - so its slot is released without waiting for handlers that may run for ever"""
    from . import C10
    col = {}
    b, viol, reach, bad = C10._graceful_shutdown(srv, collect=col)
    q = col.get("waited_not_stopping", [])
    rc = col.get("reach", [])
    if bad or not rc:
        return R.Result(engine="mirsym", name="order:ws::graceful_shutdown:no-wait-unless-stopping", kind="order", status="unsupported" if bad else "vacuous", detail=str(bad[:1])[:300], bodies=[b.name])
    return R.decide("order:ws::graceful_shutdown:no-wait-unless-stopping", "order", z3.Or(*q) if q else z3.BoolVal(False), [z3.Or(*rc)], bodies=[b.name],
                    desc="the wait for the connection's running calls (or for the peer to go away) happens only when the server is stopping; a connection that ended for any other reason "
                         "is wound up at once, so its slot is free again however long its handlers keep running",
                    bounds="every outcome of the receive loop (stopped / closed / any error); every readiness of the waits", keydetail="ws-wait-when-not-stopping",
                    replay=dict(scenario="c11_inactive_peer", vars={}, fixed={}, region=z3.BoolVal(True)))


def _to_service_builder_kernel(srv):
    """Builder::to_service_builder(): the service builder it returns carries a connection guard with exactly server_cfg.max_connections slots"""
    b = R.find_body(srv, r"^fn server::<impl at server/src/server\.rs:[\d: ]+>::to_service_builder\(_1: server::Builder<HttpMiddleware, RpcMiddleware>\)")
    t = R.source_tables()
    ctx = Ctx(srv, consts=t["consts"], enums=t["enums"], models=C06.C06_MODELS + MM.ARC_MODELS + list(SQ.TRY_MODELS) + list(M.INT_MODELS) + P.COMMON_MODELS, inline=[M.crate_inliner(srv)], max_paths=200)
    ex = Executor(ctx)
    fi_cfg, fi_mc = R.field_index("Builder", "server_cfg"), R.field_index("ServerConfig", "max_connections")
    limit = z3.BitVec(f"arg1.{fi_cfg}.{fi_mc}", 32)
    fi_guard = R.field_index("TowerServiceBuilder", "conn_guard")
    fi_inner, fi_max = R.field_index("ConnectionGuard", "inner"), R.field_index("ConnectionGuard", "max")
    viol, reach, bad = [], [], []
    for p in ex.run(b):
        if p.kind != "return":
            bad.append((p.kind, p.detail))
            continue
        reach.append(p.cond())
        g = ex.read_node(p.ret.kids[fi_guard]) if isinstance(p.ret, Node) and fi_guard in p.ret.kids else None
        arc = MM.arc_node(ex, ex.read_node(g.kids[fi_inner])) if isinstance(g, Node) and fi_inner in g.kids else None
        if arc is None:
            viol.append(p.cond())
            continue
        sem = arc.kids["ptr"].val.node.kids["v"]
        avail = ex.read_node(sem.kids["avail"]) if "avail" in sem.kids else None
        mx = ex.read_node(g.kids[fi_max])
        if avail is None:
            viol.append(p.cond())
            continue
        viol.append(z3.And(p.cond(), z3.Or(avail != z3.ZeroExt(32, limit), mx != z3.ZeroExt(32, limit))))
    reach_l = R.live_reach(viol, reach, bad)
    if bad or not reach_l[0]:
        return R.Result(engine="mirsym", name="kernel:Builder::to_service_builder", kind="kernel", status="unsupported" if bad else "vacuous", detail=str(bad[:1])[:300], bodies=[b.name])
    q = [v if isinstance(v, z3.ExprRef) else z3.BoolVal(bool(v)) for v in viol]
    return R.decide("kernel:Builder::to_service_builder:guard-has-configured-slots", "kernel", z3.Or(*q), [z3.Or(*reach_l[0])], bodies=[b.name],
                    desc="Builder::to_service_builder() returns a service builder whose connection guard has exactly server_cfg.max_connections slots (the configured limit, not a default)",
                    bounds="all u32 limits", keydetail="service-builder-guard", replay=dict(scenario="c11_limits", vars={}, fixed={"limit": 2, "entry": "service_builder_from_config"}, region=z3.BoolVal(True)))


def _setter_kernel(srv):
    """TowerServiceBuilder::max_connections(limit): the builder returned carries a connection guard with exactly `limit` slots"""
    b = R.find_body(srv, r"^fn server::<impl at server/src/server\.rs:[\d: ]+>::max_connections\(_1: TowerServiceBuilder<RpcMiddleware, HttpMiddleware>, _2: u32\)")
    t = R.source_tables()
    ctx = Ctx(srv, consts=t["consts"], enums=t["enums"], models=C06.C06_MODELS + MM.ARC_MODELS + list(SQ.TRY_MODELS) + list(M.INT_MODELS) + P.COMMON_MODELS, inline=[M.crate_inliner(srv)], max_paths=200)
    ex = Executor(ctx)
    limit = z3.BitVec("limit", 32)
    fi_guard = R.field_index("TowerServiceBuilder", "conn_guard")
    fi_inner, fi_max = R.field_index("ConnectionGuard", "inner"), R.field_index("ConnectionGuard", "max")
    viol, reach, bad = [], [], []
    for p in ex.run(b, args=[None, limit]):
        if p.kind != "return":
            bad.append((p.kind, p.detail))
            continue
        reach.append(p.cond())
        g = ex.read_node(p.ret.kids[fi_guard]) if isinstance(p.ret, Node) and fi_guard in p.ret.kids else None
        arc = MM.arc_node(ex, ex.read_node(g.kids[fi_inner])) if isinstance(g, Node) and fi_inner in g.kids else None
        if arc is None:
            viol.append(p.cond())           # the guard of the returned builder is not one built here
            continue
        sem = arc.kids["ptr"].val.node.kids["v"]
        avail = ex.read_node(sem.kids["avail"]) if "avail" in sem.kids else None
        mx = ex.read_node(g.kids[fi_max])
        if avail is None:
            viol.append(p.cond())
            continue
        viol.append(z3.And(p.cond(), z3.Or(avail != z3.ZeroExt(32, limit), mx != z3.ZeroExt(32, limit))))
    if bad or not reach:
        return R.Result(engine="mirsym", name="kernel:TowerServiceBuilder::max_connections", kind="kernel", status="unsupported", detail=str(bad[:1])[:300], bodies=[b.name])
    q = [v if isinstance(v, z3.ExprRef) else z3.BoolVal(bool(v)) for v in viol]
    return R.decide("kernel:TowerServiceBuilder::max_connections:guard-has-limit-slots", "kernel", z3.Or(*q), [z3.Or(*reach)], bodies=[b.name],
                    desc="TowerServiceBuilder::max_connections(limit) returns a builder whose connection guard has exactly `limit` slots (and reports `limit` as its maximum)", bounds="all u32 limits",
                    keydetail="setter", replay=dict(scenario="c11_limits", vars={}, fixed={"limit": 2, "entry": "service_builder"}, region=z3.BoolVal(True)))


def _admission(srv):
    b = R.find_body(srv, CALL + r"\(_1: &mut TowerServiceNoHttp<RpcMiddleware>, _2: hyper::Request<Body>\)")
    acquired = z3.Bool("try_acquire.some")
    upgrade = z3.Bool("is_upgrade_request")
    hs_ok = z3.Bool("handshake.ok")

    def m_try_acquire(ex, st, callee, args, dty, site):
        o = Node(ex.ctx.fresh_name("acquired"), "Option<OwnedSemaphorePermit>")
        d = Node(o.name + ".discr", "isize")
        d.val = z3.If(acquired, z3.BitVecVal(1, 64), z3.BitVecVal(0, 64))
        o.kids["discr"] = d
        k = Node(o.name + ".Some:0", None)
        k.val = Opaque(z3.Const("the_connection_permit", OBJ))
        o.kids[("Some", 0)] = k
        return o

    def m_state_new(ex, st, callee, args, dty, site):
        n = Node(ex.ctx.fresh_name("conn_state"), "ConnectionState")
        for i, a in enumerate(args):
            k = Node(f"{n.name}.{i}", None)
            if isinstance(a, Node):
                ex.write(k, a)
            else:
                k.val = a
            n.kids[i] = k
        return n

    def m_receive_request(ex, st, callee, args, dty, site):
        r = Node(ex.ctx.fresh_name("handshake"), "Result")
        d = Node(r.name + ".discr", "isize")
        d.val = z3.If(hs_ok, z3.BitVecVal(0, 64), z3.BitVecVal(1, 64))
        r.kids["discr"] = d
        return r
    models = [(r"^ConnectionGuard::try_acquire$", m_try_acquire), (r"^ConnectionState::new$", m_state_new), (r"^is_upgrade_request::<", lambda ex, st, c, a, d, s: upgrade),
              (r"^soketto::handshake::http::Server::receive_request::<", m_receive_request)] + list(SQ.TRY_MODELS) + list(M.TRACING_MODELS) + list(M.INT_MODELS)
    ex, ctx, paths = P.explore(srv, b, extra_models=models, max_paths=20000)
    bad = [(p.kind, p.detail) for p in paths if p.kind in ("unsupported", "limit", "unwound")]
    viol, reach = [], {"refused": [], "ws": [], "ws-handshake-failed": [], "http": [], "denied": []}
    why = {}
    for p in paths:
        if p.kind == "panic":
            # `max - available` (a debug message) is guarded by rustc's overflow assertion: recorded, not part of this property
            continue
        if p.kind != "return":
            continue
        pc = p.cond()
        evs = [e for e in p.events if e.kind == "call"]
        names = [e.callee for e in evs]
        got = not ex.feasible(list(p.pc) + [z3.Not(acquired)])
        states = [e for e in evs if e.callee == "ConnectionState::new"]
        svc = [e for e in evs if e.callee.startswith("RpcService::new")]
        spawn = [e for e in evs if re.search(r"as Instrument>::in_current_span$", e.callee)]
        boxed = [e for e in evs if re.search(r"^Box::<\{async block@server/src/server\.rs[^}]*\}>::pin$|as futures_util::FutureExt>::boxed::<", e.callee)]
        drops = [e for e in p.events if e.kind == "drop"]
        bad_here = []
        if not got:
            reach["refused"].append(pc)
            if states or svc or spawn or any("call_with_service" in n for n in names):
                bad_here.append("something besides the refusal happens without a permit")
            blk = [e for e in boxed if "boxed" in e.callee]
            if len(blk) != 1 or len(boxed) != 1:
                bad_here.append("the refusal is not the one boxed 429 block")
        else:
            if len(states) != 1 or not _has_permit(ex, states[0].args[2]):
                bad_here.append("the acquired permit is not the one put into this connection's state")
            conn_in = lambda e: any(_has_permit(ex, a) for a in e.args)
            dropped_here = any(_has_permit(ex, e.args[0]) for e in drops)
            if spawn:
                reach["ws"].append(pc)
                if not conn_in(spawn[0]):
                    bad_here.append("the WebSocket connection task does not receive the connection state (permit)")
                if dropped_here:
                    bad_here.append("the permit is dropped although the WebSocket connection task was spawned")
            elif any(re.search(r"async block@server/src/server\.rs", e.callee) and conn_in(e) for e in boxed):
                reach["http"].append(pc)
                if dropped_here:
                    bad_here.append("the permit is dropped before the HTTP response future runs")
            else:
                # refused upgrade, or protocol disabled: nothing is served, the slot is given back on return
                (reach["ws-handshake-failed"] if not ex.feasible(list(p.pc) + [z3.Not(upgrade)]) else reach["denied"]).append(pc)
                if svc and not spawn and not ex.feasible(list(p.pc) + [hs_ok]):
                    pass
                if not dropped_here:
                    bad_here.append("nothing is served on this arm but the permit is not dropped on return")
        if bad_here:
            viol.append(pc)
            why.setdefault("admission", bad_here)
    VALIDATION.update(why)
    return b, viol, reach, bad


def _http_block(srv):
    """the HTTP response future: the connection state is dropped only after call_with_service has produced the response"""
    cands = [b for b in R.find_body(srv, CALL + r"::\{closure#\d+\}\(_1: Pin<&mut \{async block@server/src/server\.rs", all_=True) if P.syntactic_sites(b, r"^call_with_service::<")]
    if len(cands) != 1:
        return None, [z3.BoolVal(True)], {"x": []}, [("site-missing", f"{len(cands)} bodies")]
    b = cands[0]
    ready = z3.Bool("call_with_service.ready")

    def m_poll(ex, st, callee, args, dty, site):
        def rd(ex_, st_, tr):
            return ex_.mk_variant("Poll", 0, "Ready", Opaque(z3.Const("http_response", OBJ)))

        def pd(ex_, st_, tr):
            return ex_.mk_variant("Poll", 1, "Pending")
        return Fork([(ready, rd), (z3.Not(ready), pd)])
    ex, ctx, paths = P.explore(srv, b, extra_models=[(r"as (futures_util::|std::future::)?Future>::poll$", m_poll)] + list(SQ.TRY_MODELS) + list(M.TRACING_MODELS), max_paths=2000)
    bad = [(p.kind, p.detail) for p in paths if p.kind in ("unsupported", "limit", "unwound", "panic")]
    cap = P.capture_index(b, "conn")
    viol, reach = [], {"answered": [], "pending": []}
    for p in paths:
        if p.kind != "return":
            continue
        pc = p.cond()
        seq = [e for e in p.events if e.kind in ("call", "drop")]
        drops = [i for i, e in enumerate(seq) if (e.kind == "drop" and _is_conn(ex, e.args[0], cap)) or (e.kind == "call" and re.search(r"mem::drop::<ConnectionState>$", e.callee))]
        polls = [i for i, e in enumerate(seq) if e.kind == "call" and re.search(r"Future>::poll$", e.callee)]
        # the call is processed *by this future* - the one that holds the permit and that hyper drops when the peer goes away: handing it to a task of its own
        # (tokio::spawn + awaiting the JoinHandle) would let the handler run on after the slot was given back
        detached = [e for e in seq if e.kind == "call" and e.callee.startswith("tokio::spawn::<")]
        foreign = [seq[i].callee for i in polls if "call_with_service" not in seq[i].callee]
        if detached or foreign:
            viol.append(pc)
        answered = not ex.feasible(list(p.pc) + [z3.Not(ready)]) and bool(polls)
        if answered:
            reach["answered"].append(pc)
            if len(drops) != 1 or drops[0] < polls[-1]:
                viol.append(pc)
        else:
            reach["pending"].append(pc)
            if drops:
                viol.append(pc)          # still waiting for the call: the slot must stay taken
    return b, viol, reach, bad


def _is_conn(ex, node, cap):
    return isinstance(node, Node) and (re.search(rf"\.{cap}($|\.)", node.name or "") is not None or (node.ty or "").endswith("ConnectionState"))


def _ws_task(srv):
    """the spawned WebSocket task: the connection state goes into BackgroundTaskParams and on into ws::background_task (or is dropped when the upgrade fails)"""
    cands = [b for b in R.find_body(srv, CALL + r"::\{closure#\d+\}\(_1: Pin<&mut \{async block@server/src/server\.rs", all_=True) if P.syntactic_sites(b, r"^background_task::<")]
    if len(cands) != 1:
        return None, [z3.BoolVal(True)], {"x": []}, [("site-missing", f"{len(cands)} bodies")]
    b = cands[0]
    up = z3.Bool("upgrade.ok")

    def m_poll(ex, st, callee, args, dty, site):
        if "OnUpgrade" in callee or "upgrade" in callee.lower():
            def ok(ex_, st_, tr):
                return ex_.mk_variant("Poll", 0, "Ready", ex_.mk_variant("Result", 0, "Ok", Opaque(z3.Const("upgraded_io", OBJ))))

            def er(ex_, st_, tr):
                return ex_.mk_variant("Poll", 0, "Ready", ex_.mk_variant("Result", 1, "Err", Opaque(z3.Const("upgrade_error", OBJ))))
            return Fork([(up, ok), (z3.Not(up), er)])
        return ex.mk_variant("Poll", 1, "Pending")
    ex, ctx, paths = P.explore(srv, b, extra_models=[(r"as (futures_util::|std::future::)?Future>::poll$", m_poll)] + list(SQ.TRY_MODELS) + list(M.TRACING_MODELS), max_paths=4000)
    bad = [(p.kind, p.detail) for p in paths if p.kind in ("unsupported", "limit", "unwound", "panic")]
    cap = P.capture_index(b, "conn")
    fi_conn = R.field_index("BackgroundTaskParams", "conn")
    viol, reach = [], {"served": [], "upgrade-failed": []}
    for p in paths:
        if p.kind != "return" or (getattr(p, "state", None) or 0) != 0:
            continue
        pc = p.cond()
        bg = [e for e in p.events if e.kind == "call" and e.callee.startswith("background_task::<")]
        drops = [e for e in p.events if e.kind == "drop" and _is_conn(ex, e.args[0], cap)]
        if bg:
            reach["served"].append(pc)
            prm = MM.value_of(ex, bg[0].args[0])
            c = ex.read_node(prm.kids[fi_conn]) if isinstance(prm, Node) and fi_conn in prm.kids else None
            src = (c.name if isinstance(c, Node) else "") + str(to_term(c)) if c is not None else ""
            if f".{cap}" not in src or drops:
                viol.append(pc)
                VALIDATION.setdefault("ws_task", f"params.conn = {src[:80]}, drops {len(drops)}")
        elif not ex.feasible(list(p.pc) + [up]):
            reach["upgrade-failed"].append(pc)
            if len(drops) != 1:
                viol.append(pc)
    return b, viol, reach, bad


def _background_task(srv):
    """ws::background_task lets go of the connection state only after its graceful shutdown has completed"""
    b = R.find_body(srv, r"^fn background_task::\{closure#0\}\(_1: Pin<&mut \{async fn body of background_task<S>\(\)\}>")
    gs_done = z3.Bool("graceful_shutdown.ready")

    recvs = R.source_tables()["enums"].get("Receive")

    def m_poll(ex, st, callee, args, dty, site):
        if "graceful_shutdown" in callee:
            return Fork([(gs_done, lambda ex_, st_, tr: ex_.mk_variant("Poll", 0, "Ready", MM.UNIT)), (z3.Not(gs_done), lambda ex_, st_, tr: ex_.mk_variant("Poll", 1, "Pending"))])
        if re.search(r"async fn body of try_recv<", callee):
            # one received item of any kind (as in the C01 receive-loop obligation)
            r = Node(ex.ctx.fresh_name("received"), "Receive")
            d = Node(r.name + ".discr", "isize")
            d.val = z3.BitVec(ex.ctx.fresh_name("try_recv.outcome"), 64)
            st["pc"].append(z3.ULE(d.val, len(recvs) - 1))
            r.kids["discr"] = d
            for vn in recvs:
                for j in range(2):
                    kk = Node(f"{r.name}.{vn}:{j}", None)
                    kk.val = Opaque(z3.Const(f"{r.name}.{vn}.{j}", OBJ))
                    r.kids[(vn, j)] = kk
            return ex.mk_variant("Poll", 0, "Ready", r)
        return NotImplemented
    ex, ctx, paths = P.explore(srv, b, extra_models=[(r"as (futures_util::|std::future::)?Future>::poll$", m_poll)] + list(SQ.TRY_MODELS) + list(M.TRACING_MODELS), max_paths=30000, max_visits=3)
    bad = [(p.kind, p.detail) for p in paths if p.kind in ("unsupported", "limit")]
    viol, reach = [], {"released": [], "held": []}
    for p in paths:
        if p.kind != "return":
            continue
        pc = p.cond()
        seq = [e for e in p.events if e.kind in ("call", "drop")]
        rel = [i for i, e in enumerate(seq) if (e.kind == "call" and re.search(r"mem::drop::<ConnectionState>$", e.callee)) or (e.kind == "drop" and isinstance(e.args[0], Node) and (e.args[0].ty or "").endswith("ConnectionState"))]
        gs = [i for i, e in enumerate(seq) if e.kind == "call" and "graceful_shutdown" in e.callee and "poll" in e.callee]
        if rel:
            reach["released"].append(pc)
            done = bool(gs) and not ex.feasible(list(p.pc) + [z3.Not(gs_done)])
            if not done or rel[0] < gs[-1]:
                viol.append(pc)
        else:
            reach["held"].append(pc)
    return b, viol, reach, bad


def _status_429(srv):
    b = R.find_body(srv, r"^fn (\w+::)*too_many_requests\(\) -> hyper::Response<")
    ctx = P.make_ctx(srv, extra_models=[])
    ex = Executor(ctx)
    ps = ex.run(b)
    bad = [(p.kind, p.detail) for p in ps if p.kind != "return"]
    viol, reach = [], []
    for p in ps:
        if p.kind != "return":
            continue
        reach.append(p.cond())
        ft = [e for e in p.events if e.kind == "call" and re.search(r"from_template::<", e.callee)]
        if len(ft) != 1 or "TOO_MANY_REQUESTS" not in str(to_term(MM.value_of(ex, ft[0].args[0]))):
            viol.append(p.cond())
            VALIDATION["status"] = str(to_term(MM.value_of(ex, ft[0].args[0])))[:100] if ft else "no from_template"
    return b, viol, reach, bad


def obligations(tier, seed):
    srv = R.bodies("server")
    out = []
    hist = dict(scenario="c11_limits", vars={}, fixed={"limit": 2}, region=z3.BoolVal(True))

    def emit(name, kind, bodies, viol, reach, bad, desc, bounds, keydetail, replay=None):
        bodies = [x.name for x in (bodies if isinstance(bodies, list) else [bodies]) if x is not None]
        reach_l = R.live_reach(viol, reach, bad)
        if bad or not all(reach_l):
            out.append(R.Result(engine="mirsym", name=name, kind=kind, status="unsupported" if bad else "vacuous",
                                detail=str(bad[:1] or ({k: len(v) for k, v in reach.items()} if isinstance(reach, dict) else "no path"))[:300], bodies=bodies))
            return
        q = [v if isinstance(v, z3.ExprRef) else z3.BoolVal(bool(v)) for v in viol]
        out.append(R.decide(name, kind, z3.Or(*q) if q else z3.BoolVal(False), [z3.Or(*v) for v in reach_l], bodies=bodies, desc=desc, bounds=bounds, keydetail=keydetail, replay=replay or hist))
    bs, viol, reach, bad = _guard_kernel(srv)
    emit("kernel:ConnectionGuard", "kernel", bs, viol, reach, bad, "ConnectionGuard::new(limit) holds exactly `limit` slots and reports `limit` as its maximum; try_acquire takes a slot iff one is free",
         "all usize limits", "guard-kernel")
    out += _guard_sources(srv)
    b, viol, reach, bad = _admission(srv)
    emit("branch:TowerServiceNoHttp::call:admission", "order", b, viol, reach, bad,
         "without a permit the request gets the 429 block and nothing else happens (no connection state, no RPC service, no task, no call); with a permit, that permit is the one put into "
         "this connection's state, which goes into the spawned WebSocket task or into the HTTP response future - or is dropped on return when nothing is served",
         "try_acquire Some / None x upgrade request or not x handshake ok / failed x protocol switches; every path", "admission")
    from . import tryrecv as _tr
    bt, violt, reacht, badt = _tr.obligations(srv, "ticks")
    emit("order:try_recv:silent-peer-is-closed", "order", bt, violt, {k: v for k, v in reacht.items() if k.startswith("tick")}, badt,
         "server-side close of a silent WebSocket peer (what frees its slot): with pings configured every tick asks whether the time since the last activity exceeds inactive_limit; "
         "each such tick counts one failure and the receive step ends with ConnectionClosed exactly at the tick on which the count reaches max_failures",
         "every outcome of the combined future over up to three loop rounds; any ping configuration, failure count below 2^62 and idle verdict per tick", "try-recv-ticks",
         replay=dict(scenario="c11_inactive_peer", vars={}, fixed={}, region=z3.BoolVal(True)))
    b, viol, reach, bad = _http_block(srv)
    emit("order:http-response-future:permit-held-until-answered", "order", b, viol, reach, bad,
         "the HTTP response future - the one hyper drops when the peer goes away - processes the call itself (no task of its own) and drops the connection state exactly once, only "
         "after call_with_service has produced the response", "call ready / still pending", "http-permit",
         replay=dict(scenario="c11_http_peer_gone", vars={}, fixed={}, region=z3.BoolVal(True)))
    b, viol, reach, bad = _ws_task(srv)
    emit("prov:ws-connection-task:state-handed-on", "provenance", b, viol, reach, bad,
         "the spawned WebSocket task hands the connection state on to ws::background_task (BackgroundTaskParams.conn) without dropping it; it is dropped when the upgrade fails", "upgrade ok / failed", "ws-task")
    b, viol, reach, bad = _background_task(srv)
    emit("order:ws::background_task:permit-held-until-shutdown", "order", b, viol, reach, bad,
         "ws::background_task lets go of the connection state only after its graceful shutdown completed (the slot is taken for the whole WebSocket session)", "every resume point; 3 visits per loop head", "ws-permit")
    b, viol, reach, bad = _status_429(srv)
    emit("kernel:too_many_requests:status", "kernel", b, viol, reach, bad, "the refusal response is built from StatusCode::TOO_MANY_REQUESTS (429)", "-", "status-429")
    # "however the server is assembled": the configured value survives every builder step
    from .cfgframe import journey_obligations as _journey
    _extra = _journey(R.bodies("server"), "max_connections", "max_connections", scenario="cfg_journey", fixed={"field": "max_connections"})
    out += _extra
    # "refused with HTTP 429": the status the refusal carries (the admission obligations decide that the refusal helper answers)
    from .httpstatus import obligation as _status
    out.append(_status(srv, "too_many_requests", "kernel:response::too_many_requests:status-429", lambda s: s == 429,
                       "the response built for a connection beyond max_connections carries HTTP status 429",
                       dict(scenario="c11_limits", vars={}, fixed={"limit": 2}, region=z3.BoolVal(True)), "status-429"))
    return out
