"""C04 (reduced claim) - a subscription's notifications are its own, follow the accepting response, stop at close, and its closing
notification is sent at most once and only when it was accepted.

Decided from the MIR of jsonrpsee-core: the notification builders (own id / method name), every send flavour of SubscriptionSink
(closed => nothing is queued; otherwise exactly the notification built from this sink's id and method is queued), accept() (the
accepting response - carrying this subscription's id - is handed to the connection queue before a sink exists), the task that sends
the closing notification (only after handler AND acceptance, at most once, own id / method) and the future that signals acceptance.
Everything that is a schedule of several tasks (handler vs. unsubscribe vs. writer) is outside; the order of the queue itself is tokio's.
"""
import re
import z3
from .. import run as R, models as M, mapmodels as MM, prov as P, seqmodels as SQ
from ..sym import Ctx, Executor, Node, Ptr, Opaque, OBJ, to_term, Fork, Unsupported, Event
from . import C06

VALIDATION = {}
S = r"^fn subscription::<impl at core/src/server/subscription\.rs:[\d: ]+>::"


def _t(ex, v):
    v = MM.value_of(ex, v)
    if isinstance(v, Node):
        inner = " ".join(_t(ex, k) for kk, k in v.kids.items() if not (isinstance(kk, tuple) and kk[0] == "name"))
        return (v.name or "") + " " + (str(to_term(v.val)) if v.val is not None else "") + " " + inner
    return str(to_term(v))


def _builders(core):
    """sub_message_to_json / sub_err_to_json put the given subscription id and method name (and nothing else) into the notification"""
    out = []
    for fn, ctor, payload in (("sub_message_to_json", r"Notification::<'_, SubscriptionPayload<.*>>::new$", "SubscriptionPayload"), ("sub_err_to_json", r"Notification::<'_, SubscriptionPayloadError<.*>>::new$", "SubscriptionPayloadError")):
        b = R.find_body(core, r"^fn (subscription::)?" + fn + r"\(_1: ")
        ctx = P.make_ctx(core, extra_models=[(r"::into_owned$", M.m_identity)] + list(SQ.TRY_MODELS))
        ctx.inline = []
        ex = Executor(ctx)
        ps = ex.run(b)
        bad = [(p.kind, p.detail) for p in ps if p.kind in ("unsupported", "limit", "unwound")]
        viol, reach = [], []
        fi_sub = R.field_index(payload, "subscription")
        for p in ps:
            if p.kind != "return":
                continue
            new = [e for e in p.events if e.kind == "call" and re.search(ctor, e.callee)]
            raw = [e for e in p.events if e.kind == "call" and re.search(r"to_raw_value::<", e.callee)]
            if not new:
                # the pre-built message variant (SubscriptionMessage built by the handler itself) is passed through
                if fn == "sub_message_to_json" and "arg1" in _t(ex, p.ret):
                    continue
                viol.append(p.cond())
                continue
            reach.append(p.cond())
            why = []
            if len(new) != 1 or len(raw) != 1:
                why.append("not exactly one notification object / serialisation")
            else:
                if "arg3" not in _t(ex, new[0].args[0]):
                    why.append("method name is not the one given")
                pl = MM.value_of(ex, new[0].args[1])
                subf = ex.read_node(pl.kids[fi_sub]) if isinstance(pl, Node) and fi_sub in pl.kids else None
                if subf is None or "arg2" not in _t(ex, subf):
                    why.append("subscription id is not the one given")
                if "Notification::<" not in _t(ex, raw[0].args[0]):
                    why.append("something else than that object is serialised")
            if why:
                viol.append(p.cond())
                VALIDATION[fn] = why
        out.append((fn, b, viol, reach, bad))
    return out


def _is_closed_kernel(core):
    """SubscriptionSink::is_closed(): closed <=> the connection is gone OR this subscription was unsubscribed (what 'the handler's sink reports closed' means; the three send
    flavours consult it)"""
    b = R.find_body(core, S + r"is_closed\(_1: &subscription::SubscriptionSink\)")
    conn, unsub = z3.Bool("connection.closed"), z3.Bool("subscription.unsubscribed")
    models = [(r"^MethodSink::is_closed$", lambda ex, st, c, a, d, s_: conn),
              (r"IsUnsubscribed::is_unsubscribed$", lambda ex, st, c, a, d, s_: unsub)] + list(M.TRACING_MODELS)
    ctx = P.make_ctx(core, extra_models=models, max_paths=200)
    ctx.inline = [M.crate_inliner(core)]
    ex = Executor(ctx)
    ps = ex.run(b)
    bad = [(p.kind, p.detail) for p in ps if p.kind != "return"]
    viol, reach = [], {"closed": [], "open": []}
    for p in ps:
        if p.kind != "return":
            continue
        r = ex.read_node(p.ret) if isinstance(p.ret, Node) else p.ret
        if not isinstance(r, z3.BoolRef):
            r = ex.as_bv(r) != 0
        pc = p.cond()
        want = z3.Or(conn, unsub)
        viol.append(z3.And(pc, r != want))
        reach["closed"].append(z3.And(pc, want))
        reach["open"].append(z3.And(pc, z3.Not(want)))
    return b, viol, reach, bad


def _send_flavour(core, which):
    """SubscriptionSink::{send, send_timeout, try_send}: closed => Err and nothing queued; else the notification built from this sink's own
    subscription id and method is handed to the connection queue (exactly once)"""
    if which == "try_send":
        b = R.find_body(core, S + r"try_send\(_1: &mut subscription::SubscriptionSink, _2: impl Into<SubscriptionMessage>\)")
    else:
        b = R.find_body(core, S + which + r"::\{closure#0\}\(_1: Pin<&mut \{async fn body of subscription::SubscriptionSink::" + which + r"<")
    closed = z3.Bool("sink.is_closed")
    fi_key, fi_method = R.field_index("SubscriptionSink", "uniq_sub"), R.field_index("SubscriptionSink", "method")
    fi_subid = R.field_index("SubscriptionKey", "sub_id")
    models = [(r"^subscription::SubscriptionSink::is_closed$", lambda ex, st, c, a, d, s: closed),
              (r"^sub_message_to_json$", lambda ex, st, c, a, d, s: Opaque(z3.Const("notification_json", OBJ)))] + list(SQ.TRY_MODELS) + list(M.TRACING_MODELS)
    ex, ctx, paths = P.explore(core, b, extra_models=models, max_paths=2000)
    bad = [(p.kind, p.detail) for p in paths if p.kind in ("unsupported", "limit", "unwound", "panic")]
    viol, reach = [], {"closed": [], "queued": []}
    for p in paths:
        if p.kind != "return" or (getattr(p, "state", None) or 0) != 0:
            continue
        pc = p.cond()
        evs = [e for e in p.events if e.kind == "call"]
        build = [e for e in evs if e.callee == "sub_message_to_json"]
        q = [e for e in evs if re.search(r"^MethodSink::(send|try_send|send_timeout)$", e.callee)]
        why = []
        if q or build:
            # whatever the code looked at: nothing may be queued in a world where the sink is closed
            if ex.feasible(list(p.pc) + [closed]):
                viol.append(z3.And(pc, closed))
                VALIDATION["send:" + which] = ["something is queued although the sink reports closed"]
        else:
            reach["closed"].append(z3.And(pc, closed))
            if ex.feasible(list(p.pc) + [z3.Not(closed)]):
                viol.append(z3.And(pc, z3.Not(closed)))        # an open sink must queue the notification
        if q or build:
            reach["queued"].append(z3.And(pc, z3.Not(closed)))
            if len(q) != 1 or len(build) != 1:
                why.append(f"{len(q)} queue operations / {len(build)} notifications built for one send")
            else:
                sid, meth = _t(ex, build[0].args[1]), _t(ex, build[0].args[2])
                if not re.search(rf"\*\.{fi_key}\.{fi_subid}($|[^\d])", sid):
                    why.append("the notification is not built with this sink's subscription id: " + sid[:60])
                if not re.search(rf"\*\.{fi_method}($|[^\d])", meth):
                    why.append("the notification is not built with this sink's method name: " + meth[:60])
                if "notification_json" not in _t(ex, q[0].args[1]):
                    why.append("what is queued is not the notification that was built")
        if why:
            viol.append(pc)
            VALIDATION["send:" + which] = why
    return b, viol, reach, bad


def _accept_order(core):
    """accept(): on every path that yields a sink the accepting response (built from the call's id and this subscription's id) was handed to the
    connection queue successfully before; a failed hand-over yields no sink"""
    d = C06.Drv(core)
    d.sids = [z3.BitVec("sub0.id", 64)]
    viol, reach = [], {"sink": [], "no-sink": []}
    for w in d.initial(3):
        for w2, got in d.op_acquire(w):
            if not got:
                continue
            for w3, res, p in d.op_accept(w2, 0):
                pc = z3.And(*w3.pc)
                evs = [e for e in p.events if e.kind == "call"]
                sends = [i for i, e in enumerate(evs) if e.callee == "MethodSink::send"]
                polls = [i for i, e in enumerate(evs) if re.search(r"MethodSink::send\(\)\} as futures_util::Future>::poll$", e.callee)]
                resp = [e for e in evs if re.search(r"MethodResponse::subscription_response::<", e.callee)]
                pay = [e for e in evs if re.search(r"ResponsePayload::<.*>::success_borrowed$", e.callee)]
                if res == "ok":
                    reach["sink"].append(pc)
                    why = []
                    if len(sends) != 1 or not polls or not resp or not pay:
                        why.append("the accepting response is not handed to the queue exactly once")
                    else:
                        ok_send = not d.ex.feasible(list(w3.pc) + [z3.Not(z3.Or(*[c for c in _flags(w3.pc, "sink_send_ok")]))]) if _flags(w3.pc, "sink_send_ok") else False
                        if not ok_send:
                            why.append("a sink exists although handing over the accepting response failed")
                        if "pending" not in _t(d.ex, resp[0].args[0]) and "call_id" not in _t(d.ex, resp[0].args[0]):
                            why.append("the accepting response does not carry the call's id")
                        if "sub0.id" not in _t(d.ex, pay[0].args[0]):
                            why.append("the accepting response does not carry this subscription's id")
                    if why:
                        viol.append(pc)
                        VALIDATION["accept"] = why
                else:
                    reach["no-sink"].append(pc)
    return d, viol, reach, d.abnormal


def _flags(pc, stem):
    out = []
    for c in pc:
        s = str(c)
        m = re.fullmatch(rf"({stem}!\d+)", s)
        if m:
            out.append(z3.Bool(m.group(1)))
    return out


def _closing_task_paths(core):
    """explores the task spawned per subscription (register_subscription's async block); returns body, executor, paths and the two outcome symbols"""
    b = R.find_body(core, r"^fn rpc_module::<impl at core/src/server/rpc_module\.rs:[\d: ]+>::register_subscription::\{closure#0\}::\{closure#0\}\(_1: Pin<&mut \{async block@")
    joined = z3.BitVec("try_join.outcome", 8)       # 0 Ready(Ok) 1 Ready(Err) 2 Pending
    kinds = R.source_tables()["enums"]["SubscriptionCloseResponse"]
    close_kind = z3.BitVec("close_response.kind", 64)

    def m_poll(ex, st, callee, args, dty, site):
        if "TryJoin<" in callee:
            def ok(ex_, st_, tr):
                tup = Node(ex_.ctx.fresh_name("joined"), "(R, ())")
                a = Node(tup.name + ".0", None)
                a.val = Opaque(z3.Const("handler_result", OBJ))
                tup.kids[0] = a
                return ex_.mk_variant("Poll", 0, "Ready", ex_.mk_variant("Result", 0, "Ok", tup))

            def er(ex_, st_, tr):
                return ex_.mk_variant("Poll", 0, "Ready", ex_.mk_variant("Result", 1, "Err", Opaque(z3.Const("recv_error", OBJ))))
            return Fork([(joined == 0, ok), (joined == 1, er), (joined == 2, lambda ex_, st_, tr: ex_.mk_variant("Poll", 1, "Pending"))])
        if "MethodSink::send()" in callee:
            return ex.mk_variant("Poll", 0, "Ready", ex.mk_variant("Result", 0, "Ok", MM.UNIT))
        return NotImplemented

    def m_into_response(ex, st, callee, args, dty, site):
        r = Node(ex.ctx.fresh_name("close_response"), "SubscriptionCloseResponse")
        d = Node(r.name + ".discr", "isize")
        d.val = close_kind
        r.kids["discr"] = d
        for vn in kinds:
            k = Node(f"{r.name}.{vn}:0", None)
            k.val = Opaque(z3.Const(f"closing_value:{vn}", OBJ))
            r.kids[(vn, 0)] = k
        st["pc"].append(z3.ULE(close_kind, len(kinds) - 1))
        return r
    models = [(r"as (futures_util::|std::future::)?Future>::poll$", m_poll), (r"as IntoSubscriptionCloseResponse>::into_response$", m_into_response),
              (r"^sub_message_to_json$|^subscription::sub_err_to_json$", lambda ex, st, c, a, d, s: Opaque(z3.Const("closing_json", OBJ)))] + list(SQ.TRY_MODELS) + list(M.TRACING_MODELS)
    ex, ctx, paths = P.explore(core, b, extra_models=models, max_paths=4000)
    return b, ex, paths, joined, close_kind


def _closing_task(core):
    """the task spawned per subscription: a closing notification is sent at most once, only when handler AND acceptance completed, and it is built
    from this subscription's id and method"""
    b, ex, paths, joined, close_kind = _closing_task_paths(core)
    kinds = R.source_tables()["enums"]["SubscriptionCloseResponse"]
    bad = [(p.kind, p.detail) for p in paths if p.kind in ("unsupported", "limit", "unwound", "panic")]
    cap_sub, cap_m = P.capture_index(b, "sub_id"), P.capture_index(b, "method")
    viol, reach = [], {"sent": [], "discarded": [], "nothing-to-send": []}
    for p in paths:
        if p.kind != "return" or (getattr(p, "state", None) or 0) != 0:
            continue
        pc = p.cond()
        evs = [e for e in p.events if e.kind == "call"]
        built = [e for e in evs if re.search(r"^sub_message_to_json$|^subscription::sub_err_to_json$", e.callee)]
        q = [e for e in evs if e.callee == "MethodSink::send"]
        ok_join = not ex.feasible(list(p.pc) + [joined != 0])
        why = []
        if len(q) > 1 or len(built) > 1:
            why.append("more than one closing notification")
        if not ok_join:
            if q or built:
                why.append("a closing notification is sent although the handler / the acceptance did not complete")
            if not ex.feasible(list(p.pc) + [joined != 1]):
                reach["discarded"].append(pc)
        else:
            none_kind = not ex.feasible(list(p.pc) + [close_kind != kinds.index("None")])
            if none_kind:
                reach["nothing-to-send"].append(pc)
                if q:
                    why.append("a notification is sent for a handler that returned nothing to send")
            elif q:
                reach["sent"].append(pc)
                if len(built) != 1:
                    why.append("queued something that is not the closing notification")
                else:
                    if not re.search(rf"arg1\.0\.\*\.{cap_sub}($|[^\d])", _t(ex, built[0].args[1])):
                        why.append("closing notification not built with this subscription's id")
                    if not re.search(rf"arg1\.0\.\*\.{cap_m}($|[^\d])", _t(ex, built[0].args[2])):
                        why.append("closing notification not built with this subscription's method name")
                    if "closing_json" not in _t(ex, q[0].args[1]):
                        why.append("what is queued is not the closing notification")
            else:
                why.append("handler and acceptance completed with a closing value but nothing is sent")
        if why:
            viol.append(pc)
            VALIDATION["closing_task"] = why
    return b, viol, reach, bad


def _closing_task_captures(core):
    """the subscribe callback hands the closing task this subscription's own id (a clone of the key's sub id, fresh from the id provider) and the
    notification method name it was registered with"""
    outer = R.find_body(core, r"^fn rpc_module::<impl at core/src/server/rpc_module\.rs:[\d: ]+>::register_subscription::\{closure#0\}\(_1: &\{closure@")
    blk = R.find_body(core, r"^fn rpc_module::<impl at core/src/server/rpc_module\.rs:[\d: ]+>::register_subscription::\{closure#0\}::\{closure#0\}\(_1: Pin<&mut \{async block@")
    cap_sub, cap_m = P.capture_index(blk, "sub_id"), P.capture_index(blk, "method")
    cap_notif = P.capture_index(outer, "notif_method_name")
    ctx = P.make_ctx(core, extra_models=list(M.TRACING_MODELS) + [(r"::into_owned$", M.m_identity)], max_paths=2000)
    ctx.inline = []
    ex = Executor(ctx)
    ps = ex.run(outer)
    bad = [(p.kind, p.detail) for p in ps if p.kind in ("unsupported", "limit", "unwound")]
    viol, reach = [], []
    for p in ps:
        if p.kind != "return":
            continue
        sp = [e for e in p.events if e.kind == "call" and e.callee.startswith("tokio::spawn::<")]
        if len(sp) != 1:
            viol.append(p.cond())
            continue
        reach.append(p.cond())
        st = MM.value_of(ex, sp[0].args[0])
        why = []
        if not isinstance(st, Node) or cap_sub not in st.kids or cap_m not in st.kids:
            why.append("spawned state not recognised")
        else:
            mt = _t(ex, ex.read_node(st.kids[cap_m]))
            if not re.search(rf"arg1\.\*\.{cap_notif}($|[^\d])", mt):
                why.append("closing task's method name is not the registered notification method name: " + mt[:70])
            stx = _t(ex, ex.read_node(st.kids[cap_sub]))
            if "next_id" not in stx:
                why.append("closing task's subscription id is not this subscription's id: " + stx[:70])
        if why:
            viol.append(p.cond())
            VALIDATION["closing_task_captures"] = why
    return outer, viol, reach, bad


def _accept_signal(core):
    """the future answering the subscribe call: the acceptance signal for the closing task is given exactly when the subscribe response is a success"""
    b = R.find_body(core, r"^fn rpc_module::<impl at core/src/server/rpc_module\.rs:[\d: ]+>::register_subscription::\{closure#0\}::\{closure#1\}\(_1: Pin<&mut \{async block@")
    got = z3.BitVec("subscribe_rx.outcome", 8)      # 0 Ready(Ok(rp)) 1 Ready(Err) 2 Pending
    success = z3.Bool("response.is_success")

    def m_poll(ex, st, callee, args, dty, site):
        def ok(ex_, st_, tr):
            return ex_.mk_variant("Poll", 0, "Ready", ex_.mk_variant("Result", 0, "Ok", Opaque(z3.Const("subscribe_response", OBJ))))

        def er(ex_, st_, tr):
            return ex_.mk_variant("Poll", 0, "Ready", ex_.mk_variant("Result", 1, "Err", Opaque(z3.Const("recv_error", OBJ))))
        return Fork([(got == 0, ok), (got == 1, er), (got == 2, lambda ex_, st_, tr: ex_.mk_variant("Poll", 1, "Pending"))])
    models = [(r"as (futures_util::|std::future::)?Future>::poll$", m_poll), (r"MethodResponse::is_success$", lambda ex, st, c, a, d, s: success)] + list(SQ.TRY_MODELS) + list(M.TRACING_MODELS)
    ex, ctx, paths = P.explore(core, b, extra_models=models, max_paths=2000)
    bad = [(p.kind, p.detail) for p in paths if p.kind in ("unsupported", "limit", "unwound", "panic")]
    viol, reach = [], {"accepted": [], "not-accepted": []}
    for p in paths:
        if p.kind != "return" or (getattr(p, "state", None) or 0) != 0:
            continue
        if ex.feasible(list(p.pc) + [got == 2]) and not ex.feasible(list(p.pc) + [got != 2]):
            continue
        pc = p.cond()
        sig = [e for e in p.events if e.kind == "call" and re.search(r"oneshot::Sender::<\(\)>::send$", e.callee)]
        accepted = z3.And(got == 0, success)
        if len(sig) > 1:
            viol.append(pc)
        if sig:
            reach["accepted"].append(z3.And(pc, accepted))
            viol.append(z3.And(pc, z3.Not(accepted)))        # signalled although the answer was not a success
        else:
            reach["not-accepted"].append(z3.And(pc, z3.Not(accepted)))
            viol.append(z3.And(pc, accepted))                # accepted but the closing task is never released
    return b, viol, reach, bad


def _sat(c):
    sv = z3.Solver()
    sv.add(c)
    return sv.check() == z3.sat


def obligations(tier, seed):
    core = R.bodies("core")
    out = []
    rp = dict(scenario="c04_notifications", vars={}, fixed={}, region=z3.BoolVal(True))

    def emit(name, kind, bodies, viol, reach, bad, desc, bounds, keydetail):
        bodies = [x.name if hasattr(x, "name") else x for x in (bodies if isinstance(bodies, list) else [bodies]) if x is not None]
        reach_l = list(reach.values()) if isinstance(reach, dict) else [reach]
        qs = [v for v in viol if isinstance(v, z3.ExprRef)]
        if not bad and any(v is True for v in viol) or (not bad and qs and _sat(z3.Or(*qs))):
            # a reachable violation is reported even if the code no longer has one of the expected cases at all
            reach_l = [r for r in reach_l if r] or [[z3.BoolVal(True)]]
        if bad or not all(reach_l):
            out.append(R.Result(engine="mirsym", name=name, kind=kind, status="unsupported" if bad else "vacuous",
                                detail=str(bad[:1] or ({k: len(v) for k, v in reach.items()} if isinstance(reach, dict) else "no path"))[:300], bodies=bodies))
            return
        q = [v if isinstance(v, z3.ExprRef) else z3.BoolVal(bool(v)) for v in viol]
        out.append(R.decide(name, kind, z3.Or(*q) if q else z3.BoolVal(False), [z3.Or(*v) for v in reach_l], bodies=bodies, desc=desc, bounds=bounds, keydetail=keydetail, replay=rp))
    for fn, b, viol, reach, bad in _builders(core):
        emit(f"prov:{fn}", "provenance", b, viol, reach, bad, f"{fn} builds the notification from exactly the subscription id and method name it is given (a message pre-built by the handler is passed through)",
             "every path", "builder:" + fn)
    # servers generated by the rpc macro: each subscription is registered with its declared notification name (by default the subscribe name) - shared with C17
    from . import C17 as _c17
    f17 = R.bodies("fixture17")
    for api in _c17.declarations():
        if not any(it["kind"] == "subscription" for it in api["items"]):
            continue
        b, viol, reach, bad = _c17.registration_obligation(f17, api)
        reach_l = R.live_reach(viol, reach, bad)
        nm = f"registration:{api['trait']}:notification-names"
        if bad or not all(reach_l):
            out.append(R.Result(engine="mirsym", name=nm, kind="provenance", status="unsupported" if bad else "vacuous", detail=str(bad[:1])[:300], bodies=[b.name] if b is not None else []))
        else:
            q = [v if isinstance(v, z3.ExprRef) else z3.BoolVal(bool(v)) for v in viol]
            out.append(R.decide(nm, "provenance", z3.Or(*q) if q else z3.BoolVal(False), [z3.Or(*v) for v in reach_l], bodies=[b.name],
                                desc="the server generated by the rpc macro registers every subscription with its declared notification name - by default the subscribe method's name - and "
                                     "unsubscribe name, so the sink's notifications carry that name", bounds="every path of into_rpc of the fixture traits with subscriptions (Alpha, Beta)",
                                keydetail="registration:" + api["trait"], replay=dict(scenario="c17_roundtrip", vars={}, fixed={}, region=z3.BoolVal(True))))
    b, viol, reach, bad = _is_closed_kernel(core)
    emit("kernel:SubscriptionSink::is_closed", "kernel", b, viol, reach, bad,
         "the sink reports closed exactly when its connection is gone or its subscription was unsubscribed - either alone suffices",
         "connection closed x unsubscribed", "is-closed")
    for which in ("send", "send_timeout", "try_send"):
        b, viol, reach, bad = _send_flavour(core, which)
        emit(f"order:SubscriptionSink::{which}", "order", b, viol, reach, bad,
             f"SubscriptionSink::{which}: when the sink reports closed nothing is queued; otherwise exactly one notification, built from this sink's own subscription id and method name, is handed to the connection queue",
             "is_closed true / false; every resume point", "send:" + which)
    d, viol, reach, bad = _accept_order(core)
    emit("order:accept:response-before-sink", "order", sorted(d.ctx.encoded_bodies), viol, reach, bad,
         "a sink only exists after the accepting response - carrying the call's id and this subscription's id - was handed to the connection queue successfully (so every notification follows it in the queue)",
         "every outcome of the queue hand-over and of the internal acknowledgement", "accept-order")
    b, viol, reach, bad = _closing_task(core)
    emit("order:closing-notification", "order", b, viol, reach, bad,
         "the closing notification is sent at most once, only after the handler AND the acceptance completed (a rejected / never accepted subscription's closing value is discarded), and is built from this "
         "subscription's id and method name", "try_join Ok / Err / pending x closing value Notif / NotifErr / None", "closing-task")
    b, viol, reach, bad = _closing_task_captures(core)
    emit("prov:closing-task:own-id-and-method", "provenance", b, viol, reach, bad,
         "the closing task of a subscription is given that subscription's own id and the notification method name it was registered with", "every path of the subscribe callback", "closing-captures")
    b, viol, reach, bad = _accept_signal(core)
    emit("order:acceptance-signal", "order", b, viol, reach, bad,
         "the acceptance signal that releases the closing notification is given exactly when the subscribe call was answered with a success", "answer Ok(success) / Ok(error) / channel dropped", "accept-signal")
    return out
