"""Parser for rustc's `-Zunpretty=mir` text (nightly 1.97) — just enough structure for symbolic execution.

Body      : name, params [(local, type)], ret type, locals {local: type}, debug {name: place-text}, blocks {bbN: Block}
Block     : stmts [Stmt], term Term, cleanup flag
Stmt      : ('assign', Place, Rvalue, raw) | ('setdiscr', Place, int) | ('nop', raw)
Place     : (local:int, projections tuple) ; projection = ('deref',) | ('field', idx, type) | ('downcast', variant) |
            ('index', local) | ('constindex', txt)
Operand   : ('copy'|'move', Place) | ('const', text, type-suffix)
Rvalue    : ('use', Operand) | ('ref', mutability, Place) | ('addr', Place) | ('bin', op, Operand, Operand) | ('un', op, Operand)
            | ('cast', Operand, type, kind) | ('discr', Place) | ('agg', head, [ (fieldname|None, Operand) ]) | ('len', Place)
            | ('repeat', Operand, n) | ('unknown', raw)
Term      : ('goto', bb) | ('return',) | ('unreachable',) | ('resume',) | ('switch', Operand, [(val, bb)], otherwise)
            | ('assert', Operand, expected:bool, msg, bb) | ('drop', Place, bb) | ('call', Place|None, callee, [Operand], bb|None, raw)
            | ('other', raw)
"""
import re

BINOPS = {"Add", "Sub", "Mul", "Div", "Rem", "BitAnd", "BitOr", "BitXor", "Shl", "Shr", "Eq", "Ne", "Lt", "Le", "Gt", "Ge",
          "AddWithOverflow", "SubWithOverflow", "MulWithOverflow", "AddUnchecked", "SubUnchecked", "MulUnchecked",
          "ShlUnchecked", "ShrUnchecked", "Offset", "Cmp"}
UNOPS = {"Not", "Neg", "PtrMetadata"}


class ParseError(Exception):
    pass


def _charlit(s, i):
    """if s[i] starts a char literal ('x' or '\\n' or '\\u{..}'), return index of its closing quote, else None"""
    n = len(s)
    if s[i] != "'" or i + 2 >= n:
        return None
    if s[i + 1] == "\\":
        j = s.find("'", i + 2)
        if s[i + 2] == "'":
            j = s.find("'", i + 3)
        return j if 0 < j <= i + 12 else None
    if s[i + 2] == "'":
        return i + 2
    # multi-byte char
    if ord(s[i + 1]) > 127 and i + 2 < n and s[i + 2] == "'":
        return i + 2
    return None


def split_top(s, sep=","):
    """split on `sep` at bracket depth 0 (parens, brackets, braces; angle brackets tracked loosely)."""
    out, depth, cur, i, n = [], 0, [], 0, len(s)
    instr = False
    while i < n:
        c = s[i]
        if instr:
            cur.append(c)
            if c == "\\":
                i += 1
                if i < n:
                    cur.append(s[i])
            elif c == '"':
                instr = False
        elif c == '"':
            instr = True
            cur.append(c)
        elif c == "'" and _charlit(s, i) is not None:
            j = _charlit(s, i)
            cur.append(s[i:j + 1])
            i = j
        elif c in "([{":
            depth += 1
            cur.append(c)
        elif c in ")]}":
            depth -= 1
            cur.append(c)
        elif c == "<" and (i + 1 < n and s[i + 1] not in " ="):
            depth += 1
            cur.append(c)
        elif c == ">" and i > 0 and s[i - 1] not in "-=" and depth > 0 and s[i - 1] != " ":
            depth -= 1
            cur.append(c)
        elif c == sep and depth == 0:
            out.append("".join(cur).strip())
            cur = []
        else:
            cur.append(c)
        i += 1
    last = "".join(cur).strip()
    if last:
        out.append(last)
    return out


def match_paren(s, i):
    """s[i] is an opening bracket; return index of the matching close (parens/brackets/braces only, strings skipped)."""
    depth, n = 0, len(s)
    instr = False
    while i < n:
        c = s[i]
        if instr:
            if c == "\\":
                i += 1
            elif c == '"':
                instr = False
        elif c == '"':
            instr = True
        elif c == "'" and _charlit(s, i) is not None:
            i = _charlit(s, i)
        elif c in "([{":
            depth += 1
        elif c in ")]}":
            depth -= 1
            if depth == 0:
                return i
        i += 1
    raise ParseError("unbalanced: " + s[:80])


def parse_place(s):
    s = s.strip()
    p, rest = _place(s, 0)
    if s[rest:].strip():
        raise ParseError(f"trailing in place: {s!r} at {rest}")
    return p


def _place(s, i):
    """returns (place, next_index)"""
    n = len(s)
    while i < n and s[i] == " ":
        i += 1
    if s[i] == "(":
        j = match_paren(s, i)
        inner = s[i + 1:j]
        if inner.startswith("*"):
            base, k = _place(inner, 1)
            if inner[k:].strip():
                raise ParseError("deref trailing " + inner)
            pl = (base[0], base[1] + (("deref",),))
        else:
            base, k = _place(inner, 0)
            rest = inner[k:]
            m = re.match(r"\s+as\s+(.*)$", rest, re.S)
            if m:
                pl = (base[0], base[1] + (("downcast", m.group(1).strip()),))
            else:
                m = re.match(r"\.(\d+):\s*(.*)$", rest, re.S)
                if not m:
                    raise ParseError(f"bad projection {inner!r}")
                pl = (base[0], base[1] + (("field", int(m.group(1)), m.group(2).strip()),))
        i = j + 1
    else:
        m = re.match(r"_(\d+)", s[i:])
        if not m:
            raise ParseError(f"bad place {s[i:i+60]!r}")
        pl = (int(m.group(1)), ())
        i += m.end()
    # postfix index projections
    while i < n and s[i] == "[":
        j = match_paren(s, i)
        inner = s[i + 1:j]
        m = re.fullmatch(r"_(\d+)", inner.strip())
        if m:
            pl = (pl[0], pl[1] + (("index", int(m.group(1))),))
        else:
            pl = (pl[0], pl[1] + (("constindex", inner.strip()),))
        i = j + 1
    return pl, i


def parse_operand(s):
    s = s.strip()
    if s.startswith("no_retag "):
        s = s[len("no_retag "):].strip()
    if s.startswith("copy "):
        return ("copy", parse_place(s[5:]))
    if s.startswith("move "):
        return ("move", parse_place(s[5:]))
    if s.startswith("const "):
        return ("const", s[6:].strip())
    raise ParseError(f"bad operand {s!r}")


def _is_operand(s):
    s = s.strip()
    return s.startswith(("copy ", "move ", "const ", "no_retag "))


def parse_rvalue(s):
    s = s.strip()
    try:
        if _is_operand(s):
            # maybe a cast: "<operand> as T (Kind)"
            m = re.match(r"^(.*) as (.*) \(([A-Za-z]+(?:\(.*\))?)\)$", s, re.S)
            if m and _is_operand(m.group(1)) and not m.group(1).strip().startswith("const \""):
                try:
                    return ("cast", parse_operand(m.group(1)), m.group(2).strip(), m.group(3))
                except ParseError:
                    pass
            return ("use", parse_operand(s))
        if s.startswith("&raw const ") or s.startswith("&raw mut "):
            return ("addr", parse_place(s.split(" ", 2)[2]))
        if s.startswith("&mut "):
            return ("ref", "mut", parse_place(s[5:]))
        if s.startswith("&fake "):
            return ("ref", "not", parse_place(s.split(" ", 2)[2]))
        if s.startswith("&"):
            return ("ref", "not", parse_place(s[1:]))
        m = re.match(r"^([A-Za-z]+)\((.*)\)$", s, re.S)
        if m and m.group(1) in BINOPS:
            a = split_top(m.group(2))
            if len(a) == 2:
                return ("bin", m.group(1), parse_operand(a[0]), parse_operand(a[1]))
        if m and m.group(1) in UNOPS:
            return ("un", m.group(1), parse_operand(m.group(2)))
        if m and m.group(1) == "discriminant":
            return ("discr", parse_place(m.group(2)))
        if m and m.group(1) in ("Len",):
            return ("len", parse_place(m.group(2)))
        if m and m.group(1) == "CopyForDeref":
            return ("use", ("copy", parse_place(m.group(2))))
        if s.startswith(("{closure@", "{coroutine@", "{async ")) and s.endswith("}") and match_paren(s, 0) == len(s) - 1:
            return ("agg", s, [])
        if s.startswith("[") and s.endswith("]"):
            inner = s[1:-1]
            parts = split_top(inner, ";")
            if len(parts) == 2 and _is_operand(parts[0]):
                return ("repeat", parse_operand(parts[0]), parts[1])
            return ("agg", "[]", [(None, parse_operand(x)) for x in split_top(inner)])
        if s.startswith("(") and s.endswith(")") and match_paren(s, 0) == len(s) - 1:
            inner = s[1:-1].strip()
            if inner == "":
                return ("agg", "()", [])
            parts = split_top(inner)
            if all(_is_operand(x) for x in parts):
                return ("agg", "()", [(None, parse_operand(x)) for x in parts])
        # Named aggregate: Path { f: op, .. }  |  Path(op, ..)  |  Path (unit variant)
        if s.endswith("}"):
            # find the '{' that opens the field list: last top-level " { "
            k = s.rfind(" { ")
            depth_ok = False
            while k >= 0:
                try:
                    if match_paren(s, k + 1) == len(s) - 1:
                        depth_ok = True
                        break
                except ParseError:
                    pass
                k = s.rfind(" { ", 0, k)
            if depth_ok:
                head = s[:k].strip()
                inner = s[k + 3:-1].strip()
                fields = []
                for part in split_top(inner):
                    m2 = re.match(r"^([A-Za-z_][A-Za-z0-9_]*):\s*(.*)$", part, re.S)
                    if m2 and _is_operand(m2.group(2)):
                        fields.append((m2.group(1), parse_operand(m2.group(2))))
                    else:
                        raise ParseError("agg field " + part)
                return ("agg", head, fields)
        if s.endswith(")"):
            # tuple-like: find matching open paren for the final ')'
            depth = 0
            k = len(s) - 1
            instr = False
            while k >= 0:
                c = s[k]
                if c == '"':
                    instr = not instr
                elif not instr:
                    if c in ")]}":
                        depth += 1
                    elif c in "([{":
                        depth -= 1
                        if depth == 0:
                            break
                k -= 1
            head = s[:k].strip()
            inner = s[k + 1:-1]
            parts = split_top(inner)
            if head and all(_is_operand(x) for x in parts) and re.match(r"^[<A-Za-z_{]", head):
                return ("agg", head, [(None, parse_operand(x)) for x in parts])
        if re.match(r"^[<A-Za-z_][^ ]*$", s) or re.match(r"^[<A-Za-z_].*::[A-Za-z_][A-Za-z0-9_]*$", s):
            return ("agg", s, [])  # unit variant / unit struct
    except ParseError:
        pass
    return ("unknown", s)


class Block:
    __slots__ = ("name", "stmts", "term", "cleanup", "line")

    def __init__(self, name, cleanup, line):
        self.name, self.cleanup, self.stmts, self.term, self.line = name, cleanup, [], None, line


class Body:
    def __init__(self, name, header, line):
        self.name, self.header, self.line = name, header, line
        self.params, self.ret = [], None
        self.locals, self.debug, self.blocks = {}, {}, {}
        self.order = []

    def __repr__(self):
        return f"<Body {self.name} ({len(self.blocks)} blocks)>"


def _parse_targets(s):
    """'[return: bb1, unwind: bb2]' or 'bb3' -> dict"""
    s = s.strip().rstrip(";").strip()
    d = {}
    if s.startswith("["):
        for part in split_top(s[1:-1]):
            k, _, v = part.partition(":")
            d[k.strip()] = v.strip()
    elif s.startswith("bb"):
        d["return"] = s
    else:
        d["_"] = s
    return d


def parse_terminator(s):
    s = s.strip().rstrip(";")
    raw = s
    if s.startswith("goto -> "):
        return ("goto", s[8:].strip())
    if s == "return":
        return ("return",)
    if s == "unreachable":
        return ("unreachable",)
    if s.startswith("resume") or s.startswith("terminate") or s.startswith("coroutine_drop"):
        return ("resume",)
    if s.startswith("switchInt("):
        j = match_paren(s, len("switchInt"))
        op = parse_operand(s[len("switchInt("):j])
        t = _parse_targets(s[j + 1:].replace("->", "", 1))
        arms, other = [], None
        for k, v in t.items():
            if k == "otherwise":
                other = v
            else:
                arms.append((int(k), v))
        return ("switch", op, arms, other)
    if s.startswith("assert("):
        j = match_paren(s, len("assert"))
        inner = split_top(s[len("assert("):j])
        cond = inner[0].strip()
        expected = True
        if cond.startswith("!"):
            expected = False
            cond = cond[1:]
        t = _parse_targets(s[j + 1:].replace("->", "", 1))
        return ("assert", parse_operand(cond), expected, inner[1] if len(inner) > 1 else "", t.get("success"))
    if s.startswith("drop("):
        j = match_paren(s, 4)
        t = _parse_targets(s[j + 1:].replace("->", "", 1))
        return ("drop", parse_place(s[5:j]), t.get("return"))
    if s.startswith("falseEdge") or s.startswith("falseUnwind"):
        m = re.search(r"\[real: (bb\d+)", s)
        return ("goto", m.group(1)) if m else ("other", raw)
    if s.startswith("yield("):
        return ("other", raw)
    # call:  [place = ] callee(args) -> targets
    k = s.rfind(") -> ")
    if k >= 0:
        lhs_call = s[:k + 1]
        targets = _parse_targets(s[k + 5:])
        dest = None
        call = lhs_call
        # destination: text before first top-level " = "
        depth = 0
        for idx in range(len(lhs_call) - 2):
            c = lhs_call[idx]
            if c in "([{":
                depth += 1
            elif c in ")]}":
                depth -= 1
            elif depth == 0 and lhs_call.startswith(" = ", idx):
                try:
                    dest = parse_place(lhs_call[:idx])
                    call = lhs_call[idx + 3:]
                except ParseError:
                    dest = None
                break
        # args = final parenthesised group: scan forward over top-level groups, keep the last '(' whose match is the end
        kk, idx2 = -1, 0
        while idx2 < len(call):
            c = call[idx2]
            if c in "([{":
                j2 = match_paren(call, idx2)
                if j2 == len(call) - 1 and c == "(":
                    kk = idx2
                    break
                idx2 = j2 + 1
            elif c == '"':
                idx2 = call.index('"', idx2 + 1) + 1
            else:
                idx2 += 1
        if kk < 0:
            return ("other", raw)
        callee = call[:kk].strip()
        args = []
        for a in split_top(call[kk + 1:-1]):
            try:
                args.append(parse_operand(a))
            except ParseError:
                args.append(("const", a))  # fn item / path used as a value
        return ("call", dest, callee, args, targets.get("return"), raw)
    return ("other", raw)


HEADER_RE = re.compile(r"^fn (.*?)\((.*)\) -> (.*) \{$")


def parse(text):
    """returns dict name -> Body (later duplicates get a #n suffix)."""
    bodies = {}
    lines = text.split("\n")
    i, n = 0, len(lines)
    cur = None
    blk = None
    while i < n:
        ln = lines[i]
        if ln.startswith("fn ") and ln.rstrip().endswith("{") and i > 0 and lines[i - 1].startswith("// MIR FOR CTFE"):
            # const-eval copy of a const fn: skip it (the runtime body precedes it)
            cur = None
            blk = None
            i += 1
            while i < n and not lines[i].startswith("}"):
                i += 1
        elif ln.startswith("fn ") and ln.rstrip().endswith("{"):
            hdr = ln.rstrip()
            # name = up to the parameter list "(_1: ..." or "()"
            m = re.match(r"^fn (.*?)\((_1: |\))", hdr)
            name = m.group(1) if m else hdr[3:].split("(")[0]
            k = 1
            base = name
            while name in bodies:
                k += 1
                name = f"{base}#{k}"
            cur = Body(name, hdr, i + 1)
            bodies[name] = cur
            # params
            try:
                po = hdr.index("(", 3 + len(base))
                pc = match_paren(hdr, po)
                for part in split_top(hdr[po + 1:pc]):
                    m2 = re.match(r"^_(\d+): (.*)$", part, re.S)
                    if m2:
                        cur.params.append((int(m2.group(1)), m2.group(2).strip()))
                        cur.locals[int(m2.group(1))] = m2.group(2).strip()
                m3 = re.match(r"^\s*-> (.*) \{$", hdr[pc + 1:])
                cur.ret = m3.group(1) if m3 else None
            except (ValueError, ParseError):
                pass
            blk = None
        elif cur is not None:
            s = ln.strip()
            if ln.startswith("}"):
                cur = None
                blk = None
            elif blk is None or ln.startswith("    bb") or ln.startswith("    }"):
                m = re.match(r"^    (bb\d+)( \(cleanup\))?: \{$", ln)
                if m:
                    blk = Block(m.group(1), bool(m.group(2)), i + 1)
                    cur.blocks[blk.name] = blk
                    cur.order.append(blk.name)
                elif ln.startswith("    }"):
                    blk = None
                else:
                    m = re.match(r"^\s*let (mut )?_(\d+): (.*);$", ln)
                    if m:
                        cur.locals[int(m.group(2))] = m.group(3)
                    else:
                        m = re.match(r"^\s*debug (\S+) => (.*);$", ln)
                        if m:
                            cur.debug.setdefault(m.group(1), m.group(2))
            else:
                if not s:
                    pass
                else:
                    # statements may be long; one per line in this dump
                    _parse_line(cur, blk, s, i + 1)
        i += 1
    return bodies


def _parse_line(body, blk, s, lineno):
    st = s.rstrip(";")
    # terminators
    head = st.split("(")[0].split(" ")[0]
    if (st.startswith(("goto ->", "switchInt(", "assert(", "drop(", "falseEdge", "falseUnwind", "yield(", "resume", "terminate", "coroutine_drop"))
            or st in ("return", "unreachable") or ") -> " in st and (st.endswith("]") or re.search(r"\) -> (\[|bb\d+$|unwind)", st))):
        try:
            blk.term = parse_terminator(st)
        except ParseError as e:
            blk.term = ("other", st)
        return
    if st.startswith(("StorageLive", "StorageDead", "nop", "FakeRead", "PlaceMention", "Retag", "AscribeUserType", "Coverage", "ConstEvalCounter", "BackwardIncompatibleDropHint")):
        blk.stmts.append(("nop", st))
        return
    m = re.match(r"^discriminant\((.*)\) = (\d+)$", st)
    if m:
        try:
            blk.stmts.append(("setdiscr", parse_place(m.group(1)), int(m.group(2)), st))
        except ParseError:
            blk.stmts.append(("unknown", st))
        return
    if st.startswith(("assume(", "Deinit(", "copy_nonoverlapping(")):
        blk.stmts.append(("nop", st))
        return
    # assignment: find top-level " = "
    depth = 0
    for idx in range(len(st) - 2):
        c = st[idx]
        if c in "([{":
            depth += 1
        elif c in ")]}":
            depth -= 1
        elif depth == 0 and st.startswith(" = ", idx):
            try:
                lhs = parse_place(st[:idx])
            except ParseError:
                break
            rv = parse_rvalue(st[idx + 3:])
            blk.stmts.append(("assign", lhs, rv, st))
            return
    blk.stmts.append(("unknown", st))
