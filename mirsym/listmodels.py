"""Concrete-length list abstraction of `Vec<T>` (T not u8), vec::IntoIter, slices and `Range<u64>`/`Range<usize>` iteration.

A vector is a node with children ("el", i); lengths are concrete per path (the driver builds vectors of stated sizes), element
values are arbitrary symbolic nodes. `get_mut(idx)` with a symbolic index forks over `idx == i` for every i and `idx >= len`.
"""
import re
import z3
from .sym import Node, Ptr, Opaque, OBJ, Unsupported, Fork
from . import models as M
from .mapmodels import option, value_of

UNIT = Opaque(z3.Const("unit", OBJ))


def new_list(ex, elems=(), name="vec"):
    n = Node(ex.ctx.fresh_name(name), "Vec")
    n.variant = ("list", 0)
    for e in elems:
        push(ex, n, e)
    return n


def is_list(n):
    return isinstance(n, Node) and isinstance(n.variant, tuple) and n.variant and n.variant[0] == "list"


def list_node(ex, v):
    n = v.node if isinstance(v, Ptr) else v
    if isinstance(n, Node) and not is_list(n) and isinstance(n.val, Ptr):
        n = n.val.node
    if not is_list(n):
        raise Unsupported(f"not a modelled Vec: {n!r}")
    return n


def elems(n):
    out = []
    i = 0
    while ("el", i) in n.kids:
        out.append(n.kids[("el", i)])
        i += 1
    return out


def push(ex, n, v):
    i = len(elems(n))
    k = Node(f"{n.name}.el{i}", None)
    ex.write(k, v)
    k.name = f"{n.name}.el{i}"
    n.kids[("el", i)] = k
    return k


def m_new(ex, st, callee, args, dty, site):
    return new_list(ex)


def m_push(ex, st, callee, args, dty, site):
    push(ex, list_node(ex, args[0]), args[1])
    return UNIT


def m_len(ex, st, callee, args, dty, site):
    return z3.BitVecVal(len(elems(list_node(ex, args[0]))), 64)


def m_is_empty(ex, st, callee, args, dty, site):
    return z3.BoolVal(len(elems(list_node(ex, args[0]))) == 0)


def m_into_iter(ex, st, callee, args, dty, site):
    n = list_node(ex, args[0])
    it = Node(ex.ctx.fresh_name("iter"), "IntoIter")
    it.variant = ("iter", 0)
    src = n.clone()
    src.name = it.name + ".src"
    it.kids["src"] = src
    return it


def m_iter_next(ex, st, callee, args, dty, site):
    it = args[0].node if isinstance(args[0], Ptr) else args[0]
    if not (isinstance(it, Node) and isinstance(it.variant, tuple) and it.variant and it.variant[0] == "iter"):
        return NotImplemented
    pos = it.variant[1]
    src = it.kids["src"]
    es = elems(src)
    if pos >= len(es):
        return option(ex, False)
    it.variant = ("iter", pos + 1)
    return option(ex, True, ex.read_node(es[pos]))


def m_get_mut(ex, st, callee, args, dty, site):
    n = list_node(ex, args[0])
    idx = args[1]
    es = elems(n)
    if not isinstance(idx, z3.BitVecRef):
        raise Unsupported("get_mut with non-integer index")
    alts = []
    for i in range(len(es)):
        alts.append((idx == i, (lambda ex_, st_, tr, i=i: option(ex_, True, Ptr(elems(tr(n))[i])))))
    alts.append((z3.UGE(idx, len(es)), (lambda ex_, st_, tr: option(ex_, False))))
    return Fork(alts)


def m_deref_identity(ex, st, callee, args, dty, site):
    a = args[0]
    if isinstance(a, Ptr):
        return a
    return NotImplemented


def m_range_into_iter(ex, st, callee, args, dty, site):
    return args[0]


def m_range_clone(ex, st, callee, args, dty, site):
    a = args[0]
    if isinstance(a, Ptr):
        return ex.read_node(a.node)
    return NotImplemented


def m_range_next(ex, st, callee, args, dty, site):
    r = args[0].node if isinstance(args[0], Ptr) else args[0]
    if not isinstance(r, Node):
        return NotImplemented
    m = re.search(r"Range<(u64|usize|u32)>", callee)
    ty = m.group(1) if m else "u64"
    s = ex.read_node(ex.child(r, 0, ty))
    e = ex.read_node(ex.child(r, 1, ty))
    lt = z3.ULT(s, e)

    def some(ex_, st_, tr):
        rr = tr(r)
        cur = ex_.read_node(ex_.child(rr, 0, ty))
        ex_.child(rr, 0, ty).val = cur + 1
        return option(ex_, True, cur)
    return Fork([(lt, some), (z3.Not(lt), lambda ex_, st_, tr: option(ex_, False))])


def m_try_into_usize(ex, st, callee, args, dty, site):
    v = args[0]
    if not isinstance(v, z3.BitVecRef):
        return NotImplemented
    r = Node(ex.ctx.fresh_name("tryinto"), "Result<usize, TryFromIntError>")
    d = Node(r.name + ".discr", "isize")
    d.val = z3.BitVecVal(0, 64)
    r.kids["discr"] = d
    k = Node(r.name + ".Ok:0", "usize")
    k.val = v if v.size() == 64 else z3.ZeroExt(64 - v.size(), v)
    r.kids[("Ok", 0)] = k
    return r


NOTU8 = r"(?!u8>)"
def m_slice_iter(ex, st, callee, args, dty, site):
    """<[T]>::iter over a modelled list: a borrowing view of it"""
    try:
        n = list_node(ex, args[0])
    except Exception:
        return NotImplemented
    if not is_list(n):
        return NotImplemented
    it = Node(ex.ctx.fresh_name("sliceiter"), "Iter")
    it.variant = ("sliceiter", 0)
    it.kids["of"] = Node(it.name + ".of", None)
    it.kids["of"].val = Ptr(n)
    return it


def m_filter(ex, st, callee, args, dty, site):
    it = args[0]
    if not (isinstance(it, Node) and isinstance(it.variant, tuple) and it.variant[0] == "sliceiter"):
        return NotImplemented
    f = Node(ex.ctx.fresh_name("filter"), "Filter")
    f.variant = ("filter", 0)
    f.kids["it"] = it
    c = Node(f.name + ".pred", None)
    if isinstance(args[1], Node):
        ex.write(c, args[1])
    else:
        c.val = args[1]
    f.kids["pred"] = c
    f.kids["pred_src"] = Node(f.name + ".pred_src", None)
    f.kids["pred_src"].val = Opaque(z3.Const("closure_of:" + callee, OBJ))
    return f


def _is_result_test(body):
    """a closure whose whole body is `Result::is_err(*arg)` / `Result::is_ok(*arg)` (returns 'is_err' / 'is_ok'), else None"""
    calls = [b.term for b in body.blocks.values() if b.term and b.term[0] == "call"]
    if len(calls) != 1:
        return None
    m = re.match(r"^Result::<.*>::(is_err|is_ok)$", calls[0][2])
    others = [st for b in body.blocks.values() for st in b.stmts if st[0] == "assign" and st[2][0] not in ("use", "ref")]
    return m.group(1) if m and not others and len(body.blocks) <= 3 else None


def m_filter_count(ex, st, callee, args, dty, site):
    """Filter<slice::Iter, |e| e.is_err() / e.is_ok()>::count(): the number of entries whose discriminant says so"""
    f = args[0]
    if not (isinstance(f, Node) and isinstance(f.variant, tuple) and f.variant[0] == "filter"):
        return NotImplemented
    mcl = re.search(r"\{closure@[^}]*\}", callee)
    body = None
    if mcl:
        probe = Opaque(z3.Const("const:ZeroSized: " + mcl.group(0), OBJ))
        body = ex.closure_body(probe, near=site[1].name if site and len(site) > 1 and hasattr(site[1], "name") else None)
    which = _is_result_test(body) if body is not None else None
    if which is None:
        return NotImplemented
    lst = ex.pointee(f.kids["it"].kids["of"]) if hasattr(ex, "pointee") else f.kids["it"].kids["of"].val.node
    total = z3.BitVecVal(0, 64)
    for el in elems(lst):
        v = ex.read_node(el)
        if not isinstance(v, Node):
            return NotImplemented
        d = ex.discr_of(v)
        total = total + z3.If(d == (1 if which == "is_err" else 0), z3.BitVecVal(1, 64), z3.BitVecVal(0, 64))
    return total


LIST_MODELS = [
    (r"^Vec::<" + NOTU8 + r".*>::(new|with_capacity)$", m_new),
    (r"^<Vec<" + NOTU8 + r".*> as Default>::default$", m_new),
    (r"^Vec::<" + NOTU8 + r".*>::push$", m_push),
    (r"^Vec::<" + NOTU8 + r".*>::len$", m_len),
    (r"^Vec::<" + NOTU8 + r".*>::is_empty$", m_is_empty),
    (r"^<Vec<" + NOTU8 + r".*> as IntoIterator>::into_iter$", m_into_iter),
    (r"^<std::vec::IntoIter<.*> as Iterator>::next$", m_iter_next),
    (r"^<std::vec::IntoIter<.*> as IntoIterator>::into_iter$", M.m_identity),
    (r"^core::slice::<impl \[.*\]>::get_mut::<usize>$", m_get_mut),
    (r"^<Vec<" + NOTU8 + r".*> as (Deref|DerefMut)>::(deref|deref_mut)$", m_deref_identity),
    (r"^<std::ops::Range<(u64|usize|u32)> as IntoIterator>::into_iter$", m_range_into_iter),
    (r"^<std::ops::Range<(u64|usize|u32)> as Clone>::clone$", m_range_clone),
    (r"^<std::ops::Range<(u64|usize|u32)> as Iterator>::next$", m_range_next),
    (r"^<u64 as TryInto<usize>>::try_into$", m_try_into_usize),
    (r"^core::slice::<impl \[" + NOTU8 + r".*\]>::iter$", m_slice_iter),
    (r"^<std::slice::Iter<'_, .*> as Iterator>::filter::<", m_filter),
    (r"^<Filter<std::slice::Iter<'_, .*>, \{closure@.*\}> as Iterator>::count$", m_filter_count),
]
LIST_DOC = [
    "Vec<T> (T != u8) is a list of concrete length per path: new/with_capacity/push/len/is_empty/into_iter/IntoIter::next/deref",
    "<[T]>::get_mut(idx): forks over idx == i for every position and idx >= len",
    "<[T]>::iter().filter(|e| e.is_err() | e.is_ok()).count() over a modelled list: the number of entries with that discriminant (any other predicate: uninterpreted)",
    "Range<u64|usize>::next: Some(start) and start += 1 while start < end (solver-decided), else None; u64 -> usize try_into is Ok (64-bit target)",
]
