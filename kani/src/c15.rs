use jsonrpsee_types::error::*;

/// every i32 maps to a kind and back to the same integer
#[kani::proof]
fn c15_code_kind_code() {
    let c: i32 = kani::any();
    let k = ErrorCode::from(c);
    assert_eq!(k.code(), c);
    kani::cover!(matches!(k, ErrorCode::ServerError(_)), "witness: ServerError reachable");
    kani::cover!(matches!(k, ErrorCode::ParseError), "witness: ParseError reachable");
}

fn any_kind() -> ErrorCode {
    let sel: u8 = kani::any();
    match sel {
        0 => ErrorCode::ParseError,
        1 => ErrorCode::OversizedRequest,
        2 => ErrorCode::InvalidRequest,
        3 => ErrorCode::MethodNotFound,
        4 => ErrorCode::ServerIsBusy,
        5 => ErrorCode::InvalidParams,
        6 => ErrorCode::InternalError,
        _ => {
            // ServerError(c) is a *defined kind* only for codes that are not the code of a unit kind
            // (ServerError(-32700) is not a value the library itself produces from an integer).
            let c: i32 = kani::any();
            kani::assume(
                c != PARSE_ERROR_CODE
                    && c != OVERSIZED_REQUEST_CODE
                    && c != INVALID_REQUEST_CODE
                    && c != METHOD_NOT_FOUND_CODE
                    && c != SERVER_IS_BUSY_CODE
                    && c != INVALID_PARAMS_CODE
                    && c != INTERNAL_ERROR_CODE,
            );
            ErrorCode::ServerError(c)
        }
    }
}

/// every kind the library defines maps to its code and back to the same kind
#[kani::proof]
fn c15_kind_code_kind() {
    let k = any_kind();
    let back = ErrorCode::from(k.code());
    assert!(back == k, "kind -> code -> kind");
    kani::cover!(matches!(k, ErrorCode::ServerIsBusy), "witness: ServerIsBusy");
    kani::cover!(matches!(k, ErrorCode::ServerError(_)), "witness: ServerError");
}
