//! C20 - params builders: output bytes == '[' + join(to_vec(v_i), ',') + ']' over the successfully inserted values.
use crate::stubs::*;
use jsonrpsee_core::params::{ArrayParams, BatchRequestBuilder, ObjectParams};
use jsonrpsee_core::traits::ToRpcParams;
use serde::ser::{Error as _, SerializeMap, SerializeSeq};
use serde::{Serialize, Serializer};
use serde_json::value::RawValue;

/// A value whose serialisation, chosen symbolically, succeeds in one of several shapes or fails
/// (before emitting anything, or after having emitted an opening bracket and one element).
#[derive(Clone, Copy)]
pub enum SymVal {
    U8(u8),
    Bool(bool),
    Unit,
    Seq2(u8, bool),
    Map1(u8),
    FailMid(u8),
    FailFirst,
}

impl SymVal {
    pub fn any(allow_fail: bool) -> Self {
        let k: u8 = kani::any();
        match k {
            0 => SymVal::U8(kani::any()),
            1 => SymVal::Bool(kani::any()),
            2 => SymVal::Unit,
            3 => SymVal::Seq2(kani::any(), kani::any()),
            4 => SymVal::Map1(kani::any()),
            5 => {
                kani::assume(allow_fail);
                SymVal::FailMid(kani::any())
            }
            _ => {
                kani::assume(allow_fail && k == 6);
                SymVal::FailFirst
            }
        }
    }
    pub fn fails(&self) -> bool {
        matches!(self, SymVal::FailMid(_) | SymVal::FailFirst)
    }
}

impl Serialize for SymVal {
    fn serialize<S: Serializer>(&self, s: S) -> Result<S::Ok, S::Error> {
        match *self {
            SymVal::U8(v) => s.serialize_u8(v),
            SymVal::Bool(b) => s.serialize_bool(b),
            SymVal::Unit => s.serialize_unit(),
            SymVal::Seq2(a, b) => {
                let mut q = s.serialize_seq(Some(2))?;
                q.serialize_element(&a)?;
                q.serialize_element(&b)?;
                q.end()
            }
            SymVal::Map1(v) => {
                let mut m = s.serialize_map(Some(1))?;
                m.serialize_entry("k", &v)?;
                m.end()
            }
            SymVal::FailMid(a) => {
                let mut q = s.serialize_seq(Some(2))?;
                q.serialize_element(&a)?;
                Err(S::Error::custom("x"))
            }
            SymVal::FailFirst => Err(S::Error::custom("x")),
        }
    }
}

/// non-validating stand-in for RawValue::from_string: the harness compares the bytes itself
pub fn raw_from_string_stub(json: String) -> Result<Box<RawValue>, serde_json::Error> {
    let b: Box<str> = json.into_boxed_str();
    Ok(unsafe { core::mem::transmute::<Box<str>, Box<RawValue>>(b) })
}

fn bytes_eq(a: &[u8], b: &[u8]) -> bool {
    if a.len() != b.len() {
        return false;
    }
    let mut i = 0;
    while i < a.len() {
        if a[i] != b[i] {
            return false;
        }
        i += 1;
    }
    true
}

/// fixed-size expected-text buffer (no heap in the oracle)
pub struct Exp {
    pub b: [u8; 64],
    pub n: usize,
}
impl Exp {
    pub fn new() -> Self {
        Exp { b: [0; 64], n: 0 }
    }
    pub fn push(&mut self, c: u8) {
        self.b[self.n] = c;
        self.n += 1;
    }
    pub fn lit(&mut self, s: &[u8]) {
        let mut i = 0;
        while i < s.len() {
            self.push(s[i]);
            i += 1;
        }
    }
    pub fn dec(&mut self, v: u8) {
        if v >= 100 {
            self.push(b'0' + v / 100);
        }
        if v >= 10 {
            self.push(b'0' + (v / 10) % 10);
        }
        self.push(b'0' + v % 10);
    }
    /// the JSON text serde_json produces for a successful SymVal (reference formatting)
    pub fn val(&mut self, v: &SymVal) {
        match *v {
            SymVal::U8(x) => self.dec(x),
            SymVal::Bool(b) => self.lit(if b { b"true" } else { b"false" }),
            SymVal::Unit => self.lit(b"null"),
            SymVal::Seq2(a, b) => {
                self.push(b'[');
                self.dec(a);
                self.push(b',');
                self.lit(if b { b"true" } else { b"false" });
                self.push(b']');
            }
            SymVal::Map1(x) => {
                self.lit(b"{\"k\":");
                self.dec(x);
                self.push(b'}');
            }
            _ => {}
        }
    }
    pub fn as_slice(&self) -> &[u8] {
        &self.b[..self.n]
    }
}

/// restricted kind choice keeps each harness within reach: a scalar, a container, a mid-way failure, an immediate failure
fn any_val(kinds: u8) -> SymVal {
    let k: u8 = kani::any();
    kani::assume(k < kinds);
    match k {
        0 => SymVal::U8(kani::any()),
        1 => SymVal::FailMid(kani::any()),
        2 => SymVal::Seq2(kani::any(), kani::any()),
        3 => SymVal::FailFirst,
        4 => SymVal::Bool(kani::any()),
        5 => SymVal::Map1(kani::any()),
        _ => SymVal::Unit,
    }
}

fn positional(n: usize, kinds: u8) {
    let mut b = ArrayParams::new();
    let mut e = Exp::new();
    let mut ok_count = 0usize;
    let mut failed = 0usize;
    let mut i = 0;
    while i < n {
        let v = any_val(kinds);
        let r = b.insert(v);
        assert!(r.is_err() == v.fails(), "insert reports an error exactly when the value's serialisation fails");
        if r.is_ok() {
            e.push(if ok_count == 0 { b'[' } else { b',' });
            e.val(&v);
            ok_count += 1;
        } else {
            failed += 1;
        }
        core::mem::forget(r);
        i += 1;
    }
    let out = b.to_rpc_params().unwrap();
    if ok_count == 0 {
        // nothing was inserted successfully: 'no params' (after a failed insert an empty array is valid JSON too)
        match &out {
            None => {}
            Some(o) => assert!(failed > 0 && bytes_eq(o.get().as_bytes(), b"[]"), "empty builder must mean no params"),
        }
    } else {
        e.push(b']');
        match &out {
            None => assert!(false, "non-empty builder yields params"),
            Some(o) => assert!(bytes_eq(o.get().as_bytes(), e.as_slice()), "array text == '[' + successfully inserted values joined by ',' + ']'"),
        }
    }
    kani::cover!(ok_count == n && n > 0, "witness: all inserts succeeded");
    kani::cover!(failed > 0 && ok_count > 0, "witness: a failed insert among successful ones");
    core::mem::forget(out);
}

#[kani::proof]
#[kani::unwind(24)]
#[kani::stub(alloc::fmt::format, fmt_format)]
#[kani::stub(serde_json::value::RawValue::from_string, raw_from_string_stub)]
fn c20_array_2_inserts() {
    positional(2, 4);
}

/// byte level, real serde_json serializer: one `u8` inserted into an `ArrayParams` builds to exactly `[<decimal digits>]`
#[kani::proof]
#[kani::unwind(12)]
#[kani::stub(alloc::fmt::format, fmt_format)]
#[kani::stub(serde_json::value::RawValue::from_string, raw_from_string_stub)]
fn probe_c20_one_u8() {
    let v: u8 = kani::any();
    let mut p = ArrayParams::new();
    assert!(p.insert(v).is_ok());
    let out = p.to_rpc_params().unwrap().unwrap();
    let b = out.get().as_bytes();
    let n = b.len();
    assert!(n >= 3 && n <= 5);
    assert!(b[0] == b'[' && b[n - 1] == b']');
    let mut acc: u32 = 0;
    let mut i = 1;
    while i < n - 1 {
        assert!(b[i] >= b'0' && b[i] <= b'9');
        acc = acc * 10 + (b[i] - b'0') as u32;
        i += 1;
    }
    assert!(acc == v as u32);
    // no leading zero except for zero itself
    assert!(n == 3 || b[1] != b'0');
    kani::cover!(n == 5, "witness: a three-digit value");
    kani::cover!(v == 0, "witness: zero");
    core::mem::forget(out);
}

/// byte level: one `bool` builds to exactly `[true]` / `[false]`
#[kani::proof]
#[kani::unwind(12)]
#[kani::stub(alloc::fmt::format, fmt_format)]
#[kani::stub(serde_json::value::RawValue::from_string, raw_from_string_stub)]
fn probe_c20_one_bool() {
    let v: bool = kani::any();
    let mut p = ArrayParams::new();
    assert!(p.insert(v).is_ok());
    let out = p.to_rpc_params().unwrap().unwrap();
    let b = out.get().as_bytes();
    if v {
        assert!(bytes_eq(b, b"[true]"));
    } else {
        assert!(bytes_eq(b, b"[false]"));
    }
    kani::cover!(v, "witness: true");
    kani::cover!(!v, "witness: false");
    core::mem::forget(out);
}
