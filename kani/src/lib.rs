//! Kani harnesses over the real jsonrpsee code. One module per property.
#![allow(unused)]

#[cfg(kani)]
mod stubs;
#[cfg(kani)]
mod c15;
#[cfg(kani)]
mod c20;
