//! Stubs shared by every harness (each is part of the claim; listed in the evidence).
pub fn fmt_format(_args: core::fmt::Arguments<'_>) -> String {
    String::new()
}

pub fn tracing_get_default<T, F>(mut f: F) -> T
where
    F: FnMut(&tracing_core::Dispatch) -> T,
{
    let d = tracing_core::Dispatch::none();
    f(&d)
}

pub fn tracing_interest(_this: &tracing_core::callsite::DefaultCallsite) -> tracing_core::subscriber::Interest {
    tracing_core::subscriber::Interest::never()
}

pub fn random_state_new() -> std::hash::RandomState {
    // RandomState is two u64 keys.
    unsafe { core::mem::transmute::<(u64, u64), std::hash::RandomState>((0x1234_5678_9abc_def0, 0x0fed_cba9_8765_4321)) }
}

pub fn memrchr_none(_n: u8, _h: &[u8]) -> Option<usize> {
    None
}
