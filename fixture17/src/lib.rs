//! A family of APIs declared with the `rpc` macro, used only for its expansion: the C17 check reads the MIR of the generated client
//! stubs and server registration closures; the native replay drives the same expansion end to end.
use jsonrpsee::core::{RpcResult, SubscriptionResult};
use jsonrpsee::proc_macros::rpc;
use jsonrpsee::PendingSubscriptionSink;
use serde::{Deserialize, Serialize};

#[derive(Clone, Debug, PartialEq, Serialize, Deserialize)]
pub struct Point {
    pub x: i64,
    pub tag: String,
    pub inner: Vec<Option<u8>>,
}

#[derive(Clone, Debug, PartialEq, Serialize, Deserialize)]
pub enum Shape {
    Dot,
    Line(u32, u32),
    Named { name: String },
}

/// namespace with a non-default separator, positional encoding, Option tails, aliases, sync / async / blocking, subscription with params
#[rpc(server, client, namespace = "ns", namespace_separator = ".")]
pub trait Alpha {
    #[method(name = "m0")]
    fn m0(&self) -> RpcResult<u64>;

    #[method(name = "m1")]
    async fn m1(&self, a: u64) -> RpcResult<u64>;

    #[method(name = "m3opt")]
    fn m3opt(&self, a: u32, b: Option<u32>, c: Option<String>) -> RpcResult<(u32, Option<u32>, Option<String>)>;

    #[method(name = "m4", aliases = ["ns.four", "quad"])]
    async fn m4(&self, a: i64, b: String, c: Point, d: Vec<Shape>) -> RpcResult<(i64, String, Point, Vec<Shape>)>;

    #[method(name = "blk", blocking)]
    fn blk(&self, a: String, b: Option<Point>) -> RpcResult<(String, Option<Point>)>;

    #[subscription(name = "sub" => "item", unsubscribe = "unsub", item = u64)]
    async fn sub(&self, from: u64, step: Option<u64>) -> SubscriptionResult;

    #[subscription(name = "feed" => "fed", unsubscribe = "unfeed", aliases = ["ns.feedalias"], unsubscribe_aliases = ["ns.unfeedalias", "stopfeed"], item = u64)]
    async fn feed(&self) -> SubscriptionResult;
}

/// no namespace, by-name encoding
#[rpc(server, client)]
pub trait Beta {
    #[method(name = "named", param_kind = map)]
    async fn named(&self, first_arg: u32, second: Option<String>) -> RpcResult<(u32, Option<String>)>;

    #[method(name = "arr", param_kind = array)]
    fn arr(&self, a: bool, b: Option<bool>) -> RpcResult<(bool, Option<bool>)>;

    #[subscription(name = "watch", unsubscribe = "unwatch", item = String, param_kind = map)]
    async fn watch(&self, key: String) -> SubscriptionResult;

    /// wire names that are neither the snake_case nor the lowerCamelCase form of anything: given by `rename`, or an identifier with a trailing underscore
    #[method(name = "renamed", param_kind = map)]
    fn renamed(&self, #[argument(rename = "ID")] id: u64, #[argument(rename = "entry-id")] entry: Option<u32>, type_: Option<u8>) -> RpcResult<(u64, Option<u32>, Option<u8>)>;
}

/// namespace with the default separator
#[rpc(server, client, namespace = "g")]
pub trait Gamma {
    #[method(name = "one")]
    fn one(&self, a: Option<u8>) -> RpcResult<Option<u8>>;
}

pub use jsonrpsee;
pub type Pending = PendingSubscriptionSink;
