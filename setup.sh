#!/bin/bash
# Offline setup: nothing is fetched. Checks that the tools exist and warms the Kani build of the harness crate.
set -e
cd "$(dirname "$0")"
export CARGO_NET_OFFLINE=true
command -v cargo-kani >/dev/null && command -v cbmc >/dev/null && command -v z3 >/dev/null && command -v cvc5 >/dev/null
python3-vt -c "import z3; print('z3', z3.get_version_string())"
mkdir -p .work evidence/cex
echo setup ok
