//! C14: host filter through the real tower layer around a counting inner service.
use jsonrpsee_server::middleware::http::HostFilterLayer;
use jsonrpsee_server::{HttpBody, HttpRequest, HttpResponse};
use serde_json::{json, Value};
use std::sync::atomic::{AtomicUsize, Ordering};
use std::sync::Arc;
use tower::{Layer, Service, ServiceExt};

fn run(allow: &[&str], host: Option<&str>, uri: &str) -> (u16, usize) {
    let hits = Arc::new(AtomicUsize::new(0));
    let h2 = hits.clone();
    let inner = tower::service_fn(move |_req: HttpRequest<HttpBody>| {
        let h = h2.clone();
        async move {
            h.fetch_add(1, Ordering::SeqCst);
            Ok::<_, std::convert::Infallible>(HttpResponse::new(HttpBody::empty()))
        }
    });
    let layer = HostFilterLayer::new(allow.iter().copied()).expect("valid allow list");
    let mut svc = layer.layer(inner);
    let mut b = http::Request::builder().method("POST").uri(uri);
    if let Some(h) = host {
        b = b.header("host", h);
    }
    let req = b.body(HttpBody::empty()).unwrap();
    let rt = tokio::runtime::Builder::new_current_thread().enable_all().build().unwrap();
    let rp = rt.block_on(async { svc.ready().await.unwrap().call(req).await.unwrap() });
    (rp.status().as_u16(), hits.load(Ordering::SeqCst))
}

/// a request port never "wildcards" a fixed entry; equal / default / '*' entry ports admit
pub fn ports(_a: &Value) -> Value {
    // (allow entry, Host header, expected admitted)
    let cases: Vec<(&str, &str, bool)> = vec![
        ("example.com:8080", "example.com:8080", true),
        ("example.com:8080", "example.com:8081", false),
        ("example.com:8080", "example.com", false),
        ("example.com:8080", "example.com:*", false),
        ("example.com", "example.com", true),
        ("example.com", "example.com:*", false),
        ("example.com", "example.com:9000", false),
        ("example.com:*", "example.com:9000", true),
        ("example.com:*", "example.com", true),
        ("*.example.com:443", "a.example.com:*", false),
        ("http://example.com:80", "example.com", true),
        ("example.com:0", "example.com:0", true),
        ("example.com:65535", "example.com:65535", true),
        ("example.com:65535", "example.com:65534", false),
    ];
    let mut bad = vec![];
    for (allow, host, admit) in &cases {
        let (status, hits) = run(&[allow], Some(host), "/");
        let ok = if *admit { status == 200 && hits == 1 } else { status == 403 && hits == 0 };
        if !ok {
            bad.push(json!({"allow":allow,"host":host,"expected_admitted":admit,"status":status,"handler_runs":hits}));
        }
    }
    let violation = !bad.is_empty();
    json!({"scenario":"c14_ports","observed":{"cases":cases.len(),"deviations":bad},"violation":violation,
           "why": if violation {"port matching admits / refuses against the allow-list rule"} else {""}})
}

/// "an authority that matches the only configured entry is always admitted": the request sends exactly the entry's text
pub fn single_entry(_a: &Value) -> Value {
    let entries = ["example.com", "RPC-Node1.Example.com:9944", "sub.example.com:8080", "LOCALHOST:80", "127.0.0.1:9933", "Node.example.ORG"];
    let mut bad = vec![];
    for e in entries {
        let (status, hits) = run(&[e], Some(e), "/");
        if !(status == 200 && hits == 1) {
            bad.push(json!({"entry":e,"status":status,"handler_runs":hits}));
        }
        // and a host that differs only by letter case from a *different* allow-list spelling must not be treated specially
    }
    // case variants of the request are refused when the entry is spelled differently (no one-sided case folding)
    let (status, hits) = run(&["example.com"], Some("EXAMPLE.com"), "/");
    if !(status == 403 && hits == 0) {
        bad.push(json!({"entry":"example.com","host":"EXAMPLE.com","status":status,"handler_runs":hits}));
    }
    let violation = !bad.is_empty();
    json!({"scenario":"c14_single_entry","observed":{"deviations":bad},"violation":violation,
           "why": if violation {"request authority is rewritten before matching (an entry no longer admits its own text)"} else {""}})
}

fn run_hosts(allow: &[&str], hosts: &[&str], uri: &str) -> (u16, usize) {
    let hits = Arc::new(AtomicUsize::new(0));
    let h2 = hits.clone();
    let inner = tower::service_fn(move |_req: HttpRequest<HttpBody>| {
        let h = h2.clone();
        async move {
            h.fetch_add(1, Ordering::SeqCst);
            Ok::<_, std::convert::Infallible>(HttpResponse::new(HttpBody::empty()))
        }
    });
    let layer = HostFilterLayer::new(allow.iter().copied()).expect("valid allow list");
    let mut svc = layer.layer(inner);
    let mut b = http::Request::builder().method("POST").uri(uri);
    for h in hosts {
        b = b.header("host", *h);
    }
    let req = b.body(HttpBody::empty()).unwrap();
    let rt = tokio::runtime::Builder::new_current_thread().enable_all().build().unwrap();
    let rp = rt.block_on(async { svc.ready().await.unwrap().call(req).await.unwrap() });
    (rp.status().as_u16(), hits.load(Ordering::SeqCst))
}

/// where the authority comes from: one Host header, the URI, both (which must agree), several Host headers (no single authority); and what an
/// enabled filter with nothing on its list admits (nothing)
pub fn authority_sources(_a: &Value) -> Value {
    let allow = ["example.com"];
    // (Host headers, uri, expected status, expected handler runs)
    let cases: Vec<(Vec<&str>, &str, u16, usize)> = vec![
        (vec!["example.com"], "/", 200, 1),
        (vec![], "http://example.com/", 200, 1),
        (vec!["example.com"], "http://example.com/", 200, 1),
        (vec!["example.com"], "http://evil.com/", 400, 0),
        (vec!["evil.com"], "http://example.com/", 400, 0),
        (vec![], "/", 400, 0),
        (vec!["evil.com"], "/", 403, 0),
        (vec!["EXAMPLE.com"], "/", 403, 0),
    ];
    let mut bad = vec![];
    for (hosts, uri, status, runs) in &cases {
        let got = run_hosts(&allow, hosts, uri);
        if got != (*status, *runs) {
            bad.push(json!({"hosts":hosts,"uri":uri,"expected":[status,runs],"got":[got.0,got.1]}));
        }
    }
    // several Host headers: never admitted, whichever comes first
    for hosts in [vec!["example.com", "evil.com"], vec!["evil.com", "example.com"], vec!["example.com", "example.com:8080"]] {
        let got = run_hosts(&allow, &hosts, "/");
        if got.1 != 0 || !(got.0 == 400 || got.0 == 403) {
            bad.push(json!({"hosts":hosts,"expected":"400/403 and no handler","got":[got.0,got.1]}));
        }
    }
    // an enabled filter whose list is empty admits nothing
    for host in ["example.com", "localhost", "127.0.0.1:80"] {
        let got = run_hosts(&[], &[host], "/");
        if got != (403, 0) {
            bad.push(json!({"allow":[],"host":host,"expected":[403,0],"got":[got.0,got.1]}));
        }
    }
    let violation = !bad.is_empty();
    json!({"scenario":"c14_authority_sources","observed":{"deviations":bad},"violation":violation,
           "why": if violation {"the host filter admits / refuses against the rule for where the authority comes from"} else {""}})
}
