//! C01: every message gets at most one well-formed reply carrying its own id; HTTP and WS agree; the connection keeps serving.
use bytes::Bytes;
use http_body_util::{BodyExt, Full};
use jsonrpsee_core::middleware::RpcServiceBuilder;
use jsonrpsee_server::{http as jhttp, stop_channel, BatchRequestConfig, ConnectionGuard, ConnectionState, Methods, RpcModule, Server, ServerConfig};
use jsonrpsee_types::ErrorObjectOwned;
use serde_json::{json, Value};
use std::sync::atomic::{AtomicUsize, Ordering};
use std::sync::Arc;
use std::time::Duration;
use tokio::net::TcpStream;
use tokio_util::compat::TokioAsyncReadCompatExt;

fn module(hits: Arc<AtomicUsize>) -> RpcModule<()> {
    let mut m = RpcModule::new(());
    let h = hits.clone();
    m.register_method("echo", move |p, _, _| -> Result<u64, ErrorObjectOwned> {
        h.fetch_add(1, Ordering::SeqCst);
        p.one::<u64>()
    })
    .unwrap();
    let h = hits.clone();
    m.register_blocking_method("boom", move |_, _, _| -> u64 {
        h.fetch_add(1, Ordering::SeqCst);
        panic!("handler failure injected by the replay")
    })
    .unwrap();
    let h = hits.clone();
    m.register_method("add2", move |p, _, _| -> Result<u64, ErrorObjectOwned> {
        h.fetch_add(1, Ordering::SeqCst);
        let mut seq = p.sequence();
        let a: u64 = seq.next()?;
        let b: u64 = seq.next()?;
        let c: Option<u64> = seq.optional_next()?;
        Ok(a + b + c.unwrap_or(0))
    })
    .unwrap();
    let h = hits;
    m.register_async_method("aecho", move |p, _, _| {
        let h = h.clone();
        async move {
            h.fetch_add(1, Ordering::SeqCst);
            p.one::<u64>()
        }
    })
    .unwrap();
    m
}

/// what the property allows for one message
#[derive(Clone, Debug)]
enum Want {
    /// no reply at all (HTTP: empty/null body), no handler
    Nothing,
    /// error `code` with id
    Error(i64, Value),
    /// result with id, handler ran once
    Result(Value, Value),
}

fn battery() -> Vec<(String, Want)> {
    let ws127 = " ".repeat(127);
    let call = |id: &str, m: &str, p: &str| format!(r#"{{"jsonrpc":"2.0","id":{id},"method":"{m}","params":{p}}}"#);
    vec![
        ("".into(), Want::Error(-32700, Value::Null)),
        ("   ".into(), Want::Error(-32700, Value::Null)),
        ("\r\n\t ".into(), Want::Error(-32700, Value::Null)),
        ("garbage".into(), Want::Error(-32700, Value::Null)),
        ("{".into(), Want::Error(-32700, Value::Null)),
        ("{}".into(), Want::Error(-32700, Value::Null)),
        (r#"{"id":7,"foo":1}"#.into(), Want::Error(-32600, json!(7))),
        (r#"{"id":"x7","foo":1}"#.into(), Want::Error(-32600, json!("x7"))),
        (r#"{"jsonrpc":"1.0","id":3,"method":"echo","params":[5]}"#.into(), Want::Error(-32600, json!(3))),
        (call("1", "echo", "[5]"), Want::Result(json!(5), json!(1))),
        (call("18446744073709551615", "echo", "[6]"), Want::Result(json!(6), json!(18446744073709551615u64))),
        (call("\"abc\"", "echo", "[7]"), Want::Result(json!(7), json!("abc"))),
        (call("\"\"", "echo", "[8]"), Want::Result(json!(8), json!(""))),
        (call("null", "echo", "[9]"), Want::Result(json!(9), Value::Null)),
        (call("2", "aecho", "[10]"), Want::Result(json!(10), json!(2))),
        (call("4", "nope", "[5]"), Want::Error(-32601, json!(4))),
        (call("21", "add2", "[7,3]"), Want::Result(json!(10), json!(21))),
        (call("22", "add2", "[ 7 , 3 ]"), Want::Result(json!(10), json!(22))),
        (call("23", "add2", "[7\n,\t3 , 5]"), Want::Result(json!(15), json!(23))),
        (call("24", "add2", "[7]"), Want::Error(-32602, json!(24))),
        (call("5", "echo", "[\"x\"]"), Want::Error(-32602, json!(5))),
        (call("6", "echo", "{\"a\":1}"), Want::Error(-32602, json!(6))),
        (r#"{"jsonrpc":"2.0","method":"echo","params":[5]}"#.into(), Want::Nothing),
        (r#"{"jsonrpc":"2.0","method":"nope"}"#.into(), Want::Nothing),
        (format!(" \n\t\r{}", call("11", "echo", "[12]")), Want::Result(json!(12), json!(11))),
        (format!("{ws127}{}", call("12", "echo", "[13]")), Want::Result(json!(13), json!(12))),
        (format!("{} trailing", call("13", "echo", "[14]")), Want::Error(-32700, Value::Null)),
        (format!("{}   \n", call("14", "echo", "[15]")), Want::Result(json!(15), json!(14))),
        ("17".into(), Want::Error(-32700, Value::Null)),
        ("\"str\"".into(), Want::Error(-32700, Value::Null)),
        ("null".into(), Want::Error(-32700, Value::Null)),
    ]
}

fn well_formed(v: &Value) -> Result<(), String> {
    let o = v.as_object().ok_or("reply is not an object")?;
    if o.get("jsonrpc") != Some(&json!("2.0")) {
        return Err("jsonrpc is not \"2.0\"".into());
    }
    if !o.contains_key("id") {
        return Err("no id member".into());
    }
    match (o.contains_key("result"), o.contains_key("error")) {
        (true, false) | (false, true) => {}
        _ => return Err("not exactly one of result/error".into()),
    }
    if o.keys().any(|k| !matches!(k.as_str(), "jsonrpc" | "id" | "result" | "error")) {
        return Err("unexpected member".into());
    }
    Ok(())
}

/// compare the replies one message got with what the property allows
fn judge(msg: &str, want: &Want, replies: &[Value], hits: usize, transport: &str) -> Option<String> {
    let short: String = msg.chars().take(60).collect();
    if replies.len() > 1 {
        return Some(format!("{transport}: {} replies to {short:?}", replies.len()));
    }
    for r in replies {
        if let Err(e) = well_formed(r) {
            return Some(format!("{transport}: reply to {short:?} malformed: {e}: {r}"));
        }
    }
    match want {
        Want::Nothing => {
            if !replies.is_empty() {
                return Some(format!("{transport}: notification {short:?} was answered: {}", replies[0]));
            }
            if hits != 0 {
                return Some(format!("{transport}: a handler ran for notification {short:?}"));
            }
        }
        Want::Error(code, id) => {
            let Some(r) = replies.first() else { return Some(format!("{transport}: no reply to {short:?}, expected error {code}")) };
            if r["error"]["code"] != json!(code) || &r["id"] != id {
                return Some(format!("{transport}: reply to {short:?} is {r}, expected error {code} id {id}"));
            }
            if hits != 0 && *code != -32602 {
                return Some(format!("{transport}: a handler ran for {short:?}"));
            }
        }
        Want::Result(res, id) => {
            let Some(r) = replies.first() else { return Some(format!("{transport}: no reply to {short:?}")) };
            if &r["result"] != res || &r["id"] != id {
                return Some(format!("{transport}: reply to {short:?} is {r}, expected result {res} id {id}"));
            }
            if hits != 1 {
                return Some(format!("{transport}: handler ran {hits} times for {short:?}"));
            }
        }
    }
    None
}

async fn http_one(body: &str, methods: Methods) -> (u16, String) {
    http_one_with(body, methods, ServerConfig::default()).await
}

async fn http_one_with(body: &str, methods: Methods, cfg: ServerConfig) -> (u16, String) {
    let req = http::Request::builder()
        .method("POST")
        .uri("/")
        .header("content-type", "application/json")
        .body(Full::new(Bytes::from(body.to_string())))
        .unwrap();
    let (stop, _h) = stop_channel();
    let conn = ConnectionState::new(stop, 0, ConnectionGuard::new(4).try_acquire().unwrap());
    let rp = jhttp::call_with_service_builder(req, cfg, conn, methods, RpcServiceBuilder::new()).await;
    let st = rp.status().as_u16();
    let b = rp.into_body().collect().await.map(|c| c.to_bytes()).unwrap_or_default();
    (st, String::from_utf8_lossy(&b).to_string())
}

fn http_replies(status: u16, body: &str) -> Result<Vec<Value>, String> {
    // the status line is not part of the property (malformed bodies are answered 400 with the -32700 object)
    let _ = status;
    if body.is_empty() || body == "null" {
        return Ok(vec![]);
    }
    serde_json::from_str::<Value>(body).map(|v| vec![v]).map_err(|e| format!("HTTP body is not JSON ({e}): {body:?}"))
}

/// args {messages?: [[text, kind, code|result, id]...]} (default: built-in battery). Each message alone over HTTP, then all of them in
/// sequence on one WebSocket connection with a sentinel call after each.
pub fn messages(a: &Value) -> Value {
    let mut bat = battery();
    if let Some(extra) = a["messages"].as_array() {
        for e in extra {
            let text = e[0].as_str().unwrap_or("").to_string();
            let want = match e[1].as_str().unwrap_or("") {
                "nothing" => Want::Nothing,
                "error" => Want::Error(e[2].as_i64().unwrap_or(0), e[3].clone()),
                _ => Want::Result(e[2].clone(), e[3].clone()),
            };
            bat.push((text, want));
        }
    }
    let rt = tokio::runtime::Builder::new_multi_thread().worker_threads(2).enable_all().build().unwrap();
    rt.block_on(async move {
        let mut why: Vec<String> = vec![];
        let mut observed = vec![];
        // what a *single* message gets does not depend on how the server treats batches: the battery runs under each setting
        let settings: Vec<(&str, fn() -> BatchRequestConfig)> =
            vec![("", || BatchRequestConfig::Unlimited), ("[batches disabled] ", || BatchRequestConfig::Disabled), ("[batch limit 1] ", || BatchRequestConfig::Limit(1))];
        for (label, batch_cfg) in settings {
        let mk_cfg = || ServerConfig::builder().set_batch_request_config(batch_cfg()).build();
        let first_why = why.len();
        // ---- HTTP
        let mut http_out: Vec<Vec<Value>> = vec![];
        for (msg, want) in &bat {
            let hits = Arc::new(AtomicUsize::new(0));
            let (st, body) = http_one_with(msg, module(hits.clone()).into(), mk_cfg()).await;
            match http_replies(st, &body) {
                Ok(rs) => {
                    if let Some(w) = judge(msg, want, &rs, hits.load(Ordering::SeqCst), "http") {
                        why.push(w);
                    }
                    http_out.push(rs);
                }
                Err(e) => {
                    why.push(format!("http: {e} for {:?}", msg.chars().take(60).collect::<String>()));
                    http_out.push(vec![]);
                }
            }
        }
        // ---- WS: one connection, all messages in order
        let hits = Arc::new(AtomicUsize::new(0));
        let server = Server::builder().set_config(mk_cfg()).build("127.0.0.1:0").await.unwrap();
        let addr = server.local_addr().unwrap();
        let handle = server.start(module(hits.clone()));
        let sock = TcpStream::connect(addr).await.unwrap();
        let host = addr.to_string();
        let mut client = soketto::handshake::Client::new(sock.compat(), &host, "/");
        match client.handshake().await.unwrap() {
            soketto::handshake::ServerResponse::Accepted { .. } => {}
            r => panic!("handshake: {r:?}"),
        }
        let (mut tx, mut rx) = client.into_builder().finish();
        // frames are read by their own task (soketto's receive is not cancel-safe); the scenario waits on the channel
        let (ftx, mut frx) = tokio::sync::mpsc::unbounded_channel::<Result<Value, String>>();
        tokio::spawn(async move {
            let mut buf = Vec::new();
            loop {
                buf.clear();
                match rx.receive_data(&mut buf).await {
                    Ok(_) => {
                        let v = serde_json::from_slice::<Value>(&buf).unwrap_or(json!({"unparsable": String::from_utf8_lossy(&buf)}));
                        if ftx.send(Ok(v)).is_err() {
                            break;
                        }
                    }
                    Err(e) => {
                        let _ = ftx.send(Err(e.to_string()));
                        break;
                    }
                }
            }
        });
        for (i, (msg, want)) in bat.iter().enumerate() {
            let before = hits.load(Ordering::SeqCst);
            if tx.send_text(msg.as_str()).await.is_err() || tx.flush().await.is_err() {
                why.push(format!("ws: connection refused message #{i}"));
                break;
            }
            // replies to this message: whatever arrives until the line stays quiet
            let mut rs: Vec<Value> = vec![];
            let mut quiet = Duration::from_millis(if matches!(want, Want::Nothing) { 150 } else { 1500 });
            loop {
                match tokio::time::timeout(quiet, frx.recv()).await {
                    Ok(Some(Ok(v))) => {
                        rs.push(v);
                        quiet = Duration::from_millis(100);
                    }
                    Ok(Some(Err(e))) => {
                        why.push(format!("ws: connection closed after message #{i}: {e}"));
                        break;
                    }
                    Ok(None) | Err(_) => break,
                }
            }
            let ran = hits.load(Ordering::SeqCst) - before;
            if let Some(w) = judge(msg, want, &rs, ran, "ws") {
                why.push(w);
            }
            if rs != http_out[i] {
                why.push(format!("http and ws disagree on {:?}: {:?} vs {:?}", msg.chars().take(60).collect::<String>(), http_out[i], rs));
            }
            observed.push(json!({"msg": msg.chars().take(60).collect::<String>(), "http": http_out[i], "ws": rs}));
            // the connection keeps serving: a sentinel call
            let s = format!(r#"{{"jsonrpc":"2.0","id":"sentinel-{i}","method":"echo","params":[{i}]}}"#);
            let ok = tx.send_text(s).await.is_ok()
                && tx.flush().await.is_ok()
                && match tokio::time::timeout(Duration::from_secs(3), frx.recv()).await {
                    Ok(Some(Ok(v))) => v["id"] == json!(format!("sentinel-{i}")) && v["result"] == json!(i),
                    _ => false,
                };
            if !ok {
                why.push(format!("ws: connection stopped serving after message #{i} ({:?})", msg.chars().take(40).collect::<String>()));
                break;
            }
        }
        let _ = handle.stop();
        for w in why.iter_mut().skip(first_why) {
            w.insert_str(0, label);
        }
        }
        json!({"scenario":"c01_messages","observed":{"n": bat.len(), "first": observed.iter().take(6).collect::<Vec<_>>()},
               "violation": !why.is_empty(), "why": why.join(" | ")})
    })
}

/// a blocking handler that fails inside the library (panics on the blocking pool): the error must carry the call's own id
pub fn blocking_panic(a: &Value) -> Value {
    let id = if a["id"].is_null() { json!(9) } else { a["id"].clone() };
    let rt = tokio::runtime::Builder::new_multi_thread().worker_threads(2).enable_all().build().unwrap();
    rt.block_on(async move {
        std::panic::set_hook(Box::new(|_| {}));
        let hits = Arc::new(AtomicUsize::new(0));
        let body = json!({"jsonrpc":"2.0","id":id,"method":"boom","params":[]}).to_string();
        let (st, out) = http_one(&body, module(hits).into()).await;
        let v: Value = serde_json::from_str(&out).unwrap_or(Value::Null);
        let mut why = vec![];
        if st != 200 || well_formed(&v).is_err() {
            why.push(format!("reply is not a well-formed response: status {st} body {out:?}"));
        } else {
            if v["error"]["code"] != json!(-32603) {
                why.push(format!("failed handler answered {v}, expected error -32603"));
            }
            if v["id"] != id {
                why.push(format!("failed handler answered with id {} instead of the call's id {id}", v["id"]));
            }
        }
        json!({"scenario":"c01_blocking_panic","observed":{"status":st,"body":out},"violation":!why.is_empty(),"why":why.join(" | ")})
    })
}
