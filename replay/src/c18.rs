//! C18: after complete life cycles the client's four tables are empty (needs --cfg jsonrpsee_verif for the accessor).
use crate::memclient::{gated_client, ServerSide};
use jsonrpsee_core::client::{Client, ClientBuilder, ClientT, Subscription, SubscriptionClientT};
use jsonrpsee_core::rpc_params;
use serde_json::{json, Value};
use std::sync::Arc;

type Gate = Arc<tokio::sync::RwLock<()>>;

async fn cycle(name: &str, c: &Arc<Client>, s: &mut ServerSide, n: usize, gate: &Gate) {
    match name {
        "sub-abandoned-then-notified" => {
            // accepted and active; the stream is dropped while the request queue is full, so the drop-time close message is lost;
            // the next notification for it makes the background task close it
            let sid = format!("S{n}");
            let c2 = c.clone();
            let h = tokio::spawn(async move { c2.subscribe::<Value, _>("sub", rpc_params![], "unsub").await });
            let rq = s.next_request().await.expect("subscribe on the wire");
            s.push(json!({"jsonrpc":"2.0","id":rq["id"],"result":sid}));
            let sub: Subscription<Value> = h.await.unwrap().expect("accepted");
            let stall = gate.clone().write_owned().await;
            let (c1, c2) = (c.clone(), c.clone());
            let h1 = tokio::spawn(async move { c1.request::<Value, _>("x", rpc_params![]).await });
            tokio::time::sleep(std::time::Duration::from_millis(100)).await;
            let h2 = tokio::spawn(async move { c2.request::<Value, _>("y", rpc_params![]).await });
            tokio::time::sleep(std::time::Duration::from_millis(100)).await;
            drop(sub);
            tokio::time::sleep(std::time::Duration::from_millis(100)).await;
            drop(stall);
            for _ in 0..2 {
                if let Some(rq) = s.next_request().await {
                    s.push(json!({"jsonrpc":"2.0","id":rq["id"],"result":1}));
                }
            }
            let _ = h1.await;
            let _ = h2.await;
            s.push(json!({"jsonrpc":"2.0","method":"sub","params":{"subscription":sid,"result":"late"}}));
            while let Some(rq) = s.try_next_request(400).await {
                s.push(json!({"jsonrpc":"2.0","id":rq["id"],"result":true}));
            }
        }
        "sub-lagging-then-notified" => {
            // accepted and active; the consumer does not read: more notifications than the buffer holds make the background task close it
            let sid = format!("S{n}");
            let c2 = c.clone();
            let h = tokio::spawn(async move { c2.subscribe::<Value, _>("sub", rpc_params![], "unsub").await });
            let rq = s.next_request().await.expect("subscribe on the wire");
            s.push(json!({"jsonrpc":"2.0","id":rq["id"],"result":sid}));
            let sub: Subscription<Value> = h.await.unwrap().expect("accepted");
            for k in 0..4 {
                s.push(json!({"jsonrpc":"2.0","method":"sub","params":{"subscription":sid,"result":k}}));
            }
            while let Some(rq) = s.try_next_request(400).await {
                s.push(json!({"jsonrpc":"2.0","id":rq["id"],"result":true}));
            }
            drop(sub);
            tokio::time::sleep(std::time::Duration::from_millis(100)).await;
        }
        "call" => {
            let c2 = c.clone();
            let h = tokio::spawn(async move { c2.request::<Value, _>("m", rpc_params![]).await });
            let rq = s.next_request().await.expect("request on the wire");
            s.push(json!({"jsonrpc":"2.0","id":rq["id"],"result":1}));
            let _ = h.await;
        }
        "sub-refused" => {
            let c2 = c.clone();
            let h = tokio::spawn(async move { c2.subscribe::<Value, _>("sub", rpc_params![], "unsub").await.map(|_| ()) });
            let rq = s.next_request().await.expect("subscribe on the wire");
            s.push(json!({"jsonrpc":"2.0","id":rq["id"],"error":{"code":-32000,"message":"refused"}}));
            let _ = h.await;
            // ... and refused by an answer that is a success but no subscription id
            for bad in [json!(true), json!(null), json!({"id": 1}), json!(1.5)] {
                let c2 = c.clone();
                let h = tokio::spawn(async move { c2.subscribe::<Value, _>("sub", rpc_params![], "unsub").await.map(|_| ()) });
                let rq = s.next_request().await.expect("subscribe on the wire");
                s.push(json!({"jsonrpc":"2.0","id":rq["id"],"result":bad}));
                let _ = h.await;
            }
        }
        "sub-server-close" => {
            let c2 = c.clone();
            let h = tokio::spawn(async move { c2.subscribe::<Value, _>("sub", rpc_params![], "unsub").await });
            let rq = s.next_request().await.expect("subscribe on the wire");
            let sid = format!("S{n}");
            s.push(json!({"jsonrpc":"2.0","id":rq["id"],"result":sid}));
            let mut sub: Subscription<Value> = h.await.unwrap().expect("accepted");
            s.push(json!({"jsonrpc":"2.0","method":"sub","params":{"subscription":sid,"error":"closed by server"}}));
            // the stream ends
            let _ = tokio::time::timeout(std::time::Duration::from_secs(2), sub.next()).await;
            drop(sub);
            // a drop after a server-side close may still emit an unsubscribe: acknowledge it if it comes
            if let Some(rq) = s.try_next_request(200).await {
                s.push(json!({"jsonrpc":"2.0","id":rq["id"],"result":true}));
            }
        }
        "sub-unsubscribe-ack" => {
            let c2 = c.clone();
            let h = tokio::spawn(async move { c2.subscribe::<Value, _>("sub", rpc_params![], "unsub").await });
            let rq = s.next_request().await.expect("subscribe on the wire");
            let sid = format!("S{n}");
            s.push(json!({"jsonrpc":"2.0","id":rq["id"],"result":sid}));
            let sub: Subscription<Value> = h.await.unwrap().expect("accepted");
            let u = tokio::spawn(async move { sub.unsubscribe().await });
            if let Some(rq) = s.next_request().await {
                s.push(json!({"jsonrpc":"2.0","id":rq["id"],"result":true}));
            }
            let _ = u.await;
        }
        "sub-dropped-then-ack" => {
            let c2 = c.clone();
            let h = tokio::spawn(async move { c2.subscribe::<Value, _>("sub", rpc_params![], "unsub").await.map(|_| ()) });
            let rq = s.next_request().await.expect("subscribe on the wire");
            h.abort(); // the caller goes away before the answer arrives
            let _ = h.await;
            let sid = format!("S{n}");
            s.push(json!({"jsonrpc":"2.0","id":rq["id"],"result":sid}));
            // the client should now unsubscribe; acknowledge whatever it sends
            if let Some(rq) = s.try_next_request(300).await {
                s.push(json!({"jsonrpc":"2.0","id":rq["id"],"result":true}));
            }
        }
        "subs-overlap" => {
            // two subscriptions alive at once; the server hands both the same subscription id
            let sid = format!("S{n}");
            let c2 = c.clone();
            let ha = tokio::spawn(async move { c2.subscribe::<Value, _>("sub", rpc_params![], "unsub").await });
            let rq = s.next_request().await.expect("subscribe A on the wire");
            s.push(json!({"jsonrpc":"2.0","id":rq["id"],"result":sid}));
            let a: Subscription<Value> = ha.await.unwrap().expect("A accepted");
            let c2 = c.clone();
            let hb = tokio::spawn(async move { c2.subscribe::<Value, _>("sub", rpc_params![], "unsub").await });
            let rq = s.next_request().await.expect("subscribe B on the wire");
            s.push(json!({"jsonrpc":"2.0","id":rq["id"],"result":sid}));
            let b = match tokio::time::timeout(std::time::Duration::from_secs(3), hb).await {
                Ok(r) => r.unwrap().ok(),
                Err(_) => None,
            };
            for sub in [Some(a), b].into_iter().flatten() {
                let u = tokio::spawn(async move { sub.unsubscribe().await });
                if let Some(rq) = s.try_next_request(500).await {
                    s.push(json!({"jsonrpc":"2.0","id":rq["id"],"result":true}));
                }
                // an unsubscribe that never completes shows up as leftover table entries below
                let _ = tokio::time::timeout(std::time::Duration::from_secs(2), u).await;
            }
            // anything the client still wants to unsubscribe gets acknowledged
            while let Some(rq) = s.try_next_request(200).await {
                s.push(json!({"jsonrpc":"2.0","id":rq["id"],"result":true}));
            }
        }
        "notif-handler-unregistered" => {
            let sub: Subscription<Value> = c.subscribe_to_method(&format!("note{n}")).await.expect("registered");
            // dropping the stream tells the background task to unregister the handler
            drop(sub);
            tokio::time::sleep(std::time::Duration::from_millis(100)).await;
            s.push(json!({"jsonrpc":"2.0","method":format!("note{n}"),"params":[1]}));
        }
        "notif-handler-dropped" => {
            let mut sub: Subscription<Value> = c.subscribe_to_method(&format!("note{n}")).await.expect("registered");
            s.push(json!({"jsonrpc":"2.0","method":format!("note{n}"),"params":[1]}));
            let _ = tokio::time::timeout(std::time::Duration::from_secs(2), sub.next()).await;
            drop(sub);
            // whatever the drop did, the next notification must not find a stale handler afterwards
            tokio::time::sleep(std::time::Duration::from_millis(100)).await;
            s.push(json!({"jsonrpc":"2.0","method":format!("note{n}"),"params":[2]}));
        }
        other => panic!("unknown cycle {other}"),
    }
}

/// args {cycles: [name, ..]}
pub fn lifecycle(a: &Value) -> Value {
    let cycles: Vec<String> = a["cycles"].as_array().unwrap().iter().map(|v| v.as_str().unwrap().to_string()).collect();
    let a = a.clone();
    let rt = tokio::runtime::Builder::new_multi_thread().worker_threads(2).enable_all().build().unwrap();
    rt.block_on(async move {
        // the abandoned / lagging life cycles need a request queue that can be full and a small notification buffer
        let tight = cycles.iter().any(|c| c == "sub-abandoned-then-notified" || c == "sub-lagging-then-notified");
        let builder = if tight {
            ClientBuilder::default().max_concurrent_requests(1).max_buffer_capacity_per_subscription(2).request_timeout(std::time::Duration::from_secs(5))
        } else {
            ClientBuilder::default()
        };
        let (c, mut s, gate) = gated_client(builder);
        let c = Arc::new(c);
        for (n, name) in cycles.iter().enumerate() {
            cycle(name, &c, &mut s, n, &gate).await;
        }
        tokio::time::sleep(std::time::Duration::from_millis(200)).await;
        #[cfg(jsonrpsee_verif)]
        let sizes = c.verif_table_sizes();
        #[cfg(not(jsonrpsee_verif))]
        let sizes = (usize::MAX, 0usize, 0usize, 0usize);
        // the recorded finding (one `requests` entry left per unsubscribed subscription) is not what a replay with `beyond_known` is after
        let known: usize = cycles
            .iter()
            .map(|c| match c.as_str() {
                "sub-unsubscribe-ack" | "sub-dropped-then-ack" | "sub-abandoned-then-notified" | "sub-lagging-then-notified" => 1,
                "subs-overlap" => 2,
                _ => 0,
            })
            .sum();
        let beyond = a["beyond_known"].as_bool().unwrap_or(false);
        let violation = if beyond { sizes.0 > known || (sizes.1, sizes.2, sizes.3) != (0, 0, 0) } else { sizes != (0, 0, 0, 0) };
        json!({"scenario":"c18_lifecycle","observed":{"sizes":[sizes.0, sizes.1, sizes.2, sizes.3], "known_leftover": known, "connected": c.is_connected()},"violation":violation,
               "why": if violation {"tables not empty after complete life cycles"} else {""}})
    })
}
