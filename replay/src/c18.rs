//! C18: after complete life cycles the client's four tables are empty (needs --cfg jsonrpsee_verif for the accessor).
use crate::memclient::{client, ServerSide};
use jsonrpsee_core::client::{Client, ClientBuilder, ClientT, Subscription, SubscriptionClientT};
use jsonrpsee_core::rpc_params;
use serde_json::{json, Value};
use std::sync::Arc;

async fn cycle(name: &str, c: &Arc<Client>, s: &mut ServerSide, n: usize) {
    match name {
        "call" => {
            let c2 = c.clone();
            let h = tokio::spawn(async move { c2.request::<Value, _>("m", rpc_params![]).await });
            let rq = s.next_request().await.expect("request on the wire");
            s.push(json!({"jsonrpc":"2.0","id":rq["id"],"result":1}));
            let _ = h.await;
        }
        "sub-refused" => {
            let c2 = c.clone();
            let h = tokio::spawn(async move { c2.subscribe::<Value, _>("sub", rpc_params![], "unsub").await.map(|_| ()) });
            let rq = s.next_request().await.expect("subscribe on the wire");
            s.push(json!({"jsonrpc":"2.0","id":rq["id"],"error":{"code":-32000,"message":"refused"}}));
            let _ = h.await;
        }
        "sub-server-close" => {
            let c2 = c.clone();
            let h = tokio::spawn(async move { c2.subscribe::<Value, _>("sub", rpc_params![], "unsub").await });
            let rq = s.next_request().await.expect("subscribe on the wire");
            let sid = format!("S{n}");
            s.push(json!({"jsonrpc":"2.0","id":rq["id"],"result":sid}));
            let mut sub: Subscription<Value> = h.await.unwrap().expect("accepted");
            s.push(json!({"jsonrpc":"2.0","method":"sub","params":{"subscription":sid,"error":"closed by server"}}));
            // the stream ends
            let _ = tokio::time::timeout(std::time::Duration::from_secs(2), sub.next()).await;
            drop(sub);
            // a drop after a server-side close may still emit an unsubscribe: acknowledge it if it comes
            if let Some(rq) = s.try_next_request(200).await {
                s.push(json!({"jsonrpc":"2.0","id":rq["id"],"result":true}));
            }
        }
        "sub-unsubscribe-ack" => {
            let c2 = c.clone();
            let h = tokio::spawn(async move { c2.subscribe::<Value, _>("sub", rpc_params![], "unsub").await });
            let rq = s.next_request().await.expect("subscribe on the wire");
            let sid = format!("S{n}");
            s.push(json!({"jsonrpc":"2.0","id":rq["id"],"result":sid}));
            let sub: Subscription<Value> = h.await.unwrap().expect("accepted");
            let u = tokio::spawn(async move { sub.unsubscribe().await });
            if let Some(rq) = s.next_request().await {
                s.push(json!({"jsonrpc":"2.0","id":rq["id"],"result":true}));
            }
            let _ = u.await;
        }
        "sub-dropped-then-ack" => {
            let c2 = c.clone();
            let h = tokio::spawn(async move { c2.subscribe::<Value, _>("sub", rpc_params![], "unsub").await.map(|_| ()) });
            let rq = s.next_request().await.expect("subscribe on the wire");
            h.abort(); // the caller goes away before the answer arrives
            let _ = h.await;
            let sid = format!("S{n}");
            s.push(json!({"jsonrpc":"2.0","id":rq["id"],"result":sid}));
            // the client should now unsubscribe; acknowledge whatever it sends
            if let Some(rq) = s.try_next_request(300).await {
                s.push(json!({"jsonrpc":"2.0","id":rq["id"],"result":true}));
            }
        }
        "subs-overlap" => {
            // two subscriptions alive at once; the server hands both the same subscription id
            let sid = format!("S{n}");
            let c2 = c.clone();
            let ha = tokio::spawn(async move { c2.subscribe::<Value, _>("sub", rpc_params![], "unsub").await });
            let rq = s.next_request().await.expect("subscribe A on the wire");
            s.push(json!({"jsonrpc":"2.0","id":rq["id"],"result":sid}));
            let a: Subscription<Value> = ha.await.unwrap().expect("A accepted");
            let c2 = c.clone();
            let hb = tokio::spawn(async move { c2.subscribe::<Value, _>("sub", rpc_params![], "unsub").await });
            let rq = s.next_request().await.expect("subscribe B on the wire");
            s.push(json!({"jsonrpc":"2.0","id":rq["id"],"result":sid}));
            let b = match tokio::time::timeout(std::time::Duration::from_secs(3), hb).await {
                Ok(r) => r.unwrap().ok(),
                Err(_) => None,
            };
            for sub in [Some(a), b].into_iter().flatten() {
                let u = tokio::spawn(async move { sub.unsubscribe().await });
                if let Some(rq) = s.try_next_request(500).await {
                    s.push(json!({"jsonrpc":"2.0","id":rq["id"],"result":true}));
                }
                // an unsubscribe that never completes shows up as leftover table entries below
                let _ = tokio::time::timeout(std::time::Duration::from_secs(2), u).await;
            }
            // anything the client still wants to unsubscribe gets acknowledged
            while let Some(rq) = s.try_next_request(200).await {
                s.push(json!({"jsonrpc":"2.0","id":rq["id"],"result":true}));
            }
        }
        "notif-handler-unregistered" => {
            let sub: Subscription<Value> = c.subscribe_to_method(&format!("note{n}")).await.expect("registered");
            // dropping the stream tells the background task to unregister the handler
            drop(sub);
            tokio::time::sleep(std::time::Duration::from_millis(100)).await;
            s.push(json!({"jsonrpc":"2.0","method":format!("note{n}"),"params":[1]}));
        }
        "notif-handler-dropped" => {
            let mut sub: Subscription<Value> = c.subscribe_to_method(&format!("note{n}")).await.expect("registered");
            s.push(json!({"jsonrpc":"2.0","method":format!("note{n}"),"params":[1]}));
            let _ = tokio::time::timeout(std::time::Duration::from_secs(2), sub.next()).await;
            drop(sub);
            // whatever the drop did, the next notification must not find a stale handler afterwards
            tokio::time::sleep(std::time::Duration::from_millis(100)).await;
            s.push(json!({"jsonrpc":"2.0","method":format!("note{n}"),"params":[2]}));
        }
        other => panic!("unknown cycle {other}"),
    }
}

/// args {cycles: [name, ..]}
pub fn lifecycle(a: &Value) -> Value {
    let cycles: Vec<String> = a["cycles"].as_array().unwrap().iter().map(|v| v.as_str().unwrap().to_string()).collect();
    let rt = tokio::runtime::Builder::new_multi_thread().worker_threads(2).enable_all().build().unwrap();
    rt.block_on(async move {
        let (c, mut s) = client(ClientBuilder::default());
        let c = Arc::new(c);
        for (n, name) in cycles.iter().enumerate() {
            cycle(name, &c, &mut s, n).await;
        }
        tokio::time::sleep(std::time::Duration::from_millis(200)).await;
        #[cfg(jsonrpsee_verif)]
        let sizes = c.verif_table_sizes();
        #[cfg(not(jsonrpsee_verif))]
        let sizes = (usize::MAX, 0usize, 0usize, 0usize);
        let violation = sizes != (0, 0, 0, 0);
        json!({"scenario":"c18_lifecycle","observed":{"sizes":[sizes.0, sizes.1, sizes.2, sizes.3], "connected": c.is_connected()},"violation":violation,
               "why": if violation {"tables not empty after complete life cycles"} else {""}})
    })
}
