use crate::u;
use jsonrpsee_core::server::{BatchResponseBuilder, MethodResponse, ResponsePayload};
use jsonrpsee_types::Id;
use serde_json::{json, Value};

/// a success response whose JSON text has exactly `len` bytes (len >= 36)
pub fn response_of_len(len: usize) -> MethodResponse {
    let s = "a".repeat(len - 36);
    let r = MethodResponse::response(Id::Number(1), ResponsePayload::success_borrowed(&s), usize::MAX);
    assert_eq!(r.as_json().get().len(), len);
    r
}

/// an error response (of the given code) whose JSON text has exactly `len` bytes, if such a text exists
pub fn error_response_of_len(len: usize, code: i32) -> Option<MethodResponse> {
    use jsonrpsee_types::ErrorObjectOwned;
    let base = MethodResponse::error(Id::Number(1), ErrorObjectOwned::owned(code, "", None::<()>)).as_json().get().len();
    if len < base {
        return None;
    }
    let r = MethodResponse::error(Id::Number(1), ErrorObjectOwned::owned(code, "m".repeat(len - base), None::<()>));
    (r.as_json().get().len() == len).then_some(r)
}

/// args: {r0: accumulated length before (1, or >= 38), j: entry length (>= 36), max: limit}
/// observes: accepted?, accumulated length after (via finish()). The entry is tried as a success and as error responses of several codes (-32008 among them):
/// what the entry *is* must not matter, only its length.
pub fn append(a: &Value) -> Value {
    let first = append_with(a, None);
    if first["violation"].as_bool().unwrap_or(false) || first["skipped"].as_bool().unwrap_or(false) {
        return first;
    }
    for code in [-32008, -32011, -32603, 7] {
        let r = append_with(a, Some(code));
        if r["violation"].as_bool().unwrap_or(false) {
            return r;
        }
    }
    first
}

fn append_with(a: &Value, error_code: Option<i32>) -> Value {
    let (r0, j, max) = (u(a, "r0") as usize, u(a, "j") as usize, u(a, "max") as usize);
    let mut b = BatchResponseBuilder::new_with_limit(max);
    if r0 != 1 {
        // one earlier entry of length r0-2 brings the accumulated text to r0 ('[' + entry + ',')
        if b.append(response_of_len(r0 - 2)).is_err() {
            return json!({"scenario":"c08_append","violation":false,"why":"pre-state not constructible","skipped":true});
        }
    }
    let entry = match error_code {
        None => response_of_len(j),
        Some(c) => match error_response_of_len(j, c) {
            Some(r) => r,
            None => return json!({"scenario":"c08_append","violation":false,"why":"no error response of that length","skipped":true}),
        },
    };
    let accepted = b.append(entry).is_ok();
    let fin = b.finish();
    let final_len = MethodResponse::from_batch(fin).as_json().get().len();
    let expect_accept = r0 + j + 1 <= max;
    // accepted: final text = r0 + j + 1 bytes (last ',' -> ']'); refused: builder unchanged => r0 bytes (or the -32600 object when r0 == 1)
    let expect_len = if expect_accept { r0 + j + 1 } else { r0 };
    let len_ok = if !expect_accept && r0 == 1 { true } else { final_len == expect_len };
    let violation = accepted != expect_accept || !len_ok || (accepted && final_len > max);
    json!({"scenario":"c08_append","observed":{"accepted":accepted,"final_len":final_len,"entry_error_code":error_code},"expected":{"accepted":expect_accept,"final_len":expect_len},
           "violation":violation,"why": if violation {"append decision/length differs from limit arithmetic"} else {""}})
}

/// args: {n: string payload length, max: limit, id: number}. observes the reply text.
pub fn response(a: &Value) -> Value {
    let (n, max, id) = (u(a, "n") as usize, u(a, "max") as usize, u(a, "id"));
    let s = "a".repeat(n);
    let full = MethodResponse::response(Id::Number(id), ResponsePayload::success_borrowed(&s), usize::MAX);
    let t = full.as_json().get().len();
    let r = MethodResponse::response(Id::Number(id), ResponsePayload::success_borrowed(&s), max);
    let txt = r.as_json().get().to_string();
    let v: Value = serde_json::from_str(&txt).unwrap();
    let too_big = v["error"]["code"] == json!(-32008) && v["id"] == json!(id);
    let unchanged = txt == full.as_json().get();
    let violation = if t <= max { !unchanged } else { !too_big };
    json!({"scenario":"c08_response","observed":{"len":txt.len(),"too_big":too_big,"unchanged":unchanged,"exact":t},"violation":violation,
           "why": if violation {"reply above the limit sent, or fitting reply replaced"} else {""}})
}


/// error results (with data) around the limit: a reply above max is never produced - it is replaced by -32008 with the call's id
pub fn error_payload(_a: &Value) -> Value {
    use jsonrpsee_types::ErrorObjectOwned;
    let mut bad = vec![];
    for n in [0usize, 10, 100, 1000] {
        let data = "d".repeat(n);
        let mk = || ResponsePayload::<()>::error(ErrorObjectOwned::owned(-32000, "boom", Some(data.clone())));
        let full = MethodResponse::response(Id::Number(7), mk(), usize::MAX);
        let t = full.as_json().get().len();
        for max in [t.saturating_sub(2), t.saturating_sub(1), t, t + 1, 64] {
            let r = MethodResponse::response(Id::Number(7), mk(), max);
            let txt = r.as_json().get().to_string();
            let v: Value = serde_json::from_str(&txt).unwrap();
            let too_big = v["error"]["code"] == json!(-32008) && v["id"] == json!(7);
            let ok = if t <= max { txt == full.as_json().get() } else { too_big };
            if !ok {
                bad.push(json!({"data_len": n, "exact": t, "max": max, "sent_len": txt.len(), "too_big_reply": too_big}));
            }
        }
    }
    let violation = !bad.is_empty();
    json!({"scenario":"c08_error_payload","observed":{"deviations":bad.iter().take(4).collect::<Vec<_>>()},"violation":violation,
           "why": if violation {"an error reply above max_response_body_size was produced (or a fitting one replaced)"} else {""}})
}

/// args {lens: [entry lengths >= 36], max}: the batch builder from creation to finish. The array text of the accepted entries is
/// '[' + entries joined by ',' + ']'; an entry is accepted exactly when the array closed after it still fits; what is finished never exceeds max.
pub fn batch_total(a: &Value) -> Value {
    let max = u(a, "max") as usize;
    let lens: Vec<usize> = a["lens"].as_array().map(|v| v.iter().map(|x| x.as_u64().or_else(|| x.as_str().and_then(|s| s.parse().ok())).unwrap_or(36) as usize).collect()).unwrap_or_default();
    let mut b = BatchResponseBuilder::new_with_limit(max);
    let mut why = vec![];
    let mut total = 1usize; // '['
    let mut accepted_any = false;
    for (i, l) in lens.iter().enumerate() {
        let l = (*l).max(36);
        let closed = total + l + 1; // entry + (',' or the closing ']')
        let want = closed <= max;
        let got = b.append(response_of_len(l)).is_ok();
        if got != want {
            why.push(format!("entry #{i} of {l} bytes: array closed after it would be {closed} bytes, limit {max}: accepted={got}"));
        }
        if !got {
            break;
        }
        accepted_any = true;
        total = closed;
    }
    let fin = MethodResponse::from_batch(b.finish());
    let flen = fin.as_json().get().len();
    if accepted_any && why.is_empty() {
        if flen != total {
            why.push(format!("finished array has {flen} bytes, the accepted entries make {total}"));
        }
        if flen > max {
            why.push(format!("a batch reply of {flen} bytes was produced under a limit of {max}"));
        }
    }
    json!({"scenario":"c08_batch_total","observed":{"final_len":flen},"violation":!why.is_empty(),"why":why.join(" | ")})
}
