//! C04: a subscription's notifications are its own (id + method), follow the accepting response, keep the handler's order, stop at close;
//! a rejected / never accepted subscription produces none; a closing notification comes at most once and only for an accepted one.
use jsonrpsee_server::types::ErrorObject;
use jsonrpsee_server::{RpcModule, Server, SubscriptionCloseResponse, SubscriptionMessage};
use serde_json::{json, Value};
use std::sync::{Arc, Mutex};
use std::time::Duration;
use tokio::net::TcpStream;
use tokio_util::compat::TokioAsyncReadCompatExt;

type Log = Arc<Mutex<Vec<String>>>;

fn msg(v: Value) -> SubscriptionMessage {
    SubscriptionMessage::from(serde_json::value::to_raw_value(&v).unwrap())
}

fn module(log: Log) -> RpcModule<Log> {
    let mut m = RpcModule::new(log);
    m.register_subscription("sub", "item", "unsub", |params, pending, log, _| async move {
        let (mode, tag): (String, u64) = params.parse().unwrap_or(("stream".to_string(), 0));
        match mode.as_str() {
            "reject" => {
                pending.reject(ErrorObject::owned(7, "no", None::<()>)).await;
                return SubscriptionCloseResponse::Notif(msg(json!({"closing": tag})));
            }
            "ignore" => {
                drop(pending);
                return SubscriptionCloseResponse::Notif(msg(json!({"closing": tag})));
            }
            _ => {}
        }
        let Ok(mut sink) = pending.accept().await else { return SubscriptionCloseResponse::None };
        if mode == "stream" {
            for i in 0..6u64 {
                let m = msg(json!({"tag": tag, "i": i}));
                let ok = match i % 3 {
                    0 => sink.send(m).await.is_ok(),
                    1 => sink.try_send(m).is_ok(),
                    _ => sink.send_timeout(m, Duration::from_secs(2)).await.is_ok(),
                };
                if !ok {
                    log.lock().unwrap().push(format!("send {i} of {tag} failed"));
                }
            }
            return SubscriptionCloseResponse::Notif(msg(json!({"closing": tag})));
        }
        // "until-closed": one item, then wait for the close and try to send afterwards
        let _ = sink.send(msg(json!({"tag": tag, "i": 0}))).await;
        sink.closed().await;
        let closed = sink.is_closed();
        let late = [sink.send(msg(json!({"tag": tag, "late": 1}))).await.is_ok(), sink.try_send(msg(json!({"tag": tag, "late": 2}))).is_ok(),
                    sink.send_timeout(msg(json!({"tag": tag, "late": 3})), Duration::from_millis(200)).await.is_ok()];
        log.lock().unwrap().push(format!("after-close tag={tag} is_closed={closed} late_sends_ok={late:?}"));
        SubscriptionCloseResponse::Notif(msg(json!({"closing": tag})))
    })
    .unwrap();
    m
}

pub fn notifications(_a: &Value) -> Value {
    let rt = tokio::runtime::Builder::new_multi_thread().worker_threads(3).enable_all().build().unwrap();
    rt.block_on(async move {
        let log: Log = Default::default();
        let server = Server::builder().build("127.0.0.1:0").await.unwrap();
        let addr = server.local_addr().unwrap();
        let handle = server.start(module(log.clone()));
        let sock = TcpStream::connect(addr).await.unwrap();
        let host = addr.to_string();
        let mut client = soketto::handshake::Client::new(sock.compat(), &host, "/");
        match client.handshake().await.unwrap() {
            soketto::handshake::ServerResponse::Accepted { .. } => {}
            r => panic!("handshake: {r:?}"),
        }
        let (mut tx, mut rx) = client.into_builder().finish();
        let (ftx, mut frx) = tokio::sync::mpsc::unbounded_channel::<Value>();
        tokio::spawn(async move {
            let mut buf = Vec::new();
            loop {
                buf.clear();
                match rx.receive_data(&mut buf).await {
                    Ok(_) => {
                        if ftx.send(serde_json::from_slice::<Value>(&buf).unwrap_or(Value::Null)).is_err() {
                            break;
                        }
                    }
                    Err(_) => break,
                }
            }
        });
        let mut why: Vec<String> = vec![];
        // five subscribe calls at once: two streams, one rejected, one never accepted, one held until unsubscribed
        let calls = [(1, "stream", 11), (2, "stream", 22), (3, "reject", 33), (4, "ignore", 44), (5, "until-closed", 55)];
        for (id, mode, tag) in calls {
            let _ = tx.send_text(json!({"jsonrpc":"2.0","id":id,"method":"sub","params":[mode, tag]}).to_string()).await;
        }
        let _ = tx.flush().await;
        let mut frames: Vec<Value> = vec![];
        let collect = |frames: &mut Vec<Value>, v: Value| frames.push(v);
        while let Ok(Some(v)) = tokio::time::timeout(Duration::from_millis(700), frx.recv()).await {
            collect(&mut frames, v);
        }
        // the held subscription: unsubscribe it, then give the handler time to try its late sends
        let held_id = frames.iter().find(|f| f["id"] == json!(5)).map(|f| f["result"].clone()).unwrap_or(Value::Null);
        let _ = tx.send_text(json!({"jsonrpc":"2.0","id":6,"method":"unsub","params":[held_id]}).to_string()).await;
        let _ = tx.flush().await;
        while let Ok(Some(v)) = tokio::time::timeout(Duration::from_millis(900), frx.recv()).await {
            collect(&mut frames, v);
        }
        let _ = handle.stop();
        // ---- judge
        let sub_id = |call: u64| frames.iter().find(|f| f["id"] == json!(call) && f.get("result").is_some()).map(|f| f["result"].clone());
        let pos_resp = |call: u64| frames.iter().position(|f| f["id"] == json!(call));
        let notifs: Vec<(usize, &Value)> = frames.iter().enumerate().filter(|(_, f)| f.get("method").is_some()).collect();
        for (_, n) in &notifs {
            if n["method"] != json!("item") {
                why.push(format!("a notification carries method {} instead of the subscription's notification method: {n}", n["method"]));
            }
        }
        let known: Vec<Value> = [1u64, 2, 5].iter().filter_map(|c| sub_id(*c)).collect();
        for (_, n) in &notifs {
            if !known.contains(&n["params"]["subscription"]) {
                why.push(format!("a notification carries a subscription id that belongs to no accepted subscription: {n}"));
            }
        }
        for (call, tag) in [(1u64, 11u64), (2, 22)] {
            let Some(sid) = sub_id(call) else {
                why.push(format!("subscribe call {call} was not accepted"));
                continue;
            };
            let own: Vec<(usize, &Value)> = notifs.iter().filter(|(_, n)| n["params"]["subscription"] == sid).cloned().collect();
            if own.iter().any(|(i, _)| Some(*i) < pos_resp(call)) {
                why.push(format!("a notification of subscription {call} precedes the response that accepted it"));
            }
            let items: Vec<u64> = own.iter().filter_map(|(_, n)| n["params"]["result"]["i"].as_u64()).collect();
            if items != vec![0, 1, 2, 3, 4, 5] {
                why.push(format!("subscription {call}: items arrived as {items:?}, the handler produced 0..5 in order"));
            }
            if own.iter().any(|(_, n)| n["params"]["result"]["tag"].as_u64().map(|t| t != tag).unwrap_or(false)) {
                why.push(format!("subscription {call} received another subscription's item"));
            }
            let closing: Vec<usize> = own.iter().filter(|(_, n)| n["params"]["result"].get("closing").is_some()).map(|(i, _)| *i).collect();
            if closing.len() != 1 {
                why.push(format!("subscription {call}: {} closing notifications", closing.len()));
            } else if own.iter().any(|(i, n)| n["params"]["result"].get("i").is_some() && *i > closing[0]) {
                why.push(format!("subscription {call}: an item follows the closing notification"));
            }
        }
        for call in [3u64, 4] {
            // rejected / never accepted: an error answer, no notification, closing value discarded
            if frames.iter().any(|f| f.get("method").is_some() && (f["params"]["result"]["closing"] == json!(call * 11))) {
                why.push(format!("the closing value of the not-accepted subscription {call} was sent"));
            }
            if sub_id(call).is_some() {
                why.push(format!("subscribe call {call} was answered with a subscription id although it was rejected / ignored"));
            }
        }
        // the held one
        if frames.iter().find(|f| f["id"] == json!(6)).map(|f| f["result"] != json!(true)).unwrap_or(true) {
            why.push("unsubscribe of the held subscription did not answer true".into());
        }
        if frames.iter().any(|f| f.get("method").is_some() && f["params"]["result"].get("late").is_some()) {
            why.push("a send started after the subscription was closed was delivered".into());
        }
        let l = log.lock().unwrap().clone();
        match l.iter().find(|e| e.starts_with("after-close tag=55")) {
            Some(e) if e.contains("is_closed=true") && e.contains("[false, false, false]") => {}
            Some(e) => why.push(format!("after unsubscribe the sink did not behave as closed: {e}")),
            None => why.push("the held handler never saw its subscription close".into()),
        }
        if let Some(sid) = sub_id(5) {
            let c = notifs.iter().filter(|(_, n)| n["params"]["subscription"] == sid && n["params"]["result"].get("closing").is_some()).count();
            if c > 1 {
                why.push(format!("{c} closing notifications for the unsubscribed subscription"));
            }
        }
        for e in l.iter().filter(|e| e.starts_with("send ")) {
            why.push(format!("handler: {e}"));
        }
        why.truncate(6);
        json!({"scenario":"c04_notifications","observed":{"frames":frames.len()},"violation":!why.is_empty(),"why":why.join(" | ")})
    })
}
