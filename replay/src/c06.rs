//! C06: unsubscribe answers true exactly for a subscription active on the same connection; at most `cap` slots per connection;
//! every ending returns its slot once the handler has let go of its sinks.
use jsonrpsee_server::{RpcModule, Server, ServerConfig, SubscriptionSink};
use jsonrpsee_types::ErrorObject;
use serde_json::{json, Value};
use std::collections::HashMap;
use std::sync::{Arc, Mutex};
use std::time::Duration;
use tokio::net::TcpStream;
use tokio::sync::{mpsc, oneshot};
use tokio_util::compat::TokioAsyncReadCompatExt;

enum Cmd {
    Clone(oneshot::Sender<()>),
    DropOne(oneshot::Sender<()>),
    Query(oneshot::Sender<Option<bool>>),
    Finish(oneshot::Sender<()>),
}

type Handlers = Arc<Mutex<HashMap<String, mpsc::UnboundedSender<Cmd>>>>;

fn module(handlers: Handlers) -> RpcModule<Handlers> {
    let mut m = RpcModule::new(handlers);
    m.register_subscription("sub", "n", "unsub", |params, pending, ctx, _| async move {
        let mode: String = params.one().unwrap_or_default();
        if mode == "reject" {
            pending.reject(ErrorObject::owned(1, "rejected by the handler", None::<()>)).await;
            return;
        }
        let key = serde_json::to_string(&pending.subscription_id()).unwrap();
        let (tx, mut rx) = mpsc::unbounded_channel::<Cmd>();
        ctx.lock().unwrap().insert(key, tx);
        let Ok(sink) = pending.accept().await else { return };
        let mut sinks: Vec<SubscriptionSink> = vec![sink];
        while let Some(cmd) = rx.recv().await {
            match cmd {
                Cmd::Clone(ack) => {
                    if let Some(s) = sinks.first() {
                        let c = s.clone();
                        sinks.push(c);
                    }
                    let _ = ack.send(());
                }
                Cmd::DropOne(ack) => {
                    drop(sinks.pop());
                    let _ = ack.send(());
                }
                Cmd::Query(r) => {
                    let _ = r.send(sinks.first().map(|s| s.is_closed()));
                }
                Cmd::Finish(ack) => {
                    drop(sinks);
                    let _ = ack.send(());
                    return;
                }
            }
        }
    })
    .unwrap();
    m
}

struct Conn {
    tx: soketto::Sender<tokio_util::compat::Compat<TcpStream>>,
    rx: mpsc::UnboundedReceiver<Value>,
    open: bool,
    next_id: u64,
}

impl Conn {
    async fn call(&mut self, method: &str, params: Value) -> Option<Value> {
        self.next_id += 1;
        let id = self.next_id;
        let msg = json!({"jsonrpc":"2.0","id":id,"method":method,"params":params}).to_string();
        self.tx.send_text(msg).await.ok()?;
        self.tx.flush().await.ok()?;
        loop {
            match tokio::time::timeout(Duration::from_secs(3), self.rx.recv()).await {
                Ok(Some(v)) if v["id"] == json!(id) => return Some(v),
                Ok(Some(_)) => continue, // a subscription notification or the duplicate of an earlier answer
                _ => return None,
            }
        }
    }
}

async fn connect(addr: std::net::SocketAddr) -> Conn {
    let sock = TcpStream::connect(addr).await.unwrap();
    let host = addr.to_string();
    let mut client = soketto::handshake::Client::new(sock.compat(), &host, "/");
    match client.handshake().await.unwrap() {
        soketto::handshake::ServerResponse::Accepted { .. } => {}
        r => panic!("handshake: {r:?}"),
    }
    let (tx, mut srx) = client.into_builder().finish();
    let (ftx, frx) = mpsc::unbounded_channel::<Value>();
    tokio::spawn(async move {
        let mut buf = Vec::new();
        loop {
            buf.clear();
            match srx.receive_data(&mut buf).await {
                Ok(_) => {
                    if ftx.send(serde_json::from_slice::<Value>(&buf).unwrap_or(Value::Null)).is_err() {
                        break;
                    }
                }
                Err(_) => break,
            }
        }
    });
    Conn { tx, rx: frx, open: true, next_id: 0 }
}

/// reference model of one subscription
struct Sub {
    conn: usize,
    key: String,
    id: Value,
    sinks: usize,
    unsubscribed: bool,
}

/// args {cap, ops: [["sub",c] | ["sub_reject",c] | ["clone",s] | ["dropone",s] | ["finish",s] | ["query",s] | ["unsub",c,s] | ["unsub_unknown",c] | ["close",c] | ["reopen",c]]}
pub fn history(a: &Value) -> Value {
    let cap = a["cap"].as_u64().unwrap_or(2) as u32;
    let ops: Vec<Value> = a["ops"].as_array().cloned().unwrap_or_default();
    let rt = tokio::runtime::Builder::new_multi_thread().worker_threads(2).enable_all().build().unwrap();
    rt.block_on(async move {
        let handlers: Handlers = Default::default();
        // a message buffer different from the cap, so that a cap taken from the wrong configuration field shows
        let cfg = ServerConfig::builder().max_subscriptions_per_connection(cap).set_message_buffer_capacity(cap + 7).build();
        let (addr, handle) = if a["entry"].as_str() == Some("low_level") {
            crate::c07::low_level_server_with(cfg, module(handlers.clone()).into()).await
        } else if a["entry"].as_str() == Some("service_builder") {
            // one service per connection, each built from a clone of the same service builder (as the documentation shows)
            use jsonrpsee_server::{serve_with_graceful_shutdown, stop_channel};
            let listener = tokio::net::TcpListener::bind("127.0.0.1:0").await.unwrap();
            let addr = listener.local_addr().unwrap();
            let (stop_handle, server_handle) = stop_channel();
            let svc_builder = Server::builder().set_config(cfg).to_service_builder();
            let methods = module(handlers.clone());
            tokio::spawn(async move {
                loop {
                    let (sock, _) = tokio::select! {
                        r = listener.accept() => match r { Ok(s) => s, Err(_) => continue },
                        _ = stop_handle.clone().shutdown() => break,
                    };
                    let svc = svc_builder.clone().build(methods.clone(), stop_handle.clone());
                    tokio::spawn(serve_with_graceful_shutdown(sock, svc, stop_handle.clone().shutdown()));
                }
            });
            (addr, server_handle)
        } else {
            let server = Server::builder().set_config(cfg).build("127.0.0.1:0").await.unwrap();
            (server.local_addr().unwrap(), server.start(module(handlers.clone())))
        };
        let mut conns = vec![connect(addr).await, connect(addr).await];
        let mut subs: Vec<Sub> = vec![];
        let mut why: Vec<String> = vec![];
        let mut trace = vec![];
        let settle = || tokio::time::sleep(Duration::from_millis(40));
        for (step, op) in ops.iter().enumerate() {
            let name = op[0].as_str().unwrap_or("");
            let x = op[1].as_u64().unwrap_or(0) as usize;
            let slots = |subs: &Vec<Sub>, c: usize| subs.iter().filter(|s| s.conn == c && s.sinks > 0).count() as u32;
            match name {
                "sub" | "sub_reject" => {
                    let c = x % 2;
                    if !conns[c].open {
                        continue;
                    }
                    let full = slots(&subs, c) >= cap;
                    let p = if name == "sub" { json!(["hold"]) } else { json!(["reject"]) };
                    let Some(r) = conns[c].call("sub", p).await else {
                        why.push(format!("step {step}: no answer to subscribe on connection {c}"));
                        break;
                    };
                    let code = r["error"]["code"].as_i64();
                    trace.push(json!([name, c, r.get("result").cloned().unwrap_or(json!(code))]));
                    if full {
                        if code != Some(-32006) {
                            why.push(format!("step {step}: connection {c} holds {cap} subscriptions (cap {cap}) but subscribe was answered {r}"));
                        }
                    } else if name == "sub" {
                        if r.get("result").is_none() {
                            why.push(format!("step {step}: connection {c} holds {} of {cap} slots but subscribe was answered {r}", slots(&subs, c)));
                        } else {
                            let id = r["result"].clone();
                            subs.push(Sub { conn: c, key: serde_json::to_string(&id).unwrap(), id, sinks: 1, unsubscribed: false });
                        }
                    } else if code != Some(1) {
                        why.push(format!("step {step}: handler rejection answered {r}"));
                    }
                    settle().await;
                }
                "clone" | "dropone" | "finish" | "query" => {
                    let Some(s) = subs.get_mut(x) else { continue };
                    let Some(h) = handlers.lock().unwrap().get(&s.key).cloned() else { continue };
                    if name == "query" {
                        if s.sinks == 0 {
                            continue;
                        }
                        let (t, r) = oneshot::channel();
                        let _ = h.send(Cmd::Query(t));
                        let closed = r.await.ok().flatten();
                        let active = !s.unsubscribed && conns[s.conn].open;
                        trace.push(json!(["query", x, closed]));
                        if closed != Some(!active) {
                            why.push(format!(
                                "step {step}: subscription #{x} (unsubscribed={}, connection open={}, handler holds {} sink(s)) reports is_closed={closed:?}",
                                s.unsubscribed, conns[s.conn].open, s.sinks
                            ));
                        }
                        continue;
                    }
                    if s.sinks == 0 {
                        continue;
                    }
                    let (t, r) = oneshot::channel();
                    let _ = h.send(match name {
                        "clone" => Cmd::Clone(t),
                        "dropone" => Cmd::DropOne(t),
                        _ => Cmd::Finish(t),
                    });
                    let _ = r.await;
                    match name {
                        "clone" => s.sinks += 1,
                        "dropone" => s.sinks -= 1,
                        _ => s.sinks = 0,
                    }
                    trace.push(json!([name, x]));
                    settle().await;
                }
                "unsub" => {
                    let c = x % 2;
                    let si = op[2].as_u64().unwrap_or(0) as usize;
                    if !conns[c].open {
                        continue;
                    }
                    let Some(s) = subs.get(si) else { continue };
                    let active = !s.unsubscribed && s.sinks > 0 && conns[s.conn].open;
                    let want = active && s.conn == c;
                    let Some(r) = conns[c].call("unsub", json!([s.id])).await else {
                        why.push(format!("step {step}: no answer to unsubscribe on connection {c}"));
                        break;
                    };
                    trace.push(json!(["unsub", c, si, r["result"]]));
                    if r["result"] != json!(want) {
                        why.push(format!(
                            "step {step}: unsubscribe of subscription #{si} (owner connection {}, unsubscribed={}, handler holds {} sink(s)) from connection {c} answered {} instead of {want}",
                            s.conn, s.unsubscribed, s.sinks, r
                        ));
                    }
                    if want {
                        subs[si].unsubscribed = true;
                    }
                    settle().await;
                }
                "unsub_unknown" => {
                    let c = x % 2;
                    if !conns[c].open {
                        continue;
                    }
                    let r = conns[c].call("unsub", json!([987654321u64])).await.unwrap_or(Value::Null);
                    if r["result"] != json!(false) {
                        why.push(format!("step {step}: unsubscribe of an unknown id answered {r}"));
                    }
                }
                "reopen" => {
                    // a connection accepted after an earlier one has gone: it is a connection of its own, with its own id
                    let c = x % 2;
                    if !conns[c].open {
                        conns[c] = connect(addr).await;
                        for s in subs.iter_mut().filter(|s| s.conn == c) {
                            s.unsubscribed = true;
                            s.sinks = 0;
                        }
                        trace.push(json!(["reopen", c]));
                    }
                }
                "close" => {
                    let c = x % 2;
                    if conns[c].open {
                        let _ = conns[c].tx.close().await;
                        conns[c].open = false;
                        trace.push(json!(["close", c]));
                        tokio::time::sleep(Duration::from_millis(150)).await;
                    }
                }
                _ => {}
            }
        }
        // every ended subscription returned its slot: each open connection can start cap - held new ones, and not one more
        for c in 0..2 {
            if !conns[c].open || !why.is_empty() {
                continue;
            }
            let held = subs.iter().filter(|s| s.conn == c && s.sinks > 0).count() as u32;
            for k in 0..=(cap - held.min(cap)) {
                let r = conns[c].call("sub", json!(["hold"])).await.unwrap_or(Value::Null);
                let ok = r.get("result").is_some();
                if k < cap - held.min(cap) && !ok {
                    why.push(format!("end: connection {c} holds {held} of {cap} slots but new subscription #{k} was answered {r}"));
                    break;
                }
                if k == cap - held.min(cap) && r["error"]["code"] != json!(-32006) {
                    why.push(format!("end: connection {c} was given more than {cap} subscriptions: {r}"));
                }
            }
        }
        let _ = handle.stop();
        json!({"scenario":"c06_history","observed":{"trace":trace},"violation":!why.is_empty(),"why":why.join(" | ")})
    })
}

/// The same histories through the in-process `RpcModule` API, where every call is connection 0 and each subscribe call has its own
/// outgoing channel: "close" closes the channels of all subscriptions made so far. Used for histories in which the connection
/// closes before the handler lets go of its sinks (over a socket nothing can be asked on a closed connection).
/// args {ops: [["sub"] | ["clone",s] | ["dropone",s] | ["finish",s] | ["unsub",_,s] | ["close"]]}
pub fn inprocess(a: &Value) -> Value {
    let ops: Vec<Value> = a["ops"].as_array().cloned().unwrap_or_default();
    let rt = tokio::runtime::Builder::new_multi_thread().worker_threads(2).enable_all().build().unwrap();
    rt.block_on(async move {
        let handlers: Handlers = Default::default();
        let m = module(handlers.clone());
        let mut subs: Vec<Sub> = vec![];
        let mut chans = vec![];
        let mut closed_upto = 0usize;
        let mut why: Vec<String> = vec![];
        let mut trace = vec![];
        let settle = || tokio::time::sleep(Duration::from_millis(40));
        for (step, op) in ops.iter().enumerate() {
            let name = op[0].as_str().unwrap_or("");
            match name {
                "sub" => {
                    let (rp, rx) = m.raw_json_request(r#"{"jsonrpc":"2.0","id":1,"method":"sub","params":["hold"]}"#, 8).await.unwrap();
                    let r: Value = serde_json::from_str(rp.get()).unwrap_or(Value::Null);
                    if r.get("result").is_none() {
                        why.push(format!("step {step}: subscribe answered {r}"));
                        break;
                    }
                    let id = r["result"].clone();
                    trace.push(json!(["sub", id]));
                    subs.push(Sub { conn: 0, key: serde_json::to_string(&id).unwrap(), id, sinks: 1, unsubscribed: false });
                    chans.push(Some(rx));
                    settle().await;
                }
                "clone" | "dropone" | "finish" => {
                    let x = op[1].as_u64().unwrap_or(0) as usize;
                    let Some(s) = subs.get_mut(x) else { continue };
                    if s.sinks == 0 {
                        continue;
                    }
                    let Some(h) = handlers.lock().unwrap().get(&s.key).cloned() else { continue };
                    let (t, r) = oneshot::channel();
                    let _ = h.send(match name {
                        "clone" => Cmd::Clone(t),
                        "dropone" => Cmd::DropOne(t),
                        _ => Cmd::Finish(t),
                    });
                    let _ = r.await;
                    match name {
                        "clone" => s.sinks += 1,
                        "dropone" => s.sinks -= 1,
                        _ => s.sinks = 0,
                    }
                    trace.push(json!([name, x]));
                    settle().await;
                }
                "close" => {
                    for c in chans.iter_mut() {
                        *c = None;
                    }
                    closed_upto = subs.len();
                    trace.push(json!(["close"]));
                    settle().await;
                }
                "unsub" => {
                    let si = op[2].as_u64().or(op[1].as_u64()).unwrap_or(0) as usize;
                    let Some(s) = subs.get(si) else { continue };
                    let was_closed = si < closed_upto;
                    if was_closed && s.sinks > 0 {
                        continue; // connection gone but the handler still holds a sink: nothing is prescribed for this in-process question
                    }
                    let want = !s.unsubscribed && s.sinks > 0;
                    let rq = json!({"jsonrpc":"2.0","id":2,"method":"unsub","params":[s.id]}).to_string();
                    let (rp, _rx) = m.raw_json_request(&rq, 8).await.unwrap();
                    let r: Value = serde_json::from_str(rp.get()).unwrap_or(Value::Null);
                    trace.push(json!(["unsub", si, r["result"]]));
                    if r["result"] != json!(want) {
                        why.push(format!(
                            "step {step}: unsubscribe of subscription #{si} (unsubscribed={}, handler holds {} sink(s), its channel closed={was_closed}) answered {} instead of {want}",
                            s.unsubscribed, s.sinks, r
                        ));
                    }
                    if want {
                        subs[si].unsubscribed = true;
                    }
                    settle().await;
                }
                _ => {}
            }
        }
        json!({"scenario":"c06_inprocess","observed":{"trace":trace},"violation":!why.is_empty(),"why":why.join(" | ")})
    })
}

/// A handler that accepts, hands its sink to a task of its own and returns: the subscription stays active for as long as that task holds the sink -
/// notifications keep arriving, the sink does not report closed, and the first unsubscribe answers true (the next one false).
pub fn sink_handed_over(_a: &Value) -> Value {
    let rt = tokio::runtime::Builder::new_multi_thread().worker_threads(2).enable_all().build().unwrap();
    rt.block_on(async move {
        let closed_seen = Arc::new(std::sync::atomic::AtomicBool::new(false));
        let failed_sends = Arc::new(std::sync::atomic::AtomicUsize::new(0));
        let mut m = RpcModule::new((closed_seen.clone(), failed_sends.clone()));
        m.register_subscription("sub", "notif", "unsub", |_, pending, ctx, _| async move {
            let sink = pending.accept().await?;
            let (closed_seen, failed_sends) = (ctx.0.clone(), ctx.1.clone());
            tokio::spawn(async move {
                for i in 0..12u32 {
                    if sink.is_closed() {
                        closed_seen.store(true, std::sync::atomic::Ordering::SeqCst);
                    }
                    let msg = serde_json::value::to_raw_value(&i).unwrap();
                    if sink.send(msg).await.is_err() {
                        failed_sends.fetch_add(1, std::sync::atomic::Ordering::SeqCst);
                    }
                    tokio::time::sleep(Duration::from_millis(40)).await;
                }
                // the sink lives until here
                tokio::time::sleep(Duration::from_millis(400)).await;
            });
            Ok(())
        })
        .unwrap();
        let (rp, mut rx) = m.raw_json_request(r#"{"jsonrpc":"2.0","id":1,"method":"sub","params":[]}"#, 64).await.unwrap();
        let r: Value = serde_json::from_str(rp.get()).unwrap_or(Value::Null);
        let id = r["result"].clone();
        let mut got = 0;
        while let Ok(Some(_)) = tokio::time::timeout(Duration::from_millis(300), rx.recv()).await {
            got += 1;
            if got >= 12 {
                break;
            }
        }
        let closed_early = closed_seen.load(std::sync::atomic::Ordering::SeqCst);
        let failed = failed_sends.load(std::sync::atomic::Ordering::SeqCst);
        let rq = json!({"jsonrpc":"2.0","id":2,"method":"unsub","params":[id]}).to_string();
        let (u1, _) = m.raw_json_request(&rq, 8).await.unwrap();
        let (u2, _) = m.raw_json_request(&rq, 8).await.unwrap();
        let u1: Value = serde_json::from_str(u1.get()).unwrap_or(Value::Null);
        let u2: Value = serde_json::from_str(u2.get()).unwrap_or(Value::Null);
        let mut why = vec![];
        if got < 12 || failed > 0 {
            why.push(format!("only {got} of 12 notifications arrived ({failed} sends failed) although the handler's task held the sink"));
        }
        if closed_early {
            why.push("the sink reported closed while it was held and nobody had unsubscribed".to_string());
        }
        if u1["result"] != json!(true) || u2["result"] != json!(false) {
            why.push(format!("unsubscribe of the still-held subscription answered {} then {} (expected true then false)", u1["result"], u2["result"]));
        }
        json!({"scenario":"c06_sink_handed_over","observed":{"notifications":got,"failed_sends":failed,"closed_while_held":closed_early,"unsubscribe":[u1["result"],u2["result"]]},
               "violation":!why.is_empty(),"why":why.join(" | ")})
    })
}

/// `accept()` that fails - the subscribe call's future is gone by the time the handler accepts - must leave nothing behind: no subscription is active,
/// so unsubscribing its id answers false and its slot is free again.
pub fn accept_fails(_a: &Value) -> Value {
    use jsonrpsee_types::SubscriptionId;
    struct Ctx {
        go: tokio::sync::Notify,
        ids: Mutex<Vec<SubscriptionId<'static>>>,
        accepted: Mutex<Vec<bool>>,
    }
    let rt = tokio::runtime::Builder::new_multi_thread().worker_threads(2).enable_all().build().unwrap();
    rt.block_on(async move {
        let ctx = Arc::new(Ctx { go: tokio::sync::Notify::new(), ids: Mutex::new(vec![]), accepted: Mutex::new(vec![]) });
        let mut m = RpcModule::from_arc(ctx.clone());
        m.register_subscription_raw("sub", "notif", "unsub", |_, pending, ctx, _| {
            ctx.ids.lock().unwrap().push(pending.subscription_id());
            tokio::spawn(async move {
                ctx.go.notified().await;
                let r = pending.accept().await;
                ctx.accepted.lock().unwrap().push(r.is_ok());
            });
        })
        .unwrap();
        let m = Arc::new(m);
        // the subscribe call is given up before the handler accepts
        let m2 = m.clone();
        let call = tokio::time::timeout(Duration::from_millis(150), async move { m2.raw_json_request(r#"{"jsonrpc":"2.0","id":1,"method":"sub","params":[]}"#, 8).await }).await;
        let given_up = call.is_err();
        ctx.go.notify_one();
        tokio::time::sleep(Duration::from_millis(150)).await;
        let id = ctx.ids.lock().unwrap().first().cloned();
        let accepted = ctx.accepted.lock().unwrap().first().cloned();
        let mut why = vec![];
        let mut unsub = Value::Null;
        if let Some(id) = &id {
            let rq = json!({"jsonrpc":"2.0","id":2,"method":"unsub","params":[id]}).to_string();
            if let Ok((rp, _)) = m.raw_json_request(&rq, 8).await {
                unsub = serde_json::from_str::<Value>(rp.get()).unwrap_or(Value::Null)["result"].clone();
            }
        }
        if !given_up {
            why.push("the subscribe call completed before the handler accepted (scenario not set up)".to_string());
        }
        if accepted == Some(false) && unsub != json!(false) {
            why.push(format!("accept() failed, yet unsubscribing that id answers {unsub} - a subscription that never became active is in the table"));
        }
        json!({"scenario":"c06_accept_fails","observed":{"call_given_up":given_up,"accept_ok":accepted,"unsubscribe":unsub},"violation":!why.is_empty(),"why":why.join(" | ")})
    })
}
