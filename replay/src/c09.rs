//! C09: whatever the server sends, and whenever the transport fails, the client shuts down with the cause (no panic, no stall).
use crate::memclient::{client, Closed, MemReceiver};
use jsonrpsee_core::client::{ClientBuilder, ClientT, Error, SubscriptionClientT, TransportSenderT};
use jsonrpsee_core::params::BatchRequestBuilder;
use jsonrpsee_core::rpc_params;
use serde_json::{json, Value};
use std::sync::Arc;
use tokio::sync::mpsc;

/// A battery of hostile server messages; after each, a pending call must finish with an error carrying the cause (or its value),
/// never time out, and a background panic must not happen. args {what: hint from the solver} - the whole battery is always run.
pub fn server_bytes(_a: &Value) -> Value {
    let mut msgs: Vec<(String, String)> = vec![];
    // valid JSON that is not JSON-RPC, with a multi-byte character at every offset around common cut-off lengths
    for cut in [64usize, 128, 256, 512, 1024] {
        for off in cut.saturating_sub(6)..=cut + 2 {
            msgs.push((format!("not-json-rpc-multibyte-at-{off}"), format!("[\"{}\u{e9}\u{20ac}{}\"]", "a".repeat(off), "b".repeat(40))));
        }
    }
    msgs.extend(vec![
        ("batch-id-u64-max".into(), json!([{"jsonrpc":"2.0","id":18446744073709551615u64,"result":1}]).to_string()),
        ("batch-ids-0-and-max".into(), json!([{"jsonrpc":"2.0","id":0,"result":1},{"jsonrpc":"2.0","id":18446744073709551615u64,"result":1}]).to_string()),
        ("single-id-u64-max".into(), json!({"jsonrpc":"2.0","id":18446744073709551615u64,"result":1}).to_string()),
        ("garbage".into(), "\u{0}\u{1}garbage".into()),
        ("empty-array".into(), "[]".into()),
        ("empty-frame".into(), "".into()),
        ("whitespace-only-frame".into(), "  \n\t ".into()),
        ("leading-whitespace-then-garbage".into(), "   x".into()),
        ("lone-bracket".into(), "[".into()),
        ("lone-brace".into(), "{".into()),
    ]);
    let panicked = Arc::new(std::sync::atomic::AtomicBool::new(false));
    let p2 = panicked.clone();
    let prev = std::panic::take_hook();
    std::panic::set_hook(Box::new(move |_| p2.store(true, std::sync::atomic::Ordering::SeqCst)));
    let rt = tokio::runtime::Builder::new_multi_thread().worker_threads(2).enable_all().build().unwrap();
    let mut bad = vec![];
    for (name, m) in msgs {
        let panicked = panicked.clone();
        let r = rt.block_on(async {
            let (c, mut s) = client(ClientBuilder::default().request_timeout(std::time::Duration::from_millis(700)));
            let c = Arc::new(c);
            let c1 = c.clone();
            let mut b = BatchRequestBuilder::new();
            b.insert("m", rpc_params![]).unwrap();
            let h = tokio::spawn(async move { c1.batch_request::<Value>(b).await.map(|_| ()) });
            let _ = s.next_request().await;
            s.push_raw(&m);
            let res = h.await;
            let timed_out = matches!(res, Ok(Err(Error::RequestTimeout)));
            tokio::time::sleep(std::time::Duration::from_millis(50)).await;
            let still_connected = c.is_connected();
            (timed_out, still_connected, format!("{res:?}").chars().take(120).collect::<String>())
        });
        let pan = panicked.swap(false, std::sync::atomic::Ordering::SeqCst);
        if pan || r.0 {
            bad.push(json!({"message":name,"background_panic":pan,"pending_batch_timed_out":r.0,"still_connected":r.1,"outcome":r.2}));
        }
    }
    std::panic::set_hook(prev);
    let violation = !bad.is_empty();
    json!({"scenario":"c09_server_bytes","observed":{"deviations":bad},"violation":violation,
           "why": if violation {"a server message made a background task panic, or a pending call stalled until the timeout"} else {""}})
}

struct FailOnUnsub(mpsc::UnboundedSender<String>);
#[derive(Debug)]
struct Injected;
impl std::fmt::Display for Injected {
    fn fmt(&self, f: &mut std::fmt::Formatter<'_>) -> std::fmt::Result { write!(f, "injected send failure") }
}
impl std::error::Error for Injected {}
impl TransportSenderT for FailOnUnsub {
    type Error = Injected;
    async fn send(&mut self, msg: String) -> Result<(), Injected> {
        if msg.contains("\"unsub\"") { return Err(Injected); }
        self.0.send(msg).map_err(|_| Injected)
    }
    /// closing takes a while, as with any real socket: the other background task runs meanwhile
    async fn close(&mut self) -> Result<(), Injected> {
        tokio::time::sleep(std::time::Duration::from_millis(100)).await;
        Ok(())
    }
}

/// the transport fails exactly on the unsubscribe call that follows a dropped subscription; a call pending then must fail with the cause
pub fn send_fails_on_unsubscribe(_a: &Value) -> Value {
    let rt = tokio::runtime::Builder::new_multi_thread().worker_threads(2).enable_all().build().unwrap();
    rt.block_on(async {
        let (c2s_tx, mut c2s_rx) = mpsc::unbounded_channel::<String>();
        let (s2c_tx, s2c_rx) = mpsc::unbounded_channel::<String>();
        let c = Arc::new(ClientBuilder::default().request_timeout(std::time::Duration::from_millis(1500)).build_with_tokio(FailOnUnsub(c2s_tx), MemReceiver(s2c_rx)));
        let c1 = c.clone();
        let h = tokio::spawn(async move { c1.subscribe::<Value, _>("sub", rpc_params![], "unsub").await });
        let rq: Value = serde_json::from_str(&c2s_rx.recv().await.unwrap()).unwrap();
        let _ = s2c_tx.send(json!({"jsonrpc":"2.0","id":rq["id"],"result":"S"}).to_string());
        let sub = h.await.unwrap().expect("accepted");
        let c2 = c.clone();
        let pending = tokio::spawn(async move { c2.request::<Value, _>("slow", rpc_params![]).await });
        let _ = c2s_rx.recv().await;
        drop(sub); // -> unsubscribe call -> transport send fails
        let res = pending.await.unwrap();
        let ok = matches!(&res, Err(Error::RestartNeeded(e)) if e.to_string().contains("injected send failure"));
        let connected = c.is_connected();
        let _ = Closed;
        let violation = !ok || connected;
        json!({"scenario":"c09_send_fails_on_unsubscribe","observed":{"pending_call": format!("{res:?}").chars().take(100).collect::<String>(),"is_connected":connected},
               "violation":violation,"why": if violation {"a transport send error was swallowed: pending call did not fail with the cause / client still reports connected"} else {""}})
    })
}

/// the connection ends with a cause while several consumers want it: two outstanding calls, a later call, on_disconnect() twice -
/// every one of them must get the cause, none the "cause unknown" placeholder
pub fn cause_for_everyone(_a: &Value) -> Value {
    let rt = tokio::runtime::Builder::new_multi_thread().worker_threads(2).enable_all().build().unwrap();
    rt.block_on(async {
        let (c, mut s) = client(ClientBuilder::default().request_timeout(std::time::Duration::from_secs(3)));
        let c = Arc::new(c);
        let (c1, c2) = (c.clone(), c.clone());
        let h1 = tokio::spawn(async move { c1.request::<Value, _>("a", rpc_params![]).await });
        let h2 = tokio::spawn(async move { c2.request::<Value, _>("b", rpc_params![]).await });
        let _ = s.next_request().await;
        let _ = s.next_request().await;
        s.push_raw("this is not json-rpc");
        let mut seen: Vec<String> = vec![];
        for h in [h1, h2] {
            seen.push(match h.await {
                Ok(Err(e)) => format!("{e:?}"),
                other => format!("unexpected: {other:?}"),
            });
        }
        seen.push(format!("{:?}", c.on_disconnect().await));
        seen.push(match c.request::<Value, _>("later", rpc_params![]).await {
            Err(e) => format!("{e:?}"),
            Ok(v) => format!("unexpected Ok({v})"),
        });
        seen.push(format!("{:?}", c.on_disconnect().await));
        let mut why = vec![];
        for (i, e) in seen.iter().enumerate() {
            if !e.contains("RestartNeeded") || e.contains("could not be found") {
                why.push(format!("consumer #{i} got {}", e.chars().take(140).collect::<String>()));
            }
        }
        if c.is_connected() {
            why.push("is_connected() still true".into());
        }
        json!({"scenario":"c09_cause_for_everyone","observed":{"consumers":seen.len()},"violation":!why.is_empty(),"why":why.join(" | ")})
    })
}
