//! C16: element-by-element params decoding agrees with a plain JSON parse of the same text and fails only with -32602.
use jsonrpsee_types::Params;
use serde_json::{json, Value};

#[derive(Debug, PartialEq, Clone)]
enum Out {
    Val(Value),
    Absent,
    Err(i32),
}

fn read(seq: &mut jsonrpsee_types::params::ParamsSequence, kind: &str, ty: &str) -> Out {
    macro_rules! go {
        ($t:ty) => {
            if kind == "next" {
                match seq.next::<$t>() {
                    Ok(v) => Out::Val(json!(v)),
                    Err(e) => Out::Err(e.code()),
                }
            } else {
                match seq.optional_next::<$t>() {
                    Ok(Some(v)) => Out::Val(json!(v)),
                    Ok(None) => Out::Absent,
                    Err(e) => Out::Err(e.code()),
                }
            }
        };
    }
    match ty {
        "u64" => go!(u64),
        "String" => go!(String),
        "bool" => go!(bool),
        _ => go!(Value),
    }
}

fn accepts(ty: &str, v: &Value) -> bool {
    match ty {
        "u64" => v.is_u64(),
        "String" => v.is_string(),
        "bool" => v.is_boolean(),
        _ => true,
    }
}

/// args {text: string|null, reads: [[kind, type], ...]}
pub fn sequence(a: &Value) -> Value {
    let text = a["text"].as_str().map(|s| s.to_string());
    let reads: Vec<(String, String)> =
        a["reads"].as_array().cloned().unwrap_or_default().iter().map(|r| (r[0].as_str().unwrap_or("next").to_string(), r[1].as_str().unwrap_or("u64").to_string())).collect();
    // what a plain JSON parse of the same text yields
    let elems: Vec<Value> = match &text {
        None => vec![],
        Some(t) => match serde_json::from_str::<Vec<Value>>(t) {
            Ok(v) => v,
            Err(e) => return json!({"scenario":"c16_sequence","skipped":true,"violation":false,"why":format!("text is not a JSON array: {e}")}),
        },
    };
    let params = Params::new(text.as_deref());
    let mut why = vec![];
    let mut observed = vec![];
    let mut kinds: Vec<&str> = vec![];
    let r = std::panic::catch_unwind(std::panic::AssertUnwindSafe(|| {
        let mut seq = params.sequence();
        let (mut i, mut failed) = (0usize, false);
        for (j, (kind, ty)) in reads.iter().enumerate() {
            let got = read(&mut seq, kind, ty);
            observed.push(format!("{got:?}"));
            kinds.push(match &got {
                Out::Val(_) => "Val",
                Out::Absent => "Absent",
                Out::Err(_) => "Err",
            });
            if let Out::Err(c) = got {
                if c != -32602 {
                    why.push(format!("read #{j}: error code {c} instead of -32602"));
                }
            }
            if failed {
                if let Out::Val(v) = &got {
                    why.push(format!("read #{j} after a failed read returned the element {v}"));
                }
                continue;
            }
            if i < elems.len() {
                let e = &elems[i];
                let is_null_opt = kind != "next" && e.is_null();
                let want = if is_null_opt {
                    Out::Absent
                } else if accepts(ty, e) {
                    Out::Val(e.clone())
                } else {
                    Out::Err(-32602)
                };
                if got != want {
                    why.push(format!("read #{j} ({kind}::<{ty}>) at element {i} = {e}: got {got:?}, a plain parse prescribes {want:?}"));
                }
                match got {
                    Out::Err(_) => failed = true,
                    _ => i += 1,
                }
            } else {
                let want = if kind == "next" { Out::Err(-32602) } else { Out::Absent };
                if got != want {
                    why.push(format!("read #{j} ({kind}::<{ty}>) past the last of {} element(s): got {got:?}, expected {want:?}", elems.len()));
                }
            }
        }
    }));
    if r.is_err() {
        why.push("a read panicked".to_string());
    }
    json!({"scenario":"c16_sequence","observed":{"reads":observed,"kinds":kinds,"elements":elems.len()},"violation":!why.is_empty(),"why":why.join(" | ")})
}

/// whole-value parsing: parse::<Vec<Value>> / one::<Value> agree with a plain parse; absent params behave as null
pub fn whole(a: &Value) -> Value {
    if a["battery"].as_bool() == Some(true) {
        let texts = [Some("[1]"), None, Some("{\"a\":1}"), Some("[ ]"), Some("[]"), Some("[1,2]"), Some("[\"x\"]"), Some("[null]"), Some("[[1,2],{\"k\":[3]}]"), Some("7"), Some("null"),
                     // text after the first complete value, unbalanced brackets, leading / trailing whitespace
                     Some("[1, 2] [3]"), Some("[7]]"), Some("null null"), Some("{\"a\": 1}}"), Some("[1],"), Some("  [1]  "), Some("[1"), Some(""), Some("[1] x")];
        let mut why = vec![];
        for t in texts {
            let r = whole(&json!({"text": t}));
            if r["violation"].as_bool() == Some(true) {
                why.push(format!("{t:?}: {}", r["why"]));
            }
        }
        return json!({"scenario":"c16_whole","observed":{"texts":texts.len()},"violation":!why.is_empty(),"why":why.join(" | ")});
    }
    let text = a["text"].as_str().map(|s| s.to_string());
    let params = Params::new(text.as_deref());
    let plain: Result<Value, _> = serde_json::from_str::<Value>(text.as_deref().unwrap_or("null"));
    let mut why = vec![];
    match (params.parse::<Value>(), &plain) {
        (Ok(v), Ok(p)) if &v == p => {}
        (Err(e), Err(_)) if e.code() == -32602 => {}
        (g, p) => why.push(format!("parse::<Value> gave {g:?}, plain parse {p:?}")),
    }
    let one = params.one::<Value>();
    let want_one = match &plain {
        Ok(Value::Array(v)) if v.len() == 1 => Some(v[0].clone()),
        _ => None,
    };
    match (one, want_one) {
        (Ok(v), Some(w)) if v == w => {}
        (Err(e), None) if e.code() == -32602 => {}
        (g, w) => why.push(format!("one::<Value> gave {g:?}, expected {w:?}")),
    }
    json!({"scenario":"c16_whole","observed":{},"violation":!why.is_empty(),"why":why.join(" | ")})
}
