//! C15 (response parser): an object is accepted exactly when it has an id, exactly one of result/error, at most one jsonrpc (null or "2.0");
//! unknown members are ignored, duplicate members rejected.
use jsonrpsee_types::{ErrorObjectOwned, Id, Response, TwoPointZero};
use serde::de::{Deserializer, MapAccess, Visitor};
use serde_json::{json, Value};

/// the members of a JSON object text in order, duplicates kept
struct Members(Vec<(String, Value)>);

impl<'de> serde::Deserialize<'de> for Members {
    fn deserialize<D: Deserializer<'de>>(d: D) -> Result<Self, D::Error> {
        struct V;
        impl<'de> Visitor<'de> for V {
            type Value = Members;
            fn expecting(&self, f: &mut std::fmt::Formatter) -> std::fmt::Result {
                f.write_str("an object")
            }
            fn visit_map<A: MapAccess<'de>>(self, mut m: A) -> Result<Members, A::Error> {
                let mut out = vec![];
                while let Some((k, v)) = m.next_entry::<String, Value>()? {
                    out.push((k, v));
                }
                Ok(Members(out))
            }
        }
        d.deserialize_map(V)
    }
}

fn prescribed(text: &str) -> Option<bool> {
    let Members(ms) = serde_json::from_str::<Members>(text).ok()?;
    let count = |k: &str| ms.iter().filter(|(n, _)| n == k).count();
    if count("id") != 1 || count("result") + count("error") != 1 || count("jsonrpc") > 1 {
        return Some(false);
    }
    for (k, v) in &ms {
        let ok = match k.as_str() {
            "id" => serde_json::from_str::<Id>(&v.to_string()).is_ok(),
            "error" => serde_json::from_value::<ErrorObjectOwned>(v.clone()).is_ok(),
            "jsonrpc" => serde_json::from_value::<Option<TwoPointZero>>(v.clone()).is_ok(),
            _ => true,
        };
        if !ok {
            return Some(false);
        }
    }
    Some(true)
}

fn one(text: &str) -> Option<String> {
    let want = prescribed(text)?;
    let got = serde_json::from_str::<Response<Value>>(text);
    if got.is_ok() != want {
        return Some(format!("{text}: parser {}, the property says {}", if got.is_ok() { "accepts" } else { "rejects" }, if want { "accept" } else { "reject" }));
    }
    if let Ok(r) = got {
        // re-serialising an accepted response yields a valid response with the same id and payload
        let again = serde_json::to_string(&r).unwrap_or_default();
        let v: Value = serde_json::from_str(&again).unwrap_or(Value::Null);
        let ms: Members = serde_json::from_str(text).unwrap();
        let id = ms.0.iter().find(|(k, _)| k == "id").map(|(_, v)| v.clone()).unwrap();
        if v["id"] != id || v.get("result").is_some() == v.get("error").is_some() {
            return Some(format!("{text}: re-serialised as {again}"));
        }
    }
    None
}

/// args {text} or {battery: true}
pub fn response(a: &Value) -> Value {
    let mut why = vec![];
    let mut n = 0;
    if let Some(t) = a["text"].as_str() {
        n += 1;
        why.extend(one(t));
    } else {
        // every sequence of <= 4 members over the five kinds, values non-null, plus null variants of single members
        let kinds = ["jsonrpc", "result", "error", "id", "x"];
        let val = |k: &str, null: bool| -> String {
            if null {
                return "null".into();
            }
            match k {
                "jsonrpc" => "\"2.0\"".into(),
                "result" => "7".into(),
                "error" => "{\"code\":-32000,\"message\":\"m\"}".into(),
                "id" => "1".into(),
                _ => "[1]".into(),
            }
        };
        let mut seqs: Vec<Vec<usize>> = vec![vec![]];
        for _ in 0..4 {
            let mut next = vec![];
            for s in &seqs {
                for k in 0..5 {
                    let mut t = s.clone();
                    t.push(k);
                    next.push(t);
                }
            }
            for s in &next {
                for null_at in std::iter::once(None).chain((0..s.len()).map(Some)) {
                    let text = format!("{{{}}}", s.iter().enumerate().map(|(i, k)| format!("\"{}\":{}", kinds[*k], val(kinds[*k], null_at == Some(i)))).collect::<Vec<_>>().join(","));
                    n += 1;
                    why.extend(one(&text));
                }
            }
            seqs = next;
        }
        for t in [r#"{"jsonrpc":"1.0","result":1,"id":1}"#, r#"{"jsonrpc":2.0,"result":1,"id":1}"#, r#"{"result":1,"id":1.5}"#, r#"{"result":1,"id":"s"}"#, r#"{"Result":1,"id":1}"#] {
            n += 1;
            why.extend(one(t));
        }
    }
    why.truncate(5);
    json!({"scenario":"c15_response","observed":{"texts":n},"violation":!why.is_empty(),"why":why.join(" | ")})
}
