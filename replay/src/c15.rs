//! C15 (response parser): an object is accepted exactly when it has an id, exactly one of result/error, at most one jsonrpc (null or "2.0");
//! unknown members are ignored, duplicate members rejected.
use jsonrpsee_types::{ErrorObjectOwned, Id, Response, TwoPointZero};
use serde::de::{Deserializer, MapAccess, Visitor};
use serde_json::{json, Value};

/// the members of a JSON object text in order, duplicates kept
struct Members(Vec<(String, Value)>);

impl<'de> serde::Deserialize<'de> for Members {
    fn deserialize<D: Deserializer<'de>>(d: D) -> Result<Self, D::Error> {
        struct V;
        impl<'de> Visitor<'de> for V {
            type Value = Members;
            fn expecting(&self, f: &mut std::fmt::Formatter) -> std::fmt::Result {
                f.write_str("an object")
            }
            fn visit_map<A: MapAccess<'de>>(self, mut m: A) -> Result<Members, A::Error> {
                let mut out = vec![];
                while let Some((k, v)) = m.next_entry::<String, Value>()? {
                    out.push((k, v));
                }
                Ok(Members(out))
            }
        }
        d.deserialize_map(V)
    }
}

fn prescribed(text: &str) -> Option<bool> {
    let Members(ms) = serde_json::from_str::<Members>(text).ok()?;
    let count = |k: &str| ms.iter().filter(|(n, _)| n == k).count();
    if count("id") != 1 || count("result") + count("error") != 1 || count("jsonrpc") > 1 {
        return Some(false);
    }
    for (k, v) in &ms {
        let ok = match k.as_str() {
            "id" => serde_json::from_str::<Id>(&v.to_string()).is_ok(),
            "error" => serde_json::from_value::<ErrorObjectOwned>(v.clone()).is_ok(),
            "jsonrpc" => serde_json::from_value::<Option<TwoPointZero>>(v.clone()).is_ok(),
            _ => true,
        };
        if !ok {
            return Some(false);
        }
    }
    Some(true)
}

fn one(text: &str) -> Option<String> {
    let want = prescribed(text)?;
    let got = serde_json::from_str::<Response<Value>>(text);
    if got.is_ok() != want {
        return Some(format!("{text}: parser {}, the property says {}", if got.is_ok() { "accepts" } else { "rejects" }, if want { "accept" } else { "reject" }));
    }
    if let Ok(r) = got {
        // re-serialising an accepted response yields a valid response with the same id and payload
        let again = serde_json::to_string(&r).unwrap_or_default();
        let v: Value = serde_json::from_str(&again).unwrap_or(Value::Null);
        let ms: Members = serde_json::from_str(text).unwrap();
        let id = ms.0.iter().find(|(k, _)| k == "id").map(|(_, v)| v.clone()).unwrap();
        if v["id"] != id || v.get("result").is_some() == v.get("error").is_some() {
            return Some(format!("{text}: re-serialised as {again}"));
        }
    }
    None
}

/// args {text} or {battery: true}
pub fn response(a: &Value) -> Value {
    let mut why = vec![];
    let mut n = 0;
    if let Some(t) = a["text"].as_str() {
        n += 1;
        why.extend(one(t));
    } else {
        // every sequence of <= 4 members over the five kinds, values non-null, plus null variants of single members
        let kinds = ["jsonrpc", "result", "error", "id", "x"];
        let val = |k: &str, null: bool| -> String {
            if null {
                return "null".into();
            }
            match k {
                "jsonrpc" => "\"2.0\"".into(),
                "result" => "7".into(),
                "error" => "{\"code\":-32000,\"message\":\"m\"}".into(),
                "id" => "1".into(),
                _ => "[1]".into(),
            }
        };
        let mut seqs: Vec<Vec<usize>> = vec![vec![]];
        for _ in 0..4 {
            let mut next = vec![];
            for s in &seqs {
                for k in 0..5 {
                    let mut t = s.clone();
                    t.push(k);
                    next.push(t);
                }
            }
            for s in &next {
                for null_at in std::iter::once(None).chain((0..s.len()).map(Some)) {
                    let text = format!("{{{}}}", s.iter().enumerate().map(|(i, k)| format!("\"{}\":{}", kinds[*k], val(kinds[*k], null_at == Some(i)))).collect::<Vec<_>>().join(","));
                    n += 1;
                    why.extend(one(&text));
                }
            }
            seqs = next;
        }
        for t in [r#"{"jsonrpc":"1.0","result":1,"id":1}"#, r#"{"jsonrpc":2.0,"result":1,"id":1}"#, r#"{"result":1,"id":1.5}"#, r#"{"result":1,"id":"s"}"#, r#"{"Result":1,"id":1}"#] {
            n += 1;
            why.extend(one(t));
        }
    }
    why.truncate(5);
    json!({"scenario":"c15_response","observed":{"texts":n},"violation":!why.is_empty(),"why":why.join(" | ")})
}

/// what the library writes for a response: exactly the members jsonrpc (when the value has one), id, and one of result / error -
/// each the value's own - and the text parses back to an equal response
fn id_json(id: &Id) -> Value {
    // the JSON an id is, independently of the library's serializer
    match id {
        Id::Null => Value::Null,
        Id::Number(n) => json!(n),
        Id::Str(s) => json!(s.as_ref()),
    }
}

pub fn serialize(_a: &Value) -> Value {
    use jsonrpsee_types::ResponsePayload;
    let mut why = vec![];
    let mut n = 0;
    let ids = vec![Id::Null, Id::Number(0), Id::Number(u64::MAX), Id::Str("".into()), Id::Str("a\"b\\c\u{1F600}".into())];
    for id in &ids {
        for version in [true, false] {
            for success in [true, false] {
                n += 1;
                let payload: ResponsePayload<Value> = if success {
                    ResponsePayload::success(json!({"error": 1, "id": 2, "result": [3]}))
                } else {
                    ResponsePayload::error(ErrorObjectOwned::owned(-32001, "msg \"quoted\"", Some(json!({"result": 1}))))
                };
                let mut r = Response::new(payload, id.clone());
                if !version {
                    r.jsonrpc = None;
                }
                let text = match serde_json::to_string(&r) {
                    Ok(t) => t,
                    Err(e) => {
                        why.push(format!("serialisation failed: {e}"));
                        continue;
                    }
                };
                let Ok(Members(ms)) = serde_json::from_str::<Members>(&text) else {
                    why.push(format!("not a JSON object: {text}"));
                    continue;
                };
                let mut want: Vec<(String, Value)> = vec![];
                if version {
                    want.push(("jsonrpc".into(), json!("2.0")));
                }
                want.push(("id".into(), id_json(id)));
                if success {
                    want.push(("result".into(), json!({"error": 1, "id": 2, "result": [3]})));
                } else {
                    want.push(("error".into(), json!({"code": -32001, "message": "msg \"quoted\"", "data": {"result": 1}})));
                }
                let mut got = ms.clone();
                got.sort_by(|a, b| a.0.cmp(&b.0));
                want.sort_by(|a, b| a.0.cmp(&b.0));
                if got != want {
                    why.push(format!("members written {text} differ from the value's own {want:?}"));
                    continue;
                }
                // parses back to an equal value, and re-serialises to the same bytes
                match serde_json::from_str::<Response<Value>>(&text) {
                    Ok(back) => {
                        let again = serde_json::to_string(&back).unwrap_or_default();
                        if version && again != text {
                            why.push(format!("re-serialising gives {again} instead of {text}"));
                        }
                        if back.id != *id {
                            why.push(format!("id {:?} came back as {:?}", id, back.id));
                        }
                    }
                    Err(e) => why.push(format!("own output does not parse back: {e}: {text}")),
                }
            }
        }
    }
    // the other objects the library writes: members exactly as JSON-RPC 2.0 has them, and the text parses back to an equal value
    use jsonrpsee_types::{Notification, Request, SubscriptionId, SubscriptionPayload};
    let members = |text: &str| -> Option<Vec<(String, Value)>> { serde_json::from_str::<Members>(text).ok().map(|m| m.0) };
    let raw = serde_json::value::to_raw_value(&json!([1, {"method": "x"}])).unwrap();
    let empty_arr = serde_json::value::to_raw_value(&json!([])).unwrap();
    let empty_obj = serde_json::value::to_raw_value(&json!({})).unwrap();
    // (params, when present, are a structured value - array or object - in JSON-RPC 2.0: `null` params are not part of the round-trip claim)
    for id in &ids {
        for params in [None, Some(&*raw), Some(&*empty_arr), Some(&*empty_obj)] {
            n += 1;
            let rq = Request::borrowed("say \"hi\"", params, id.clone());
            let text = serde_json::to_string(&rq).unwrap_or_default();
            let mut want = vec![("jsonrpc".to_string(), json!("2.0")), ("id".into(), id_json(id)), ("method".into(), json!("say \"hi\""))];
            if let Some(p) = params {
                want.push(("params".into(), serde_json::from_str::<Value>(p.get()).unwrap()));
            }
            if members(&text) != Some(want.clone()) {
                why.push(format!("request written as {text}, expected members {want:?}"));
                continue;
            }
            match serde_json::from_str::<Request>(&text) {
                Ok(back) => {
                    if back.id != *id || back.method != "say \"hi\"" || back.params.as_ref().map(|p| p.get().to_string()) != params.map(|p| p.get().to_string()) {
                        why.push(format!("request {text} parses back differently"));
                    }
                    if serde_json::to_string(&back).unwrap_or_default() != text {
                        why.push(format!("request {text} re-serialises differently"));
                    }
                }
                Err(e) => why.push(format!("own request does not parse back: {e}: {text}")),
            }
        }
    }
    {
        n += 1;
        let nt = Notification::new("evt".into(), json!({"id": 1}));
        let text = serde_json::to_string(&nt).unwrap_or_default();
        let want = vec![("jsonrpc".to_string(), json!("2.0")), ("method".into(), json!("evt")), ("params".into(), json!({"id": 1}))];
        if members(&text) != Some(want.clone()) {
            why.push(format!("notification written as {text}, expected members {want:?}"));
        }
        let nt = Notification::new("evt".into(), Option::<Value>::None);
        let text = serde_json::to_string(&nt).unwrap_or_default();
        let want = vec![("jsonrpc".to_string(), json!("2.0")), ("method".into(), json!("evt")), ("params".into(), Value::Null)];
        if members(&text) != Some(want.clone()) {
            why.push(format!("notification written as {text}, expected members {want:?}"));
        }
        for sid in [SubscriptionId::Num(u64::MAX), SubscriptionId::Str("s\"1".into())] {
            n += 1;
            let sp = Notification::new("sub".into(), SubscriptionPayload { subscription: sid.clone(), result: json!([1]) });
            let text = serde_json::to_string(&sp).unwrap_or_default();
            let inner = vec![("subscription".to_string(), match &sid { SubscriptionId::Num(n) => json!(n), SubscriptionId::Str(t) => json!(t.as_ref()) }), ("result".into(), json!([1]))];
            let got = members(&text).and_then(|ms| ms.iter().find(|(k, _)| k == "params").map(|(_, v)| v.clone()));
            let mut got_inner = got.as_ref().and_then(|v| members(&v.to_string()));
            let mut inner = inner;
            inner.sort_by(|a, b| a.0.cmp(&b.0));
            if let Some(g) = got_inner.as_mut() {
                g.sort_by(|a, b| a.0.cmp(&b.0));
            }
            if got_inner != Some(inner.clone()) {
                why.push(format!("subscription notification written as {text}, expected params members {inner:?}"));
            }
            match serde_json::from_str::<Notification<SubscriptionPayload<Value>>>(&text) {
                Ok(back) => {
                    if back.params.subscription != sid || back.params.result != json!([1]) {
                        why.push(format!("subscription notification {text} parses back differently"));
                    }
                }
                Err(e) => why.push(format!("own subscription notification does not parse back: {e}: {text}")),
            }
        }
        for (data, has) in [(None, false), (Some(json!({"code": 1})), true)] {
            n += 1;
            let e = ErrorObjectOwned::owned(-32000, "m", data.clone());
            let text = serde_json::to_string(&e).unwrap_or_default();
            let mut want = vec![("code".to_string(), json!(-32000)), ("message".into(), json!("m"))];
            if has {
                want.push(("data".into(), json!({"code": 1})));
            }
            if members(&text) != Some(want.clone()) {
                why.push(format!("error object written as {text}, expected members {want:?}"));
            }
            match serde_json::from_str::<ErrorObjectOwned>(&text) {
                Ok(back) => {
                    if back != e {
                        why.push(format!("error object {text} parses back differently"));
                    }
                }
                Err(er) => why.push(format!("own error object does not parse back: {er}: {text}")),
            }
        }
    }
    json!({"scenario":"c15_serialize","observed":{"values":n},"violation":!why.is_empty(),"why":why.join(" | ")})
}

/// scalar members on the way in: a version string written with JSON escapes is still "2.0"; an error code outside i32 is refused, not wrapped
pub fn parse(_a: &Value) -> Value {
    use jsonrpsee_types::{Notification, Request};
    let mut why = vec![];
    let esc = r#""2\u002e0""#;
    let t1 = format!(r#"{{"jsonrpc":{esc},"id":7,"result":99}}"#);
    if let Err(e) = serde_json::from_str::<Response<u64>>(&t1) {
        why.push(format!("a response whose version is written {esc} is refused: {e}"));
    }
    let t2 = format!(r#"{{"jsonrpc":{esc},"id":7,"method":"m"}}"#);
    if let Err(e) = serde_json::from_str::<Request>(&t2) {
        why.push(format!("a request whose version is written {esc} is refused: {e}"));
    }
    let t3 = format!(r#"{{"jsonrpc":{esc},"method":"m","params":null}}"#);
    if let Err(e) = serde_json::from_str::<Notification<Option<Value>>>(&t3) {
        why.push(format!("a notification whose version is written {esc} is refused: {e}"));
    }
    // also through an owning reader (no borrowed strings available)
    if let Err(e) = serde_json::from_reader::<_, TwoPointZero>(r#""2.0""#.as_bytes()) {
        why.push(format!("the version read from a stream is refused: {e}"));
    }
    for other in [r#""2.00""#, r#""1.0""#, r#""""#, "2.0", "2"] {
        if serde_json::from_str::<Response<u64>>(&format!(r#"{{"jsonrpc":{other},"id":7,"result":99}}"#)).is_ok() {
            why.push(format!("version {other} is accepted"));
        }
    }
    for code in ["2147483648", "4294934596", "-2147483649", "9223372036854775807", "1.5"] {
        let text = format!(r#"{{"code":{code},"message":"m"}}"#);
        if let Ok(e) = serde_json::from_str::<ErrorObjectOwned>(&text) {
            why.push(format!("error code {code} (outside i32) is accepted as {}", e.code()));
        }
    }
    for code in [i32::MIN as i64, -32700, -32000, -1, 0, 1, i32::MAX as i64] {
        let text = format!(r#"{{"code":{code},"message":"m"}}"#);
        match serde_json::from_str::<ErrorObjectOwned>(&text) {
            Ok(e) => {
                if e.code() as i64 != code || serde_json::to_string(&e).unwrap_or_default() != text {
                    why.push(format!("error code {code} comes back as {}", e.code()));
                }
            }
            Err(er) => why.push(format!("error code {code} is refused: {er}")),
        }
    }
    json!({"scenario":"c15_parse","observed":{},"violation":!why.is_empty(),"why":why.join(" | ")})
}
