//! C10: after stop(), calls whose handler has started are still run to completion and answered; `stopped` resolves only after that.
use jsonrpsee_server::{RpcModule, Server};
use serde_json::{json, Value};
use std::sync::{Arc, Mutex};
use std::time::{Duration, Instant};
use tokio::io::{AsyncReadExt, AsyncWriteExt};
use tokio::net::TcpStream;
use tokio_util::compat::TokioAsyncReadCompatExt;

type Log = Arc<Mutex<Vec<(String, Instant)>>>;

fn module(log: Log) -> RpcModule<Log> {
    let mut m = RpcModule::new(log);
    m.register_async_method("slow", |p, log, _| async move {
        let tag: u64 = p.one().unwrap_or(0);
        log.lock().unwrap().push((format!("start {tag}"), Instant::now()));
        tokio::time::sleep(Duration::from_millis(700)).await;
        log.lock().unwrap().push((format!("end {tag}"), Instant::now()));
        format!("done {tag}")
    })
    .unwrap();
    m.register_method("echo", |_, log, _| {
        log.lock().unwrap().push(("echo".into(), Instant::now()));
        "ok"
    })
    .unwrap();
    m
}

fn at(log: &Log, what: &str) -> Option<Instant> {
    log.lock().unwrap().iter().find(|(w, _)| w == what).map(|(_, t)| *t)
}

async fn phase(transport: &str, why: &mut Vec<String>) {
    let log: Log = Default::default();
    let low_level = transport.starts_with("low-level-");
    let (addr, handle) = if low_level {
        // the documented low-level assembly: a service per connection from the service builder, driven by serve_with_graceful_shutdown
        use jsonrpsee_server::{serve_with_graceful_shutdown, stop_channel};
        let listener = tokio::net::TcpListener::bind("127.0.0.1:0").await.unwrap();
        let addr = listener.local_addr().unwrap();
        let (stop_handle, server_handle) = stop_channel();
        let svc_builder = Server::builder().to_service_builder();
        let methods = module(log.clone());
        tokio::spawn(async move {
            loop {
                let (sock, _) = tokio::select! {
                    r = listener.accept() => match r { Ok(s) => s, Err(_) => continue },
                    _ = stop_handle.clone().shutdown() => break,
                };
                let svc = svc_builder.clone().build(methods.clone(), stop_handle.clone());
                let conn_stop = stop_handle.clone();
                tokio::spawn(async move {
                    let _ = serve_with_graceful_shutdown(sock, svc, conn_stop.clone().shutdown()).await;
                    drop(conn_stop);
                });
            }
        });
        (addr, server_handle)
    } else {
        // (a keep-alive timeout shorter than the handler: it concerns idle HTTP/2 connections and must not bound the drain of calls in flight)
        let cfg = jsonrpsee_server::ServerConfig::builder().set_keep_alive_timeout(Duration::from_millis(200));
        // "ws-missed-ping": pings are on and the peer was late with a pong or two - far below the failure limit; the connection is open and its call is owed an answer
        let cfg = if transport == "ws-missed-ping" {
            cfg.enable_ws_ping(jsonrpsee_server::PingConfig::new().ping_interval(Duration::from_millis(100)).inactive_limit(Duration::from_millis(50)).max_failures(1000))
        } else {
            cfg
        };
        let cfg = cfg.build();
        let server = Server::builder().set_config(cfg).build("127.0.0.1:0").await.unwrap();
        (server.local_addr().unwrap(), server.start(module(log.clone())))
    };
    let transport_kind = if transport == "ws-missed-ping" { "ws" } else { transport.trim_start_matches("low-level-") };
    let call = r#"{"jsonrpc":"2.0","id":1,"method":"slow","params":[7]}"#;
    // the in-flight call
    let answer: tokio::task::JoinHandle<(Option<String>, Instant)> = if transport_kind == "ws" {
        let sock = TcpStream::connect(addr).await.unwrap();
        let host = addr.to_string();
        let mut client = soketto::handshake::Client::new(sock.compat(), &host, "/");
        let _ = client.handshake().await.unwrap();
        let (mut tx, mut rx) = client.into_builder().finish();
        tx.send_text(call).await.unwrap();
        tx.flush().await.unwrap();
        tokio::spawn(async move {
            let _keep = tx;
            let mut buf = Vec::new();
            let r = tokio::time::timeout(Duration::from_secs(5), rx.receive_data(&mut buf)).await;
            (if matches!(r, Ok(Ok(_))) { Some(String::from_utf8_lossy(&buf).to_string()) } else { None }, Instant::now())
        })
    } else {
        tokio::spawn(async move {
            let mut sock = TcpStream::connect(addr).await.unwrap();
            let rq = format!("POST / HTTP/1.1\r\nHost: {addr}\r\nContent-Type: application/json\r\nConnection: close\r\nContent-Length: {}\r\n\r\n{}", call.len(), call);
            let _ = sock.write_all(rq.as_bytes()).await;
            let mut out = Vec::new();
            let _ = tokio::time::timeout(Duration::from_secs(5), sock.read_to_end(&mut out)).await;
            let txt = String::from_utf8_lossy(&out).to_string();
            (txt.split("\r\n\r\n").nth(1).map(|s| s.to_string()), Instant::now())
        })
    };
    // wait until the handler has started, then stop
    for _ in 0..50 {
        if at(&log, "start 7").is_some() {
            break;
        }
        tokio::time::sleep(Duration::from_millis(10)).await;
    }
    if at(&log, "start 7").is_none() {
        why.push(format!("{transport}: the handler never started"));
        return;
    }
    if transport == "ws-missed-ping" {
        tokio::time::sleep(Duration::from_millis(350)).await;
    }
    let stop_at = Instant::now();
    if handle.stop().is_err() {
        why.push(format!("{transport}: first stop() failed"));
    }
    if handle.stop().is_ok() && false {
        // a second stop may answer either way; it must simply not panic or hang
    }
    let h2 = handle.clone();
    let stopped = tokio::spawn(async move {
        h2.stopped().await;
        Instant::now()
    });
    let stopped_at = match tokio::time::timeout(Duration::from_secs(6), stopped).await {
        Ok(Ok(t)) => Some(t),
        _ => None,
    };
    let (body, answered_at) = answer.await.unwrap_or((None, Instant::now()));
    let end = at(&log, "end 7");
    match &body {
        Some(b) if b.contains("done 7") => {}
        other => why.push(format!("{transport}: the call whose handler had started before stop() was not answered: {other:?}")),
    }
    if end.is_none() {
        why.push(format!("{transport}: the handler that had started before stop() was not run to completion"));
    }
    match (stopped_at, end) {
        (None, _) => why.push(format!("{transport}: `stopped` did not resolve within 6 s")),
        (Some(s), Some(e)) if s < e => why.push(format!("{transport}: `stopped` resolved {:?} before the started handler finished", e - s)),
        (Some(s), _) if body.is_some() && s + Duration::from_millis(40) < answered_at => {
            why.push(format!("{transport}: `stopped` resolved {:?} before the answer reached the client", answered_at - s))
        }
        _ => {}
    }
    let _ = stop_at;
    // nothing is executed after `stopped` resolved
    let before = log.lock().unwrap().len();
    if let Ok(mut sock) = TcpStream::connect(addr).await {
        let c = r#"{"jsonrpc":"2.0","id":2,"method":"echo"}"#;
        let rq = format!("POST / HTTP/1.1\r\nHost: {addr}\r\nContent-Type: application/json\r\nConnection: close\r\nContent-Length: {}\r\n\r\n{}", c.len(), c);
        let _ = sock.write_all(rq.as_bytes()).await;
        let mut out = Vec::new();
        let _ = tokio::time::timeout(Duration::from_millis(500), sock.read_to_end(&mut out)).await;
    }
    if log.lock().unwrap().len() != before {
        why.push(format!("{transport}: a call first sent after `stopped` resolved was executed"));
    }
    drop(handle);
}

/// answers still waiting in the connection queue when the server stops are written before the writer honours the stop signal:
/// a big answer blocks the writer (the client is not reading yet), a second answer is queued behind it, then the client reads
async fn queued_answers_phase(why: &mut Vec<String>) {
    use tokio::sync::Notify;
    struct Gates {
        big: Notify,
        small: Notify,
        started: Mutex<u32>,
    }
    let gates = Arc::new(Gates { big: Notify::new(), small: Notify::new(), started: Mutex::new(0) });
    let mut m = RpcModule::new(gates.clone());
    m.register_async_method("big", |_, g, _| async move {
        *g.started.lock().unwrap() += 1;
        g.big.notified().await;
        "b".repeat(48 * 1024 * 1024)
    })
    .unwrap();
    m.register_async_method("small", |_, g, _| async move {
        *g.started.lock().unwrap() += 1;
        g.small.notified().await;
        "small answer"
    })
    .unwrap();
    let server = Server::builder().set_config(jsonrpsee_server::ServerConfig::builder().max_response_body_size(64 * 1024 * 1024).build()).build("127.0.0.1:0").await.unwrap();
    let addr = server.local_addr().unwrap();
    let handle = server.start(m);
    let sock = TcpStream::connect(addr).await.unwrap();
    let host = addr.to_string();
    let mut client = soketto::handshake::Client::new(sock.compat(), &host, "/");
    let _ = client.handshake().await.unwrap();
    let mut builder = client.into_builder();
    builder.set_max_message_size(64 * 1024 * 1024);
    builder.set_max_frame_size(64 * 1024 * 1024);
    let (mut tx, mut rx) = builder.finish();
    tx.send_text(r#"{"jsonrpc":"2.0","id":1,"method":"big"}"#).await.unwrap();
    tx.send_text(r#"{"jsonrpc":"2.0","id":2,"method":"small"}"#).await.unwrap();
    tx.flush().await.unwrap();
    for _ in 0..100 {
        if *gates.started.lock().unwrap() == 2 {
            break;
        }
        tokio::time::sleep(Duration::from_millis(10)).await;
    }
    let _ = handle.stop();
    gates.big.notify_one();
    tokio::time::sleep(Duration::from_millis(400)).await;
    gates.small.notify_one();
    tokio::time::sleep(Duration::from_millis(400)).await;
    // the client has read nothing yet: 48 MiB cannot have been written, so `stopped` must still be pending
    let h2 = handle.clone();
    let mut stopped = Box::pin(async move { h2.stopped().await });
    // (serialising the big answer takes its time in an unoptimised build: the window is generous)
    let resolved_early = tokio::time::timeout(Duration::from_secs(5), &mut stopped).await.is_ok();
    if resolved_early {
        why.push("ws-queue: `stopped` resolved although answers of calls started before stop() were still waiting to be written".to_string());
    }
    // now the client starts reading: both answers must arrive before the connection is closed
    let mut got = vec![];
    let mut buf = Vec::new();
    for _ in 0..2 {
        buf.clear();
        match tokio::time::timeout(Duration::from_secs(20), rx.receive_data(&mut buf)).await {
            Ok(Ok(_)) => {
                let id = if buf.len() > 1000 { 1 } else { serde_json::from_slice::<Value>(&buf).ok().and_then(|v| v["id"].as_u64()).unwrap_or(0) };
                got.push(id);
            }
            _ => break,
        }
    }
    got.sort();
    if got != vec![1, 2] {
        why.push(format!("ws-queue: of the two calls started before stop() only the answers {got:?} arrived; both must be written before the connection is closed"));
    }
    if !resolved_early && got == vec![1, 2] && tokio::time::timeout(Duration::from_secs(6), &mut stopped).await.is_err() {
        why.push("ws-queue: `stopped` did not resolve after all answers were written".to_string());
    }
    drop(tx);
    drop(handle);
}

pub fn graceful_stop(_a: &Value) -> Value {
    let rt = tokio::runtime::Builder::new_multi_thread().worker_threads(3).enable_all().build().unwrap();
    rt.block_on(async move {
        let mut why: Vec<String> = vec![];
        phase("ws", &mut why).await;
        phase("http", &mut why).await;
        phase("low-level-http", &mut why).await;
        phase("low-level-ws", &mut why).await;
        phase("ws-missed-ping", &mut why).await;
        queued_answers_phase(&mut why).await;
        json!({"scenario":"c10_graceful_stop","observed":{},"violation":!why.is_empty(),"why":why.join(" | ")})
    })
}
