//! C17: calls through the generated client stubs reach the generated server callbacks with equal arguments (fixture family /verif/fixture17).
use jsonrpsee_core::client::{BatchResponse, ClientT, Error, Subscription, SubscriptionClientT};
use jsonrpsee_core::params::BatchRequestBuilder;
use jsonrpsee_core::traits::ToRpcParams;
use jsonrpsee_core::{async_trait, RpcResult, SubscriptionResult};
use jsonrpsee_core::server::{Methods, PendingSubscriptionSink};
use jv_fixture17::{AlphaClient, AlphaServer, BetaClient, BetaServer, GammaClient, GammaServer, Point, Shape};
use serde::de::DeserializeOwned;
use serde_json::{json, Value};
use std::sync::{Arc, Mutex};

type Log = Arc<Mutex<Vec<String>>>;

struct Impl(Log);

#[async_trait]
impl AlphaServer for Impl {
    fn m0(&self) -> RpcResult<u64> {
        self.0.lock().unwrap().push("m0".into());
        Ok(77)
    }
    async fn m1(&self, a: u64) -> RpcResult<u64> {
        Ok(a)
    }
    fn m3opt(&self, a: u32, b: Option<u32>, c: Option<String>) -> RpcResult<(u32, Option<u32>, Option<String>)> {
        Ok((a, b, c))
    }
    async fn m4(&self, a: i64, b: String, c: Point, d: Vec<Shape>) -> RpcResult<(i64, String, Point, Vec<Shape>)> {
        Ok((a, b, c, d))
    }
    fn blk(&self, a: String, b: Option<Point>) -> RpcResult<(String, Option<Point>)> {
        Ok((a, b))
    }
    async fn feed(&self, pending: PendingSubscriptionSink) -> SubscriptionResult {
        self.0.lock().unwrap().push("feed".into());
        if let Ok(sink) = pending.accept().await {
            let _ = sink.send(serde_json::value::to_raw_value(&1u8).unwrap()).await;
            sink.closed().await;
        }
        Ok(())
    }
    async fn sub(&self, pending: PendingSubscriptionSink, from: u64, step: Option<u64>) -> SubscriptionResult {
        self.0.lock().unwrap().push(format!("sub({from},{step:?})"));
        if let Ok(sink) = pending.accept().await {
            let _ = sink.send(serde_json::value::to_raw_value(&1u8).unwrap()).await;
            sink.closed().await;
        }
        Ok(())
    }
}

#[async_trait]
impl BetaServer for Impl {
    async fn named(&self, first_arg: u32, second: Option<String>) -> RpcResult<(u32, Option<String>)> {
        Ok((first_arg, second))
    }
    fn arr(&self, a: bool, b: Option<bool>) -> RpcResult<(bool, Option<bool>)> {
        Ok((a, b))
    }
    fn renamed(&self, id: u64, entry: Option<u32>, type_: Option<u8>) -> RpcResult<(u64, Option<u32>, Option<u8>)> {
        Ok((id, entry, type_))
    }
    async fn watch(&self, pending: PendingSubscriptionSink, key: String) -> SubscriptionResult {
        self.0.lock().unwrap().push(format!("watch({key:?})"));
        if let Ok(sink) = pending.accept().await {
            let _ = sink.send(serde_json::value::to_raw_value(&1u8).unwrap()).await;
            sink.closed().await;
        }
        Ok(())
    }
}

impl GammaServer for Impl {
    fn one(&self, a: Option<u8>) -> RpcResult<Option<u8>> {
        Ok(a)
    }
}

/// a client whose transport is the in-process module
struct Loop {
    methods: Methods,
    sent: Log,
    /// the per-call outgoing channels stay open (a subscription ends when its channel closes)
    keep: Mutex<Vec<tokio::sync::mpsc::Receiver<Box<serde_json::value::RawValue>>>>,
}

impl Loop {
    async fn call_raw(&self, method: &str, params: Option<Box<serde_json::value::RawValue>>) -> Result<Value, Error> {
        let p = params.map(|p| p.get().to_string());
        let req = match &p {
            Some(p) => format!(r#"{{"jsonrpc":"2.0","id":0,"method":{},"params":{}}}"#, serde_json::to_string(method).unwrap(), p),
            None => format!(r#"{{"jsonrpc":"2.0","id":0,"method":{}}}"#, serde_json::to_string(method).unwrap()),
        };
        self.sent.lock().unwrap().push(req.clone());
        let (rp, rx) = self.methods.raw_json_request(&req, 8).await.map_err(|e| Error::Custom(e.to_string()))?;
        self.keep.lock().unwrap().push(rx);
        let v: Value = serde_json::from_str(rp.get()).map_err(|e| Error::Custom(e.to_string()))?;
        if let Some(e) = v.get("error") {
            return Err(Error::Custom(format!("error object {e}")));
        }
        Ok(v["result"].clone())
    }
}

impl ClientT for Loop {
    async fn notification<Params: ToRpcParams + Send>(&self, _method: &str, _params: Params) -> Result<(), Error> {
        Ok(())
    }
    async fn request<R: DeserializeOwned, Params: ToRpcParams + Send>(&self, method: &str, params: Params) -> Result<R, Error> {
        let p = params.to_rpc_params().map_err(|e| Error::Custom(e.to_string()))?;
        let v = self.call_raw(method, p).await?;
        serde_json::from_value(v).map_err(|e| Error::Custom(e.to_string()))
    }
    async fn batch_request<'a, R: DeserializeOwned + std::fmt::Debug + 'a>(&self, _b: BatchRequestBuilder<'a>) -> Result<BatchResponse<'a, R>, Error> {
        Err(Error::Custom("not used".into()))
    }
}

impl SubscriptionClientT for Loop {
    async fn subscribe<'a, Notif: DeserializeOwned, Params: ToRpcParams + Send>(&self, sub: &'a str, params: Params, unsub: &'a str) -> Result<Subscription<Notif>, Error> {
        let p = params.to_rpc_params().map_err(|e| Error::Custom(e.to_string()))?;
        let id = self.call_raw(sub, p).await?;
        // the unsubscribe name must be registered too: unsubscribing the fresh id answers true
        let ok = self.call_raw(unsub, Some(serde_json::value::to_raw_value(&json!([id])).unwrap())).await?;
        Err(Error::Custom(format!("mock-subscribed unsub={ok}")))
    }
    async fn subscribe_to_method<Notif: DeserializeOwned>(&self, _m: &str) -> Result<Subscription<Notif>, Error> {
        Err(Error::Custom("not used".into()))
    }
}

pub fn roundtrip(_a: &Value) -> Value {
    let rt = tokio::runtime::Builder::new_multi_thread().worker_threads(2).enable_all().build().unwrap();
    rt.block_on(async move {
        let log: Log = Default::default();
        let mut m = AlphaServer::into_rpc(Impl(log.clone()));
        m.merge(BetaServer::into_rpc(Impl(log.clone()))).unwrap();
        m.merge(GammaServer::into_rpc(Impl(log.clone()))).unwrap();
        let c = Loop { methods: m.into(), sent: Default::default(), keep: Default::default() };
        let mut why: Vec<String> = vec![];
        macro_rules! expect {
            ($what:expr, $got:expr, $want:expr) => {{
                let what = $what;
                let got = $got;
                let want = $want;
                match got {
                    Ok(v) if v == want => {}
                    other => why.push(format!("{}: got {:?}, expected {:?}", what, other.map_err(|e: Error| e.to_string()), want)),
                }
            }};
        }
        // ---- the notifications of a generated subscription carry the declared notification name (by default the subscribe name), namespaced
        for (method, params, notif) in [("ns.sub", json!([5, 1]), "ns.item"), ("ns.feed", json!([]), "ns.fed"), ("watch", json!({"key": "k"}), "watch")] {
            let rq = json!({"jsonrpc":"2.0","id":1,"method":method,"params":params}).to_string();
            match c.methods.raw_json_request(&rq, 8).await {
                Ok((rp, mut rx)) => {
                    let v: Value = serde_json::from_str(rp.get()).unwrap_or(Value::Null);
                    match tokio::time::timeout(std::time::Duration::from_secs(5), rx.recv()).await {
                        Ok(Some(n)) => {
                            let n: Value = serde_json::from_str(n.get()).unwrap_or(Value::Null);
                            if n["method"] != json!(notif) || n["params"]["subscription"] != v["result"] {
                                why.push(format!("{method}: notification {n} does not carry the declared name {notif:?} and the id {} the subscribe call was answered with", v["result"]));
                            }
                        }
                        other => why.push(format!("{method}: no notification after {v}: {:?}", other.map(|o| o.map(|r| r.get().to_string())))),
                    }
                }
                Err(e) => why.push(format!("{method}: {e}")),
            }
        }
        log.lock().unwrap().clear();
        // ---- through the generated client stubs
        expect!("m0()", AlphaClient::m0(&c).await, 77u64);
        for a in [0u64, 1, u64::MAX, 1 << 53, (1 << 53) + 1] {
            expect!(format!("m1({a})"), AlphaClient::m1(&c, a).await, a);
        }
        let strings = ["", "plain", "quote\" back\\slash", "uni \u{1F600} \u{0} \n\t", "[1,2]", "null"];
        for (a, b, cc) in [(0u32, None, None), (u32::MAX, Some(0u32), None), (7, None, Some("x".to_string())), (1, Some(u32::MAX), Some(strings[3].to_string()))] {
            expect!(format!("m3opt({a},{b:?},{cc:?})"), AlphaClient::m3opt(&c, a, b, cc.clone()).await, (a, b, cc));
        }
        for s in strings {
            let p = Point { x: i64::MIN, tag: s.to_string(), inner: vec![None, Some(0), Some(255)] };
            let d = vec![Shape::Dot, Shape::Line(0, u32::MAX), Shape::Named { name: s.to_string() }];
            expect!(format!("m4(.., {s:?})"), AlphaClient::m4(&c, i64::MAX, s.to_string(), p.clone(), d.clone()).await, (i64::MAX, s.to_string(), p.clone(), d));
            expect!(format!("blk({s:?}, Some)"), AlphaClient::blk(&c, s.to_string(), Some(p.clone())).await, (s.to_string(), Some(p)));
            expect!(format!("blk({s:?}, None)"), AlphaClient::blk(&c, s.to_string(), None).await, (s.to_string(), None::<Point>));
            expect!(format!("named(3, {s:?})"), BetaClient::named(&c, 3, Some(s.to_string())).await, (3u32, Some(s.to_string())));
        }
        expect!("named(0, None)", BetaClient::named(&c, 0, None).await, (0u32, None::<String>));
        expect!("arr(true, None)", BetaClient::arr(&c, true, None).await, (true, None::<bool>));
        expect!("arr(false, Some(true))", BetaClient::arr(&c, false, Some(true)).await, (false, Some(true)));
        expect!("one(None)", GammaClient::one(&c, None).await, None::<u8>);
        expect!("one(Some(255))", GammaClient::one(&c, Some(255)).await, Some(255u8));
        match AlphaClient::sub(&c, 5, Some(9)).await {
            Err(Error::Custom(s)) if s == "mock-subscribed unsub=true" => {}
            other => why.push(format!("sub(5, Some(9)): {:?}", other.map(|_| ()).map_err(|e| e.to_string()))),
        }
        match BetaClient::watch(&c, "k\"ey".to_string()).await {
            Err(Error::Custom(s)) if s == "mock-subscribed unsub=true" => {}
            other => why.push(format!("watch: {:?}", other.map(|_| ()).map_err(|e| e.to_string()))),
        }
        let l = log.lock().unwrap().clone();
        if !l.contains(&"sub(5,Some(9))".to_string()) || !l.contains(&"watch(\"k\\\"ey\")".to_string()) {
            why.push(format!("subscription handlers did not see their arguments: {l:?}"));
        }
        // ---- raw calls: omitted / null optionals, by-name keys (snake and camel), aliases
        let raw = |method: &str, params: Value| {
            let c = &c;
            let method = method.to_string();
            async move { c.call_raw(&method, Some(serde_json::value::to_raw_value(&params).unwrap())).await }
        };
        let cases: Vec<(&str, Value, Value)> = vec![
            ("ns.m3opt", json!([7]), json!([7, null, null])),
            ("ns.m3opt", json!([7, null]), json!([7, null, null])),
            ("ns.m3opt", json!([7, 8]), json!([7, 8, null])),
            ("ns.m3opt", json!([7, null, "z"]), json!([7, null, "z"])),
            ("ns.m3opt", json!({"a": 7}), json!([7, null, null])),
            ("ns.m3opt", json!({"c": "q", "a": 1}), json!([1, null, "q"])),
            ("named", json!({"first_arg": 4}), json!([4, null])),
            ("named", json!({"firstArg": 4, "second": "s"}), json!([4, "s"])),
            ("named", json!([4]), json!([4, null])),
            ("arr", json!([true]), json!([true, null])),
            ("g_one", json!([]), Value::Null),
            ("g_one", json!([null]), Value::Null),
            ("g_one", json!([3]), json!(3)),
            ("quad", json!([1, "b", {"x": 1, "tag": "t", "inner": []}, ["Dot"]]), json!([1, "b", {"x": 1, "tag": "t", "inner": []}, ["Dot"]])),
            ("ns.four", json!([1, "b", {"x": 1, "tag": "t", "inner": []}, []]), json!([1, "b", {"x": 1, "tag": "t", "inner": []}, []])),
            ("ns.blk", json!(["s"]), json!(["s", null])),
        ];
        for (m, p, want) in cases {
            match raw(m, p.clone()).await {
                Ok(v) if v == want => {}
                other => why.push(format!("{m} {p}: got {:?}, expected {want}", other.map_err(|e| e.to_string()))),
            }
        }
        // ---- wire names given by `rename` / identifiers that are not their own snake or camel form: the generated client sends exactly the declared name
        expect!("renamed(9, Some(8), Some(7))", BetaClient::renamed(&c, 9, Some(8), Some(7)).await, (9u64, Some(8u32), Some(7u8)));
        expect!("renamed(9, None, None)", BetaClient::renamed(&c, 9, None, None).await, (9u64, None::<u32>, None::<u8>));
        match raw("renamed", json!({"ID": 5, "entry-id": 6, "type_": 7})).await {
            Ok(v) if v == json!([5, 6, 7]) => {}
            other => why.push(format!("renamed by its declared names: got {:?}", other.map_err(|e| e.to_string()))),
        }
        // ---- subscription aliases: every subscribe name starts a subscription, every unsubscribe name ends one (answers true)
        for (subn, unsubn) in [("ns.feed", "ns.unfeed"), ("ns.feedalias", "ns.unfeedalias"), ("ns.feed", "stopfeed"), ("ns.feedalias", "ns.unfeed")] {
            match raw(subn, json!([])).await {
                Ok(id) if id.is_number() || id.is_string() => match raw(unsubn, json!([id])).await {
                    Ok(v) if v == json!(true) => {}
                    other => why.push(format!("unsubscribe name {unsubn:?} on a subscription made by {subn:?}: got {:?}, expected true", other.map_err(|e| e.to_string()))),
                },
                other => why.push(format!("subscribe name {subn:?}: {:?}", other.map_err(|e| e.to_string()))),
            }
        }
        // names that must not exist
        for m in ["ns_m0", "m0", "ns.named", "g.one", "ns_sub", "four"] {
            if raw(m, json!([])).await.is_ok() {
                why.push(format!("method name {m:?} is served although it was not declared"));
            }
        }
        json!({"scenario":"c17_roundtrip","observed":{"requests": c.sent.lock().unwrap().len()},"violation":!why.is_empty(),"why":why.join(" | ")})
    })
}
